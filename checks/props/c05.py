"""C05 — contract checks stop every precondition violation before it does damage (DESIGN §4 C05).

Tie T: gen/sites.py re-extracts the inventory of every TETL_PRECONDITION / TETL_PRECONDITION_SAFE / TETL_ASSERT site of
$VERIF_REPO/include/etl into lean/Tetl/C05/Sites.lean on every run; `Tetl.C05.Props.sites_accounted` compares it (by
kernel evaluation) with the guards the models carry.  Tie H: harness/c05.cpp is built twice (TETL_ENABLE_CONTRACT_CHECKS
and ..._SAFE), every case line runs in a forked child under a custom etl::assert_handler; the Lean driver runs the
same lines on the model and on the spec.  The flow differs from `check.standard` (two harness builds, own relations),
hence `run(ctx, replay)`.
"""
import concurrent.futures as cf
import json
import os
import random
import sys
import time

import lib
from lib import Case, Failure, Row, log

sys.path.insert(0, os.path.join(lib.VERIF, "gen"))
import sites as sitegen  # noqa: E402

PROP = "C05"
DRIVER = "drv-c05"
PROOF_MODULES = ["TetlProofs.C05.Props"]
HARNESS = "harness/c05.cpp"
SITES_LEAN = os.path.join(lib.LEAN, "Tetl", "C05", "Sites.lean")
SOURCES = ["include/etl/_contracts/check.hpp", "include/etl/_cassert/assert.hpp", "include/etl/_container/index.hpp",
           "include/etl/_vector/static_vector.hpp", "include/etl/_inplace_vector/inplace_vector.hpp",
           "include/etl/_string/basic_inplace_string.hpp", "include/etl/_string_view/basic_string_view.hpp",
           "include/etl/_span/span.hpp", "include/etl/_array/array.hpp", "include/etl/_optional/optional.hpp",
           "include/etl/_expected/expected.hpp", "include/etl/_variant/variant.hpp", "include/etl/_bitset/bitset.hpp",
           "include/etl/_bitset/basic_bitset.hpp", "include/etl/_numeric/div_sat.hpp", "include/etl/_chrono/day.hpp",
           "include/etl/_chrono/month.hpp", "include/etl/_mdspan", "include/etl/_bit", "include/etl/_cstring",
           "include/etl/_cwchar", "include/etl/_set/static_set.hpp"]
HFLAGS = ["-std=c++20", "-O0", "-g", "-fsanitize=address,undefined", "-fno-sanitize-recover=all",
          "-fno-omit-frame-pointer", "-Wno-deprecated-declarations"]
MODES = (("0", "-DTETL_ENABLE_CONTRACT_CHECKS=1", "c05_harness_checks"),
         ("1", "-DTETL_ENABLE_CONTRACT_CHECKS_SAFE=1", "c05_harness_safe"))
RULE = ("every operation of the modelled families (static_vector with trivial / non-trivial / zero storage incl. the public move_insert "
        "and, driven directly through a derived class / an explicit-instantiation member pointer, the inner unsafe_set_size / unsafe_destroy "
        "members of the storage classes, inplace_vector and inplace_string; inplace_vector incl. inplace_vector<T, 0>, "
        "string_view, span, array incl. array<T, 0>, inplace_string incl. insert / erase by index, optional/expected/variant, "
        "bitset/basic_bitset incl. to_ulong / to_ullong of bitset<5, 11, 40, 64, 65, 70, 130> (fitting and overflowing values), bit functions, div_sat, chrono day/month, mdspan stride of layout_left / layout_right / layout_stride, "
        "C string null checks, static_set range constructor, linalg add / copy / swap_elements / matrix_vector_product extents "
        "checks, to_string<Capacity>) x every size 0..capacity of the "
        "small capacities (1,3,4 and, for the narrow size field, 255 and 256 at sizes capacity-1 and capacity; strings 4 and 20; bitsets 5 and 11; arrays 0,1,3; linalg extents 0..3) x every index / position / count in "
        "{-1 (iterators), 0 .. size+2, capacity+1, 2^31, 2^32, 2^63-1, 2^63, 2^64-2, 2^64-1} x const / ref-qualified overload x "
        "both configurations (TETL_ENABLE_CONTRACT_CHECKS, ..._SAFE); every 5th line on an owning container also on the same state "
        "reached through insert/erase, pop/push or grow-and-cut-back (hist=1..3); element values from the seeded PRNG; thorough adds more "
        "contents per size and random argument mixes.  Each line runs in a forked child.  Non-trivial: the call violates the "
        "documented precondition (the handler must run) or the object is non-empty (a valid call that must not fire); "
        "distinct = distinct case text.")
ASSUMPTIONS = ["the oracle column is computed in the harness from the documented precondition and std::vector / plain arithmetic (R2)",
               "objects are modelled by capacity + live elements (+ active alternative); element types int / char / a non-trivial int wrapper",
               "replace counts are generated below 2^63 (size_t wrap of pos + count in replace belongs to the known finding of C04)",
               "array<T, N>::operator[] with N > 0 is checked only under TETL_ENABLE_CONTRACT_CHECKS_SAFE (TETL_PRECONDITION_SAFE, the "
               "library's 'all/slow assertions' level): violating indices are generated for the SAFE build only; array<T, 0> is "
               "checked in both configurations",
               "inplace_string::insert is driven with units that fit (size + count <= capacity): insert clamps silently otherwise "
               "(tetl's truncating append, a subject of C04, not a contract check)",
               "linalg and to_string are modelled by their checks only (the element loops / the digits are not compared)",
               "to_ulong / to_ullong: unsigned long and unsigned long long both have 64 digits on this platform (LP64; the harness "
               "rejects the case line otherwise); the Lean theorem holds for every digits value",
               "the inner 'unsafe' members are driven with a new size within the constructed elements or beyond the capacity (a size in "
               "between exposes unconstructed storage, which neither model nor harness can read back) and unsafe_destroy with an empty "
               "range or a violating pointer"]
TRUSTED = ["gen/sites.py (text-level extractor of the check sites; its inventory is cross-checked on every run against the "
           "file:line the real handler reports for each driven site)",
           "hand models Tetl/C05/Model.lean tied to the source by the correspondence run (R1) in both configurations",
           "fork + custom etl::assert_handler + ASan/UBSan as the observer of 'handler before damage'"]
SEARCH_CAP = 400000
CLAIMED = True
TECHNIQUE = ("Lean 4 proof, for each of the 84 operation schemas of the model language (none is compared only): guard-carrying model = "
             "documented-precondition spec for all states and arguments; check-site inventory regenerated from the headers on every run "
             "and compared in the kernel; fork-per-call correspondence run in both contract-check configurations; hand-made inventory "
             "of documented preconditions that have no check at all")
LEVEL_TEXT = ("Every TETL_PRECONDITION / _SAFE / TETL_ASSERT site of the current headers is re-extracted on every run; a kernel-checked "
              "theorem states that this inventory is exactly the list of guards carried by the Lean models (plus the two sites inside "
              "format_to, which no public call can reach; unmodelled_count = 2).  For EVERY operation schema of the model language (Proved_all: 84 schemas - "
              "static_vector element access / front / back / push / emplace_back / pop / clear / insert x4 / emplace / range insert / move_insert / "
              "erase x2 / resize x2 / assign x2 / the three sized constructors over its three storage classes, and the storage's "
              "unsafe_set_size / unsafe_destroy; inplace_vector incl. the inplace_vector<T, 0> specialisation and unsafe_set_size; "
              "string_view; span; array; inplace_string constructors / assign / push / pop / erase (iterator and index) / insert / "
              "replace / unsafe_set_size; optional / expected / variant access; bitset and basic_bitset accessors, the string constructor and "
              "to_ulong / to_ullong (the two loops of to_unsigned_type with the checks of test() and set_bit() they go through, against "
              "[bitset.members] 'overflow_error iff the value cannot be represented', for every width and every digits); bit "
              "functions, div_sat, chrono day/month, mdspan stride, C string null checks, static_set range constructor, linalg "
              "extents checks, to_string; 12 of them are 'checks only' models - C string null checks, linalg, to_string, static_set range "
              "constructor, mdspan stride: the code after the checks is not modelled, the theorem says which clause fires first) Lean proves, for every capacity, object and argument "
              "(no bound), that the model run equals the specification: a violated documented precondition ends in the handler at "
              "the site of the first violated clause with the object unchanged and before any out-of-range access; a valid call "
              "never reaches the handler and never leaves the live range.  replace is proved outside the input class of known "
              "finding F-C05-replace-pre (replace_valid_partial / replace_counterexample).  The models are tied to the code by running every "
              "operation with valid and violating arguments (boundary, boundary+1, 2^31..2^64-1) in forked children of two "
              "sanitizer builds with a snapshotting assert handler, and comparing site (file:line), snapshot and result.")
LEVEL_NOTE = ("Trusted: Lean kernel + propext/Classical.choice/Quot.sound; the text-level site extractor; the hand models' "
              "fidelity outside the explored inputs; g++-12/ASan/UBSan/fork as observer.  Well-formedness hypotheses of run_eq_expect "
              "(Tetl.C05.Props.WF): class invariant, capacity < 2^64, storage class matches the capacity, fresh object for constructors, "
              "inserted units fit, replace outside the known-finding class, bit position a value of the word type, div_sat operands int, "
              "the directly driven unsafe_set_size members with a new size within the constructed elements or beyond the capacity and "
              "unsafe_destroy with an empty range or a violating pointer; to_ulong / to_ullong need no hypothesis.  "
              "NOT detected by this method: an operation that documents a precondition but has no check at all is in no regenerated "
              "inventory; the hand-made list coverage.documented_preconditions_without_check (built from the \\pre comments and the "
              "standard's preconditions of the modelled families, each probed) records the ones found - 5 groups fixed, 7 open (array "
              "operator[] outside SAFE, mdspan element access and extents::extent, optional/expected operator->, the silently clamping "
              "string members, format_to; fixed on this branch: the inplace_vector<T, 0> members).  Every site except the two of format_to is fired by "
              "a generated violating call on every run (coverage.sites_never_fired); the inner sites that the outer documented preconditions "
              "imply (unsafe_set_size x5, unsafe_destroy x2) are reached by calling those protected / private members directly.  The 'documented precondition' of Spec.lean is taken from the \\pre comment or the standard, not "
              "from the condition text (chrono day/month: 255 is valid).  The two sites inside format_to are inventoried "
              "(sites_accounted) but not driven: format_to does not compile for any public output iterator (evidence coverage.unmodelled_sites).")
# Inventory of operations of the modelled families that have a precondition in the documentation (`\\pre`) or in the
# standard but NO TETL_PRECONDITION in the source (the site inventory cannot see them).  Built by reading the `\\pre`
# comments (all 29 have a check) and [span], [string.view], [basic.string], [array], [vector]/[inplace.vector],
# [optional], [expected], [variant], [bitset], [mdspan], [numeric.sat], [time.cal] against the headers, and by
# probing each candidate in a contract-check build (2026-09-28).  status: fixed = a check was added on fix-c05b and
# the operation is now driven; open = no check, recorded here (not driven, no theorem).
UNCHECKED_INVENTORY = [
    {"op": "span::first<Count>(), last<Count>(), subspan<Offset, Count>() on a span of dynamic extent", "std": "[span.sub] Count <= size(), Offset <= size()", "status": "fixed (F-C05-span-template-members-unchecked)"},
    {"op": "span<T, N>(first, count), span<T, N>(range), span<T, N>(span<U, dynamic_extent>)", "std": "[span.cons] count == extent", "status": "fixed (F-C05-span-template-members-unchecked)"},
    {"op": "array<T, 0>::front(), back(), operator[]", "std": "[array.zero] undefined", "status": "fixed (F-C05-array-zero-size-unchecked)"},
    {"op": "basic_inplace_string::insert(index, ...), erase(index, count)", "std": "[string.insert]/[string.erase] index <= size() (out_of_range)", "status": "fixed (F-C05-string-insert-index-unchecked)"},
    {"op": "inplace_vector<T, 0>::front(), back(), operator[], unchecked_push_back(), unchecked_emplace_back(), pop_back()", "std": "[inplace.vector] !empty() / n < size() / size() < capacity() (always violated)", "status": "fixed (F-C05-inplace-vector-zero-unchecked)"},
    {"op": "array<T, N>::operator[] (N > 0) in the TETL_ENABLE_CONTRACT_CHECKS configuration", "std": "[sequence.reqmts] n < size()", "status": "open: TETL_PRECONDITION_SAFE by design (the library's 'all/slow assertions' level); checked and proved for the SAFE configuration only"},
    {"op": "mdspan::operator()/operator[], layout_left/right/stride::mapping::operator()(indices...)", "std": "[mdspan.mdspan.members] indices form a multidimensional index in extents()", "status": "open: no check in either configuration (element access, same policy as array::operator[]); ASan heap-buffer-overflow on mdspan<int, extents<int,1,3>>(p)(0, 5)"},
    {"op": "extents::extent(r), static_extent(r)", "std": "[mdspan.extents.obs] r < rank()", "status": "open: no check; extent(5) of a rank-2 extents reads an unrelated value"},
    {"op": "optional::operator->, expected::operator->", "std": "[optional.observe]/[expected.object.obs] has_value()", "status": "open: documented in optional.hpp as total ('The pointer is null if the optional is empty'); expected follows the same convention"},
    {"op": "basic_inplace_string::substr / copy / compare / append(str, pos, n) / assign(str, pos, n) with pos > size(), resize(n > capacity())", "std": "[basic.string] throws out_of_range / length_error", "status": "open: clamp silently by design (no-exception API, 'Fails silently'); compare(pos, ...) reaches the check of string_view::substr"},
    {"op": "basic_inplace_string::insert / append / push_back past the capacity, static_set::insert / static_vector-backed containers when full via insert()", "std": "length_error / bad_alloc", "status": "open: insert/append clamp, static_set::insert returns {nullptr, false}; push_back has a check"},
    {"op": "etl::format_to: malformed format string / more fields than arguments", "std": "[format.err] format_error", "status": "open: two internal checks exist but format_to does not compile for any public output iterator"},
]
# operations modelled and compared on every run whose equation model = spec is not (yet) a Lean theorem: none
CORRESPONDENCE_ONLY = []
UNPROVED_OBSERVED = ["the two check sites inside format_to / format_escaped_sequences are inventoried (sites_accounted) but have no model "
                     "operation and are not driven (the only 2 of the inventoried sites that no generated call fires): "
                     "etl::format_to(out, fmt, args...) constructs format_context{out}, which only accepts "
                     "back_insert_iterator<detail::fmt_buffer<char>> - it does not compile for char*, back_inserter(inplace_string) or any "
                     "other public output iterator, and detail::fmt_buffer keeps a pointer to its by-value constructor parameter "
                     "(ASan: stack-buffer-overflow on first use)",
                     "the non-random-access branch of static_vector::insert(pos, first, last) / move_insert / assign / the range constructor "
                     "(no size check before the loop) cannot be instantiated: assert_valid_iterator_pair static_asserts is_pointer_v on the "
                     "iterators, so only pointers (random access) compile (probed with an etl-tagged forward iterator: static assertion failed "
                     "for insert / assign / the range constructor / move_insert); it has no model",
                     "not covered: the valid streams of the other properties are not re-run in the contract-check builds (DESIGN §4 C05); "
                     "pre-states are built by push_back and, for every 5th line on static_vector / inplace_vector / inplace_string, "
                     "additionally through insert+erase, pop+push or grow-and-cut-back - not through arbitrary operation histories",
                     "inner guards that the outer documented precondition implies (the storage's unsafe_set_size / unsafe_destroy, "
                     "inplace_vector::unsafe_set_size, inplace_string::unsafe_set_size, test() / unchecked_test() / set_bit() "
                     "inside to_unsigned_type) never fire through the public members: that they cannot is part of run_eq_expect for "
                     "the modelled members; for the unmodelled callers of the private inplace_string::unsafe_set_size (append, resize, "
                     "swap, clear) it was read off the source (every argument is a size() of a same-capacity string or clamped to "
                     "capacity()).  The sites themselves are fired by calling the protected / private members directly "
                     "(sv.unsafe_set_size, sv.unsafe_destroy, iv.unsafe_set_size, str.unsafe_set_size)"]
THEOREMS = {"*": ["Tetl.C05.Props.sites_accounted", "Tetl.C05.Props.run_eq_expect", "Tetl.C05.Props.violation_asserts",
                  "Tetl.C05.Props.valid_never_asserts", "Tetl.C05.Props.Proved_all", "Tetl.C05.Props.replace_valid_partial",
                  "Tetl.C05.Props.toUnsigned_fits", "Tetl.C05.Props.toUnsigned_overflow", "Tetl.C05.Props.toUnsigned_representable_iff"]}

U63, U64 = 2 ** 63, 2 ** 64
BIG = [2 ** 31, 2 ** 32, U63 - 1, U63, U64 - 2, "npos"]


def fl(xs):
    return "[" + ",".join(str(int(x)) for x in xs) + "]"


def regenerate(ctx):
    ss = sitegen.extract(lib.REPO)
    changed = sitegen.emit(ss, SITES_LEAN)
    return {"generated_file": os.path.relpath(SITES_LEAN, lib.VERIF), "hash": lib.file_hash(SITES_LEAN), "changed": changed,
            "sites_total": len(ss), "sites": ss}


# ------------------------------------------------------------------ generator

def generate(tier, seed):
    rnd = random.Random(seed)
    thorough = tier == "thorough"
    reps = 4 if thorough else 1
    base, dist = [], {}

    def add(line, tag=None):
        tag = tag or line.split(" ")[0]
        base.append((line, tag))

    def content(n, lo=1, hi=9):
        return [rnd.randint(lo, hi) for _ in range(n)]

    def idxs(n, cap=None):
        s = set(range(0, n + 3)) | ({cap, cap + 1} if cap is not None else set())
        return sorted(s) + BIG

    for _ in range(reps):
        # ---- static_vector
        for T, caps in (("triv", (1, 3, 4)), ("nontriv", (3,)), ("zero", (0,))):
            for cap in caps:
                for n in range(cap + 1):
                    e = content(n)
                    h = "T=%s cap=%d e=%s" % (T, cap, fl(e))
                    for k in (0, 1):
                        for i in idxs(n, cap):
                            add("sv.at %s i=%s k=%d" % (h, i, k))
                        add("sv.front %s k=%d" % (h, k))
                        add("sv.back %s k=%d" % (h, k))
                    v = rnd.randint(10, 99)
                    add("sv.push %s v=%d" % (h, v))
                    add("sv.emplace_back %s v=%d" % (h, v))
                    add("sv.pop %s" % h)
                    add("sv.clear %s" % h)
                    # iterators of the zero-capacity storage are null pointers: only begin() + 0 can be formed
                    for p in ((0,) if T == "zero" else range(-1, n + 3)):
                        for cnt in list(range(0, cap + 3)) + BIG:
                            add("sv.insert_n %s p=%d n=%s v=%d" % (h, p, cnt, v))
                        for op in ("sv.insert_cr", "sv.insert_mv", "sv.emplace"):
                            add("%s %s p=%d v=%d" % (op, h, p, v))
                        for m in range(0, cap + 3):
                            xs = content(m, 20, 60)
                            add("sv.insert_rng %s p=%d xs=%s ord=1" % (h, p, fl(xs)))
                            add("sv.move_insert %s p=%d xs=%s ord=1" % (h, p, fl(xs)))     # the public member, called directly
                            if m >= 1 and p in (0, n):
                                add("sv.insert_rng %s p=%d xs=%s ord=0" % (h, p, fl(xs)))
                                add("sv.move_insert %s p=%d xs=%s ord=0" % (h, p, fl(xs)))
                        add("sv.erase %s p=%d" % (h, p))
                        for q in ((0,) if T == "zero" else range(-1, n + 3)):
                            add("sv.erase_rng %s f=%d l=%d" % (h, p, q))
                    # the protected "unsafe" members of the storage base, driven through a derived class: a new size within the
                    # constructed elements (valid) or beyond the capacity (the inner check must fire)
                    for m in list(range(0, n + 1)) + [cap + 1, cap + 2] + BIG:
                        add("sv.unsafe_set_size %s n=%s" % (h, m))
                    if T == "nontriv":
                        for f in range(-1, n + 3):
                            for la in range(-1, n + 3):
                                if not (0 <= f <= n and 0 <= la <= n) or f == la:
                                    add("sv.unsafe_destroy %s f=%d l=%d" % (h, f, la))
                    for m in list(range(0, cap + 3)) + BIG:
                        add("sv.resize %s n=%s" % (h, m))
                        add("sv.resize_v %s n=%s v=%d" % (h, m, v))
                        add("sv.assign_n %s n=%s v=%d" % (h, m, v))
                        if n == 0:
                            add("sv.ctor_n T=%s cap=%d n=%s" % (T, cap, m))
                            add("sv.ctor_nv T=%s cap=%d n=%s v=%d" % (T, cap, m, v))
                    for m in range(0, cap + 3):
                        xs = content(m, 20, 60)
                        for o in ((1, 0) if m else (1,)):
                            add("sv.assign_rng %s xs=%s ord=%d" % (h, fl(xs), o))
                            if n == 0:
                                add("sv.ctor_rng T=%s cap=%d xs=%s ord=%d" % (T, cap, fl(xs), o))
        # ---- static_vector at the 255 / 256 boundary of its narrow size field (smallest_size_t<Capacity>)
        for cap in (255, 256):
            for n in (cap - 1, cap):
                e = content(n)
                h = "T=triv cap=%d e=%s" % (cap, fl(e))
                v = rnd.randint(10, 99)
                for i in (n - 1, n, n + 1, 255, 256, 257, "npos"):
                    add("sv.at %s i=%s k=0" % (h, i))
                for op in ("sv.push", "sv.emplace_back"):
                    add("%s %s v=%d" % (op, h, v))
                add("sv.pop %s" % h)
                add("sv.back %s k=0" % h)
                for cnt in (0, 1, 2, 255, 256, 257, "npos"):
                    add("sv.insert_n %s p=%d n=%s v=%d" % (h, n // 2, cnt, v))
                add("sv.insert_cr %s p=0 v=%d" % (h, v))
                add("sv.erase %s p=%d" % (h, n - 1))
                for m in (0, 1, 254, 255, 256, 257, 300):
                    add("sv.resize %s n=%d" % (h, m))
                    add("sv.assign_n %s n=%d v=%d" % (h, m, v))
        # ---- inplace_vector (capacity 0: the specialisation inplace_vector<T, 0>, always empty and full)
        for cap in (0, 1, 3, 4):
            for n in range(cap + 1):
                h = "cap=%d e=%s" % (cap, fl(content(n)))
                v = rnd.randint(10, 99)
                for k in (0, 1):
                    for i in idxs(n, cap):
                        add("iv.at %s i=%s k=%d" % (h, i, k))
                    add("iv.front %s k=%d" % (h, k))
                    add("iv.back %s k=%d" % (h, k))
                    add("iv.push %s v=%d k=%d" % (h, v, k))
                add("iv.emplace_back %s v=%d" % (h, v))
                add("iv.pop %s" % h)
                for m in (list(range(0, n + 1)) + [cap + 1, cap + 2] + BIG) if cap else ():     # the private member (explicit-instantiation access)
                    add("iv.unsafe_set_size %s n=%s" % (h, m))
        # ---- string_view / span
        for n in range(0, 5):
            e = content(n, 97, 122)
            h = "e=%s" % fl(e)
            for fam in ("vw", "sp"):
                for i in idxs(n):
                    add("%s.at %s a=%s" % (fam, h, i))
                add("%s.front %s" % (fam, h))
                add("%s.back %s" % (fam, h))
            for ext in (0, 1, 2, 3, 4, 6):
                for k in (0, 1, 2):
                    add("sp.ctor_ext %s ext=%d k=%d" % (h, ext, k))
            for a in idxs(n):
                add("vw.remove_prefix %s a=%s" % (h, a))
                add("vw.remove_suffix %s a=%s" % (h, a))
                add("sp.first %s a=%s" % (h, a))
                add("sp.last %s a=%s" % (h, a))
                if isinstance(a, int) and a < 7:      # the compile-time counts the harness instantiates
                    add("sp.first_t %s a=%s" % (h, a))
                    add("sp.last_t %s a=%s" % (h, a))
                if isinstance(a, int) and a < 6:
                    for b in [0, 1, 2, 3, 4, "npos"]:
                        add("sp.subspan_t %s a=%s b=%s" % (h, a, b))
                for b in list(range(0, n + 2)) + ["npos", U64 - 2, U63]:
                    add("vw.substr %s a=%s b=%s" % (h, a, b))
                    add("vw.copy %s a=%s b=%s" % (h, b, a))
                    add("sp.subspan %s a=%s b=%s" % (h, a, b))
        # ---- array (violating indices only where the check is active: SAFE)
        for cap in (0, 1, 3):
            e = content(cap)
            for k in (0, 1):
                for i in idxs(cap):
                    valid = isinstance(i, int) and i < cap
                    # a zero-size array checks `false` in both configurations
                    add("ar.at cap=%d e=%s i=%s k=%d" % (cap, fl(e), i, k), "ar.at" if valid or cap == 0 else "ar.at!safe")
                add("ar.front cap=%d e=%s k=%d" % (cap, fl(e), k))
                add("ar.back cap=%d e=%s k=%d" % (cap, fl(e), k))
        # ---- inplace_string
        for cap in (4, 20):
            sizes = range(cap + 1) if cap == 4 else (0, 1, 7, 19, 20)
            for n in sizes:
                e = content(n, 97, 122)
                h = "cap=%d e=%s" % (cap, fl(e))
                for k in (0, 1):
                    add("str.front %s k=%d" % (h, k))
                    add("str.back %s k=%d" % (h, k))
                    for i in idxs(n, cap):
                        add("str.at %s a=%s k=%d" % (h, i, k))
                add("str.push %s v=%d" % (h, rnd.randint(97, 122)))
                add("str.pop %s" % h)
                for m in sorted(set(range(0, n + 1)) if cap == 4 else {0, n // 2, n}) + [cap + 1, cap + 2] + BIG:
                    add("str.unsafe_set_size %s a=%s" % (h, m))
                for m in sorted({0, 1, n, cap - 1, cap, cap + 1, cap + 2}) + BIG:
                    if isinstance(m, int) and m >= 0:
                        add("str.assign_fill %s a=%s v=%d" % (h, m, rnd.randint(97, 122)))
                        if n == 0:
                            add("str.ctor_fill cap=%d a=%s v=%d" % (cap, m, rnd.randint(97, 122)))
                    elif not isinstance(m, int):
                        add("str.assign_fill %s a=%s" % (h, m))
                for m in sorted({0, 1, cap - 1, cap, cap + 1, cap + 3}):
                    xs = content(m, 65, 90)
                    add("str.op_assign %s xs=%s" % (h, fl(xs)))
                    for a in sorted({0, m // 2, m}):
                        add("str.assign_ptr %s xs=%s a=%d" % (h, fl(xs), a))
                        if n == 0:
                            add("str.ctor_ptr cap=%d xs=%s a=%d" % (cap, fl(xs), a))
                # iterator arguments: offsets a harness can form without pointer overflow
                for a in sorted(set(range(0, min(n, 5) + 3)) | {n, n + 1, n + 2}):
                    for b in sorted(set(range(0, min(n, 5) + 3)) | {n, n + 1, n + 2, cap + 5}):
                        add("str.erase_rng %s a=%s b=%s" % (h, a, b))
                # insert(index, ...) / erase(index, count): the inserted units fit (insert clamps silently otherwise)
                ctr = 0
                for a in idxs(n, cap):
                    for j, m in enumerate(sorted(x for x in {0, 1, min(3, cap - n), cap - n} if x <= cap - n)):
                        xs = content(m, 65, 90)
                        ctr += 1
                        for k in (range(1, 7) if j == 0 else (1 + ctr % 6,)):   # every overload at every index, then rotating
                            add("str.insert %s a=%s xs=%s k=%d" % (h, a, fl(xs), k))
                        add("str.insert_fill %s a=%s b=%d v=%d" % (h, a, m, rnd.randint(97, 122)))
                    for b in sorted({0, 1, n + 1}) + ["npos"]:
                        add("str.erase_idx %s a=%s b=%s" % (h, a, b))
                if n <= 7:
                    for a in range(0, n + 2):
                        for b in range(0, n + 2):
                            xs = content(rnd.randint(0, 3), 48, 57)
                            for k in (0, 1, 2):
                                add("str.replace %s a=%d b=%d xs=%s k=%d" % (h, a, b, fl(xs), k))
                            xs = content(rnd.randint(0, 3), 48, 57)
                            c, d = rnd.randint(0, len(xs) + 1), rnd.randint(0, 3)
                            add("str.replace_sub %s a=%d b=%d xs=%s c=%d d=%d" % (h, a, b, fl(xs), c, d))
        # ---- optional / expected / variant
        for k in range(5):
            add("opt.deref e=[] k=%d" % k)
            add("opt.deref e=%s k=%d" % (fl(content(1)), k))
        for k in range(4):
            for alt in (0, 1):
                add("exp.deref e=%s alt=%d k=%d" % (fl(content(1)), alt, k))
                add("exp.error e=%s alt=%d k=%d" % (fl(content(1)), alt, k))
            for alt in range(3):
                for i in range(3):
                    add("var.idx e=%s alt=%d i=%d k=%d" % (fl(content(1)), alt, i, k))
                    add("var.get e=%s alt=%d i=%d k=%d" % (fl(content(1)), alt, i, k))
        # ---- bitset
        for cap in (5, 11):
            e = content(cap, 0, 1)
            for w in range(6):
                for pos in idxs(cap):
                    add("bb.op cap=%d e=%s w=%d pos=%s v=%d" % (cap, fl(e), w, pos, rnd.randint(0, 1)))
                    add("bs.op cap=%d e=%s w=%d pos=%s v=%d" % (cap, fl(e), w, pos, rnd.randint(0, 1)))
        for n in range(0, 8):
            e = content(n, 0, 1)
            for pos in idxs(n):
                for cnt in (0, 1, 3, n, "npos"):
                    add("bs.ctor e=%s pos=%s n=%s" % (fl(e), pos, cnt))
        # ---- to_ulong (w=0) / to_ullong (w=1): both result types have 64 digits on this platform (LP64; the harness rejects
        # the line otherwise).  Widths below, at and above 64; the value fits (no bit at a position >= 64) or does not.
        for cap in (5, 11, 40, 64, 65, 70, 130):
            pats = [[0] * cap, [1] * cap, content(cap, 0, 1)]
            low = content(min(cap, 64), 0, 1) + [0] * max(0, cap - 64)
            pats.append(low)
            for i in sorted({0, 31, 32, 63, 64, 65, cap - 1, rnd.randrange(cap)}):
                if i < cap:
                    pats.append([1 if j == i else 0 for j in range(cap)])
                    if i >= 64:
                        pats.append([1 if j == i else b for j, b in enumerate(low)])
            for e in pats:
                for w in (0, 1):
                    add("bs.to_u cap=%d e=%s w=%d d=64" % (cap, fl(e), w))
        # ---- scalars
        for w in (8, 16, 32, 64):
            top = 2 ** w
            for which in range(5):
                for pos in sorted({0, 1, w - 1, w, w + 1, top - 1, top // 2, top // 2 - 1} | ({2 ** 31, 2 ** 32 - 1} if w >= 32 else set())
                                  | ({2 ** 32, 2 ** 32 + 5, 2 ** 63} if w == 64 else set())):
                    if pos < top:
                        add("bit which=%d w=%d pos=%d" % (which, w, pos))
        for x in (0, 1, -7, 7, 2 ** 31 - 1, -(2 ** 31), -(2 ** 31) + 1, rnd.randint(-(2 ** 31), 2 ** 31 - 1)):
            for y in (0, 1, -1, 3, -3, 2 ** 31 - 1, -(2 ** 31), rnd.randint(-(2 ** 31), 2 ** 31 - 1)):
                add("div_sat x=%d y=%d" % (x, y))
        for d in (0, 1, 12, 31, 254, 255, 256, 300, 2 ** 32 - 1):
            add("day d=%d" % d)
            add("month d=%d" % d)
        for lay, e in (("layout_left", [1, 2, 6]), ("layout_right", [12, 4, 1]), ("layout_stride", [24, 8, 2])):
            for r in idxs(3):
                add("stride l=%s r=%s e=%s" % (lay, r, fl(e)))
        for fn in ("memmove", "strcpy", "strncpy", "wcscpy", "wcsncpy"):
            for d in (0, 1):
                for s in (0, 1):
                    add("null fn=%s d=%d s=%d" % (fn, d, s))
        for fn in ("strchr0", "strchr1"):
            for s in (0, 1):
                add("null fn=%s s=%d" % (fn, s))
        for nx in range(0, 4):
            for ny in range(0, 4):
                add("linalg fn=copy nx=%d ny=%d" % (nx, ny))
                add("linalg fn=swap nx=%d ny=%d" % (nx, ny))
                for nz in range(0, 4):
                    add("linalg fn=add nx=%d ny=%d nz=%d" % (nx, ny, nz))
                for r in range(0, 3):
                    for c in range(0, 3):
                        add("linalg fn=mvp r=%d c=%d nx=%d ny=%d" % (r, c, nx, ny))
        for cap in (2, 4, 21):
            for x in sorted({0, 1, 9, 10, -1, -9, -10, 99, 100, 999, 1000, -99, -100, 2 ** 31 - 1, -(2 ** 31), 2 ** 63 - 1, -(2 ** 63),
                             rnd.randint(-10 ** 6, 10 ** 6), rnd.randint(-(2 ** 63), 2 ** 63 - 1)}):
                add("to_string cap=%d x=%d" % (cap, x))
        for m in range(0, 6):
            xs = sorted(set(content(m, 1, 50)))
            add("set.ctor xs=%s ord=1" % fl(xs))
            if xs:
                add("set.ctor xs=%s ord=0" % fl(xs))
    cases = []
    for idx, (line, tag) in enumerate(base):
        for mode in ("0", "1"):
            if tag.endswith("!safe") and mode == "0":
                continue
            t = tag.replace("!safe", "")
            cases.append(Case(line + " safe=" + mode, t))
            dist[t] = dist.get(t, 0) + 1
        # histories: every 5th line on an owning container also runs on the same abstract state reached through
        # insert/erase (1), pop/push (2), grow and cut back (3) - the harness applies these valid calls before the case
        fam = line.split(".")[0]
        if fam in ("sv", "iv", "str") and idx % 5 == 0 and " e=" in line and "unsafe" not in line and "T=zero" not in line:
            hist = 1 + (idx // 5) % (2 if fam == "iv" else 3)
            cases.append(Case(line + " hist=%d safe=%d" % (hist, (idx // 5) % 2), tag + "+hist"))
            dist[tag + "+hist"] = dist.get(tag + "+hist", 0) + 1
    return cases, False, dist


def nontrivial(case, rows):
    r = rows[0]
    return r.spec.startswith("assert") or ("e=[]" not in case.lines[0])


def args_of(line):
    d = {}
    for tok in line.split(" ")[1:]:
        if "=" in tok:
            k, v = tok.split("=", 1)
            d[k] = v
    return d


def num(v):
    return U64 - 1 if v == "npos" else int(v)


def lst(v):
    v = v.strip("[]")
    return [int(x) for x in v.split(",")] if v else []


def classify(case, k, row):
    """F-C05-replace-pre: a replace call that is valid by the documented (std) precondition `pos <= size()`
    (and `pos2 <= str.size()`) but is rejected by tetl's stricter checks.  Same predicate as the hypothesis of
    Tetl.C05.Props.replace_valid_partial / replace_counterexample."""
    line = case.lines[k]
    op = line.split(" ")[0]
    a = args_of(line)
    if op == "str.replace":
        n, pos, cnt = len(lst(a["e"])), num(a["a"]), num(a["b"])
        if pos <= n and not (pos + cnt < n) and row.impl.startswith("assert("):   # Props.ReplaceExcluded
            return "F-C05-replace-pre"
    if op == "str.replace_sub":
        n, pos, m, pos2 = len(lst(a["e"])), num(a["a"]), len(lst(a["xs"])), num(a["c"])
        # the boundary values on which tetl's strict checks differ from the documented ones: exactly the complement of the
        # hypothesis `pos ≠ size ∧ pos2 ≠ |str|` of run_eq_expect (Props.WF) - a valid call that fires, or (pos = size,
        # pos2 > |str|) a violating call whose handler runs at the site of the other clause
        if (pos == n or pos2 == m) and row.impl.startswith("assert("):
            return "F-C05-replace-pre"
    return None


def group_of(case):
    return case.tag


# ------------------------------------------------------------------ relations

def evaluate(cases, results, site_set):
    """R2 spec = oracle; R3 impl satisfies the spec (handler iff the spec says so, at the inventoried site of the first violated
    documented clause, object unchanged,
    no sanitizer report first; identical result otherwise); R1 impl = model (site, snapshot flag and result)."""
    fails = []
    for c, rows in zip(cases, results):
        for k, r in enumerate(rows):
            if "bad-op" in (r.impl, r.model):
                fails.append(Failure("BAD", c, k, r))
                break
            if r.impl == "skipped":
                break
            # the spec column carries the site of the first violated documented clause: `assert(file:line)`
            spec_assert = r.spec.startswith("assert(")
            if ("assert" if spec_assert else r.spec) != r.std:
                fails.append(Failure("R2", c, k, r))
                break
            if r.impl.startswith("assert("):
                site = r.impl[7:r.impl.index(")")]
                ok = (spec_assert and r.impl.endswith("same=1") and site in site_set
                      and site == r.spec[7:r.spec.index(")")])
            else:
                ok = r.impl == r.spec
            if not ok:
                fails.append(Failure("R3", c, k, r))
                break
            if r.impl != r.model:
                fails.append(Failure("R1", c, k, r))
                break
    return fails


def run_cases(ctx, cases, exes, driver):
    """cases carry `safe=0|1`: each goes to the harness built for that configuration; order is preserved."""
    results = [None] * len(cases)
    for mode, _, _ in MODES:
        idx = [i for i, c in enumerate(cases) if c.lines[0].endswith("safe=" + mode)]
        if not idx:
            continue
        res = lib.run_batch(ctx, [cases[i] for i in idx], exes[mode], driver)
        for i, r in zip(idx, res):
            results[i] = r
    missing = [c.lines[0] for c, r in zip(cases, results) if r is None]
    if missing:
        raise lib.MachineryError("case without safe=0|1: %s" % missing[:3])
    return results


def build_harnesses():
    exes, errs = {}, []
    with cf.ThreadPoolExecutor(max_workers=2) as ex:
        futs = {m: ex.submit(lib.build_harness, HARNESS, name, [flag], None, HFLAGS) for m, flag, name in MODES}
        for m, f in futs.items():
            exe, err = f.result()
            if exe is None:
                errs.append(err)
            exes[m] = exe
    return exes, errs


def run(ctx, replay=None):
    known = lib.load_known(PROP)
    hits = lib.lean_source_scan([os.path.join(lib.LEAN, "Tetl"), os.path.join(lib.LEAN, "TetlProofs")])
    if hits:
        log("MACHINERY-ERROR forbidden construct in Lean sources:\n  " + "\n  ".join(hits[:10]))
        return 2

    # 1. tie T: regenerate the site inventory
    gen_info = regenerate(ctx)
    inv = gen_info.pop("sites")
    site_set = {"%s:%d" % (s["file"], s["line"]) for s in inv}

    # 2. build: the driver must build (it imports the regenerated inventory, not the proofs)
    ok, out = lib.lake_build([DRIVER])
    if not ok:
        log("MACHINERY-ERROR driver build failed: " + lib.first_lean_error(out))
        return 2
    proof_broken = None
    ok, out = lib.lake_build(PROOF_MODULES)
    if not ok:
        proof_broken = lib.first_lean_error(out)
        log("proof obligation no longer checks: " + proof_broken)

    # 3. audit
    thms, bad = ({}, [])
    if not proof_broken:
        thms, bad = lib.audit(PROOF_MODULES)
        if bad:
            log("MACHINERY-ERROR theorems with axioms outside the allow-list: %s" % bad)
            return 2
        if not thms:
            log("MACHINERY-ERROR no theorems found in %s" % PROOF_MODULES)
            return 2
    checker_ok = None
    if ctx.tier == "thorough" and not proof_broken and not replay:
        for m in PROOF_MODULES:
            okc, msg = lib.leanchecker(m)
            checker_ok = okc
            if not okc:
                log("MACHINERY-ERROR leanchecker rejected %s: %s" % (m, msg))
                return 2

    # 4. both harness builds from the current tree
    exes, errs = build_harnesses()
    if errs:
        raise lib.MachineryError("harness does not compile against %s:\n%s" % (lib.REPO, errs[0][-6000:]))

    # 5. cases
    if replay:
        rp = json.load(open(replay))
        cases = [Case([ln], "replay") for ln in rp["cases"]]
        exhaustive, dist = False, {}
    else:
        pre = []
        for fid, e in known.items():
            for ln in e.get("witness", []) or []:
                pre.append(Case([ln], "finding:" + fid))
        cases, exhaustive, dist = generate(ctx.tier, ctx.seed)
        cases = pre + cases
    results = run_cases(ctx, cases, exes, DRIVER)
    fails = evaluate(cases, results, site_set)

    if replay:
        for c, rows in zip(cases, results):
            for ln, r in zip(c.lines, rows):
                log("%-70s impl=%s | model=%s | spec=%s | oracle=%s" % (ln, r.impl, r.model, r.spec, r.std))
        bad_kinds = [f.kind for f in fails if f.kind in ("R1", "R3")]
        log("replay: %s" % ("FAILS " + ",".join(bad_kinds) if bad_kinds else "passes"))
        return 1 if bad_kinds else 0

    # 6. an obligation or the correspondence broke without a failing input yet: widen the search
    escalated = False
    if (proof_broken or [f for f in fails if f.kind == "R1"]) and not [f for f in fails if f.kind == "R3"] and ctx.tier == "quick":
        escalated = True
        log("escalating: searching the thorough input space for a failing input")
        more, _, _ = generate("thorough", ctx.seed)
        more = more[:SEARCH_CAP]
        res2 = run_cases(ctx, more, exes, DRIVER)
        fails = fails + evaluate(more, res2, site_set)
        cases, results = cases + more, results + res2

    # 7. verdicts
    machinery = False
    reported, finding_seen = {}, set()
    for f in sorted(fails, key=lambda f: (len(f.case.text()), f.case.text())):
        if f.kind == "BAD":
            log("MACHINERY-ERROR bad-op on: %s  -> %s" % (f.case.lines[f.line_idx], f.row.as_dict()))
            machinery = True
            continue
        if f.kind == "R2":
            log("MACHINERY-ERROR spec!=oracle (defect of the Lean spec or of the harness oracle, not of tetl): %s -> %s"
                % (f.case.lines[f.line_idx], f.row.as_dict()))
            machinery = True
            continue
        fid = classify(f.case, f.line_idx, f.row) if f.kind == "R3" else None
        if f.case.tag.startswith("finding:") and fid is None:
            t = f.case.tag[8:]
            fid = t if known.get(t, {}).get("status") == "known" else None
        if fid and known.get(fid, {}).get("status") == "known":
            ctx.known(fid, known[fid].get("what", ""))
            finding_seen.add(fid)
            continue
        key = (f.kind, f.case.tag)
        reported[key] = reported.get(key, 0) + 1
        if reported[key] > 1:
            continue
        row = f.row
        payload = {
            "kind": "impl_violates_property" if f.kind == "R3" else "correspondence_broken",
            "cases": f.case.lines, "failing_line": f.line_idx,
            "impl": row.impl, "model": row.model, "spec": row.spec, "std": row.std,
            "expected": "handler at an inventoried site with the object unchanged, before any sanitizer report"
                        if row.spec.startswith("assert") else "the call returns %s and the handler is not invoked" % row.spec,
            "theorems": ["Tetl.C05.Props.sites_accounted", "Tetl.C05.Props.violation_asserts", "Tetl.C05.Props.valid_never_asserts"],
            "lean_error": proof_broken, "source": lib.source_hashes(SOURCES),
            "failing_input_found": f.kind == "R3",
        }
        ctx.violation(payload, found=(f.kind == "R3"))
    if proof_broken and not ctx.violations:
        ctx.violation({"kind": "proof_broken", "cases": [], "lean_error": proof_broken, "theorems": PROOF_MODULES,
                       "source": lib.source_hashes(SOURCES), "failing_input_found": False,
                       "explanation": "the regenerated site inventory / a proof obligation no longer checks; the search over %d "
                                      "cases found no input on which the implementation violates the property" % len(cases)},
                      found=False)
    for key, n in reported.items():
        if n > 1:
            log("  (%d further failing cases of kind %s in %s not listed)" % (n - 1, key[0], key[1]))
    for fid, e in known.items():
        if e.get("status") == "known" and fid not in finding_seen:
            ctx.notes.append("known finding %s did not reproduce on this run" % fid)

    # 8. evidence
    nontriv = set()
    fired_sites = set()
    for c, rows in zip(cases, results):
        if nontrivial(c, rows):
            nontriv.add(c.text())
        for r in rows:
            if r.impl.startswith("assert(") and ")" in r.impl:
                fired_sites.add(r.impl[7:r.impl.index(")")])
    n_eval = sum(len(c.lines) for c in cases)
    rnd = random.Random(ctx.seed)
    samples = []
    for idx in rnd.sample(range(len(cases)), min(6, len(cases))):
        samples.append({"case": cases[idx].lines, "out": [r.as_dict() for r in results[idx]]})
    vers = lib.toolchain_versions()
    axioms_used = sorted({a for axs in thms.values() for a in axs})
    all_sites = sorted(site_set)
    coverage = {
        "obligations": len(thms) if thms else 1,
        "discharged": len(thms) - len(bad) if thms else 0,
        "checker_cmd": "cd /verif/lean && lake build %s && lake env lean <audit of %s> (#audit_module: axioms of every theorem)%s"
                       % (" ".join(PROOF_MODULES), ",".join(PROOF_MODULES),
                          " && lake env leanchecker <module>" if ctx.tier == "thorough" else ""),
        "trusted_base": ["Lean 4 kernel (%s)" % vers["lean"], "axioms used by the property theorems: %s" % (axioms_used or ["none"])]
                        + list(TRUSTED) + ["harness compiler: %s with ASan+UBSan, -O0, two configurations" % vers["cxx"]],
        "theorems": sorted(thms.keys()),
        "leanchecker": checker_ok,
        "evaluations": n_eval,
        "distinct_nontrivial": len(nontriv),
        "rule": RULE,
        "samples": samples,
        "exhaustive": bool(exhaustive),
        "traces_validated_against_impl": sum(1 for rows in results if all(r.impl == r.model for r in rows)),
        "input_distribution": dist,
        "sanitizer_aborts": ctx.aborts,
        "known_findings_replayed": dict(ctx.known_hits),
        "escalated_search": escalated,
        "generated": gen_info,
        "sites_total": len(inv),
        "sites_fired_by_a_violating_call": len(fired_sites),
        "sites_never_fired": [s for s in all_sites if s not in fired_sites],
        "unmodelled_sites": ["%s:%d %s [%s]" % (s["file"], s["line"], s["qfunc"], s["cond"]) for s in inv
                             if s["file"].startswith("_format/")],
        "source_hashes": lib.source_hashes(SOURCES),
        "notes": ctx.notes,
        "unproved_observed": UNPROVED_OBSERVED,
        "correspondence_only": CORRESPONDENCE_ONLY,
        "documented_preconditions_without_check": UNCHECKED_INVENTORY,
    }
    ctx.write_evidence(coverage, list(ASSUMPTIONS))
    if machinery:
        return 2
    log("%s %s: %d theorems, %d cases, %d distinct non-trivial, %d/%d sites fired, %d known-finding hits, %d violations, %.1fs"
        % (PROP, ctx.tier, len(thms), len(cases), len(nontriv), len(fired_sites), len(inv), sum(ctx.known_hits.values()),
           len(ctx.violations), time.time() - ctx.t0))
    return 1 if ctx.violations else 0
