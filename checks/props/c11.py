"""C11 — calendar conversions are a Gregorian bijection (DESIGN §4 C11).  Tie T: the model is regenerated
from the clang AST of $VERIF_REPO/include/etl/_chrono on every run (gen/translate.py)."""
import os
import random
import sys

import lib
from lib import Case

sys.path.insert(0, os.path.join(lib.VERIF, "gen"))
import translate  # noqa: E402

PROP = "C11"
DRIVER = "drv-c11"
PROOF_MODULES = ["TetlProofs.C11.Props", "TetlProofs.C11.Ops"]
HARNESS = "harness/c11.cpp"
SOURCES = ["include/etl/_chrono/year_month_day.hpp", "include/etl/_chrono/year_month_day_last.hpp",
           "include/etl/_chrono/year_month.hpp", "include/etl/_chrono/year.hpp", "include/etl/_chrono/month.hpp",
           "include/etl/_chrono/day.hpp", "include/etl/_chrono/weekday.hpp", "include/etl/_chrono/duration.hpp",
           "include/etl/_chrono/year_month_weekday.hpp", "include/etl/_chrono/year_month_weekday_last.hpp",
           "include/etl/_chrono/month_day_last.hpp"]
RULE = ("civil/days/weekday: every era, century, 4-year and year boundary +-2 days plus seeded random day numbers over the whole "
        "supported range [-12687428, 11248737] (thorough: additionally an in-harness sweep of every day against std::chrono and a "
        "day-by-day walker); ok(): every (y, m in 0..13, d in 0..32) for boundary years; is_leap: every int16 year; month x delta in "
        "[-40,40], weekday x delta in [-20,20], year_month carry across year ends; +/- months and +/- years of year_month, "
        "year_month_day, year_month_day_last, year_month_weekday, year_month_weekday_last (x + d, d + x, x - (-d), +=, -= on every "
        "ym_plus / year_plus line): boundary years +-32767, deltas around the multiples of 12 and the largest deltas whose result "
        "is still a year value, with varying day / weekday / index fields.  Non-trivial: result differs from the identity/"
        "zero answer; distinct = distinct case text.")
ASSUMPTIONS = ["std::chrono of libstdc++ 12 validates the Lean calendar spec (R2)",
               "the generated model is exactly what gen/translate.py reads from clang-16's AST; translator bugs show up as R1 disagreements"]
TRUSTED = ["translator gen/translate.py (clang-16 JSON AST -> Lean), validated on every run by running the generated functions against the compiled C++",
           "CSem.mkDur (duration's converting constructor) and comparison operators of one-field value classes are modelled by hand",
           "translator conventions for the multi-field calendar types: the getters of an aggregate are its projections, "
           "month_day_last is its month (construction from a month and .month() are the identity), weekday_indexed / weekday_last are "
           "opaque tokens (w + 8*index / w, chosen by the driver) that the +/- months / years operators can only pass through (any "
           "other use is rejected by the translator); the harness compares every variant's surviving field with the one put in"]
SEARCH_CAP = 800000
# one theorem per generated operator (TetlProofs/C11/Ops.lean): `f args = Spec … ∧ f_ub args = true`
_OPS_T = ("year_month", "ymd", "ymdl", "ymw", "ymwl")


def _ops(dur):
    return ["Tetl.C11.Props.%s_eq" % n for t in _OPS_T for n in
            ("%s_plus_%s" % (t, dur), "%s_plus_%s" % (dur, t), "%s_minus_%s" % (t, dur), "%s_add_assign_%s" % (t, dur),
             "%s_sub_assign_%s" % (t, dur))]


OPS_MONTHS, OPS_YEARS = _ops("months"), _ops("years")
THEOREMS = {
    "civil": ["Tetl.C11.Props.round_trip", "Tetl.C11.Props.succ", "Tetl.C11.Props.anchor", "Tetl.C11.Props.civil_eq_range",
              "Tetl.C11.Props.civil_valid", "Tetl.C11.Props.civil_no_ub", "Tetl.C11.Props.gregorian_forward", "Tetl.C11.Props.gregorian_backward"],
    "days": ["Tetl.C11.Props.round_trip_inv", "Tetl.C11.Props.days_eq_counting"],
    "weekday": ["Tetl.C11.Props.weekday_eq", "Tetl.C11.Props.weekday_no_ub"],
    "ok": ["Tetl.C11.Props.ok_iff"], "is_leap": ["Tetl.C11.Props.is_leap_eq"], "last_day": ["Tetl.C11.Props.last_day_eq"],
    "month_diff": ["Tetl.C11.Props.month_diff_eq"],
    "month_plus": ["Tetl.C11.Props.month_plus_eq", "Tetl.C11.Props.month_plus_no_ub", "Tetl.C11.Props.months_plus_month_eq",
                   "Tetl.C11.Props.month_minus_eq", "Tetl.C11.Props.month_add_assign_eq", "Tetl.C11.Props.month_sub_assign_eq"],
    "ym_plus": ["Tetl.C11.Props.year_month_plus_eq", "Tetl.C11.Props.year_month_plus_no_ub"] + OPS_MONTHS,
    "year_plus": ["Tetl.C11.Props.year_plus_eq", "Tetl.C11.Props.year_plus_no_ub", "Tetl.C11.Props.year_minus_eq",
                  "Tetl.C11.Props.years_plus_year_eq", "Tetl.C11.Props.year_add_assign_eq", "Tetl.C11.Props.year_sub_assign_eq"] + OPS_YEARS,
    "wd_plus": ["Tetl.C11.Props.weekday_plus_eq"], "wd_minus": ["Tetl.C11.Props.weekday_minus_eq"],
    "wd_add_assign": ["Tetl.C11.Props.weekday_add_assign_eq"], "wd_sub_assign": ["Tetl.C11.Props.weekday_sub_assign_eq"],
    "wd_diff": ["Tetl.C11.Props.weekday_diff_eq"],
    "incdec": ["Tetl.C11.Props.month_plus_eq", "Tetl.C11.Props.weekday_plus_eq", "Tetl.C11.Props.weekday_minus_eq",
               "Tetl.C11.Props.weekday_iso_encoding_eq"],
    "ym_diff": ["Tetl.C11.Props.year_month_diff_eq", "Tetl.C11.Props.year_month_plus_diff", "Tetl.C11.Props.year_month_diff_plus"],
    "year_diff": ["Tetl.C11.Props.year_diff_eq"],
    "oks": ["Tetl.C11.Props.year_month_ok_eq", "Tetl.C11.Props.ymdl_ok_eq", "Tetl.C11.Props.month_day_last_ok_eq"],
}

LO, HI = -12687428, 11248737          # -32767-01-01 .. 32767-12-31


def regenerate(ctx):
    out = os.path.join(lib.LEAN, "Tetl", "C11", "Gen.lean")
    info = translate.translate(lib.REPO, out)
    res = {"generated_file": os.path.relpath(out, lib.VERIF), "hash": lib.file_hash(out), "changed": info["changed"],
           "functions": info["functions"], "translator": info["translator"]}
    if info["errors"]:
        res["error"] = "; ".join(info["errors"])
    return res


def days_from_civil(y, m, d):
    y -= m <= 2
    era = (y if y >= 0 else y - 399) // 400
    yoe = y - era * 400
    doy = (153 * (m - 3 if m > 2 else m + 9) + 2) // 5 + d - 1
    doe = yoe * 365 + yoe // 4 - yoe // 100 + doy
    return era * 146097 + doe - 719468


def generate(tier, seed):
    rnd = random.Random(seed)
    thorough = tier == "thorough"
    cases, dist = [], {}

    def add(line, tag):
        cases.append(Case(line, tag))
        dist[tag] = dist.get(tag, 0) + 1

    zs = set()
    for era in range(-83, 83):
        base = era * 146097 - 719468
        for off in (-2, -1, 0, 1, 2, 36523, 36524, 36525, 1459, 1460, 1461, 365, 366, 58, 59, 60, 146095, 146096):
            zs.add(base + off)
    ys = sorted(set([-32767, -32766, -1, 0, 1, 4, 100, 400, 1582, 1600, 1700, 1899, 1900, 1969, 1970, 1971, 1999, 2000, 2001,
                     2023, 2024, 2038, 2100, 2400, 9999, 32766, 32767] + [rnd.randint(-32767, 32767) for _ in range(40 if not thorough else 400)]))
    for y in ys:
        for (m, d) in ((1, 1), (2, 28), (3, 1), (12, 31), (2, 29)):
            if (m, d) == (2, 29) and not (y % 4 == 0 and (y % 100 != 0 or y % 400 == 0)):
                continue
            z = days_from_civil(y, m, d)
            for o in (-1, 0, 1):
                zs.add(z + o)
    for _ in range(400000 if thorough else 60000):
        zs.add(rnd.randint(LO, HI))
    for z in (LO, LO + 1, HI - 1, HI, 0, -1, 1, -4, -5, -3):
        zs.add(z)
    for z in sorted(zs):
        if LO <= z <= HI:
            add("civil z=%d" % z, "civil")
            add("weekday z=%d" % z, "weekday")
    # days_from_civil on valid dates
    ml = [31, 28, 31, 30, 31, 30, 31, 31, 30, 31, 30, 31]
    for y in ys:
        leap = y % 4 == 0 and (y % 100 != 0 or y % 400 == 0)
        for m in range(1, 13):
            n = ml[m - 1] + (1 if (m == 2 and leap) else 0)
            for d in range(1, n + 1):
                if not thorough and d not in (1, 2, 15, n - 1, n):
                    continue
                add("days y=%d m=%d d=%d" % (y, m, d), "days")
            add("last_day y=%d m=%d" % (y, m), "last_day")
    oky = [-32768, -32767, -400, -100, -4, -1, 0, 1, 4, 100, 400, 1900, 2000, 2023, 2024, 32767]
    for y in oky + ([rnd.randint(-32767, 32767) for _ in range(100)] if thorough else []):
        for m in range(0, 14):
            for d in range(0, 33):
                add("ok y=%d m=%d d=%d" % (y, m, d), "ok")
    for y in range(-32767, 32768):
        if thorough or y % 4 == 0 or y % 7 == 0 or abs(y) < 500:
            add("is_leap y=%d" % y, "is_leap")
    for m in range(1, 13):
        for k in list(range(-40, 41)) + [-1000, 1000, 12345, -12345, 2 ** 31 - 13, -(2 ** 31) + 13]:
            add("month_plus m=%d k=%d" % (m, k), "month_plus")
        for b in range(1, 13):
            add("month_diff a=%d b=%d" % (m, b), "month_diff")
    for y in (-32700, -1, 0, 1999, 2020, 32700):
        for m in range(1, 13):
            for k in list(range(-40, 41)) + [-600, 600]:
                add("ym_plus y=%d m=%d k=%d" % (y, m, k), "ym_plus")
    # +/- months with varying other fields: every generated variant (year_month, year_month_day, year_month_day_last,
    # year_month_weekday, year_month_weekday_last; x + d, d + x, x - (-d), +=, -=) is evaluated on each line.  Deltas
    # around the multiples of 12, and the largest deltas for which the resulting year is still a value of `year`
    # (|delta| up to 65535 years); day / weekday / index vary so that a dropped or rebuilt field shows.
    def fields():
        return (rnd.choice((0, 1, 28, 29, 30, 31, 32, 255, rnd.randint(1, 31))), rnd.choice((0, 1, 2, 3, 4, 5, 6, 6, 7)),
                rnd.choice((0, 1, 2, 3, 4, 5, 5, 6, 255)))

    byears = [-32767, -32766, -1, 0, 1, 1999, 2020, 32766, 32767]
    near12 = [-25, -24, -23, -13, -12, -11, -1, 0, 1, 11, 12, 13, 23, 24, 25]
    for y in byears + [rnd.randint(-32767, 32767) for _ in range(40 if thorough else 12)]:
        ks = set(rnd.sample(near12, 6))
        for target in (-32768, -32767, 32767, rnd.randint(-32767, 32767)):      # land in / next to the extreme years
            ks.add((target - y) * 12 + rnd.randint(-11, 11))
        for k in sorted(ks):
            m = rnd.randint(1, 12)
            if -32768 <= y + (m - 1 + k) // 12 <= 32767 and abs(k) < 2 ** 31 - 1:
                d, w, i = fields()
                add("ym_plus y=%d m=%d k=%d d=%d w=%d i=%d" % (y, m, k, d, w, i), "ym_plus")
    # +/- years: boundary years and the int32 extremes of the delta where the result is defined (none: |delta| <= 65535)
    for y in byears + [rnd.randint(-32767, 32767) for _ in range(30 if thorough else 10)]:
        ks = {-1, 0, 1, -32767 - y, -32768 - y, 32767 - y, rnd.randint(-32767, 32767) - y, rnd.randint(-400, 400)}
        for k in sorted(ks):
            if -32768 <= y + k <= 32767:
                d, w, i = fields()
                add("year_plus y=%d k=%d m=%d d=%d w=%d i=%d" % (y, k, rnd.randint(1, 12), d, w, i), "year_plus")
    # year_month - year_month: boundary years (the extreme difference 65534 years included), every month pair for a few
    for y1 in byears:
        for y2 in byears + [rnd.randint(-32767, 32767)]:
            for m1, m2 in ([(a, b) for a in range(1, 13) for b in range(1, 13)] if (y1, y2) in ((2020, 1999), (-32767, 32767), (0, 0))
                           else [(rnd.randint(1, 12), rnd.randint(1, 12)) for _ in range(3)]):
                add("ym_diff y1=%d m1=%d y2=%d m2=%d" % (y1, m1, y2, m2), "ym_diff")
    for z in sorted(zs):
        if LO + 40 <= z <= HI - 40 and (thorough or z % 3 == 0):
            add("ymw z=%d" % z, "ymw")
    for y in ys[:: (1 if thorough else 3)]:
        for m in range(1, 13):
            for w in range(0, 7):
                add("ymwl_days y=%d m=%d w=%d" % (y, m, w), "ymwl_days")
                for i in range(1, 6):
                    add("ymw_days y=%d m=%d w=%d i=%d" % (y, m, w, i), "ymw_days")
                # index 0, 6 and 7 are values a weekday_indexed holds ([time.cal.wdidx.members]: specified for [0, 7]); ok() is
                # false for them and the sys_days conversion is still defined ((index - 1) * 7 days after the first weekday)
                if y % 4 == 0 or thorough:
                    for i in (0, 6, 7):
                        add("ymw_days y=%d m=%d w=%d i=%d" % (y, m, w, i), "ymw_days")
    for y in (-32767, -32000, -401, -1, 0, 1, 1999, 2000, 2024, 32000, 32767):
        for k in (-64000, -500, -5, -1, 0, 1, 4, 5, 100, 400, 64000):
            if -32767 <= y + k <= 32767:
                add("year_plus y=%d k=%d" % (y, k), "year_plus")
        for b in (-32767, -1, 0, 1970, 32767):
            add("year_diff a=%d b=%d" % (y, b), "year_diff")
        if -32767 < y < 32767:
            add("incdec what=year v=%d" % y, "incdec")
    # stored values outside 1..12 / 0..6 are representable (month{13}, weekday{8}): ++/-- must still go through
    # `*this += months{1}` / `days{1}`, i.e. normalise ([time.cal.month.members], [time.cal.wd.members])
    for v in list(range(1, 13)) + [0, 13, 14, 24, 25, 255]:
        add("incdec what=month v=%d" % v, "incdec")
    for v in list(range(0, 7)) + [8, 13, 14, 255]:   # 7 is Sunday by construction
        add("incdec what=weekday v=%d" % v, "incdec")
    for v in range(1, 32):
        add("incdec what=day v=%d" % v, "incdec")
    for y in (-32768, -32767, 0, 2023, 2024, 32767):
        for m in range(0, 14):
            for d in (0, 1, 28, 29, 30, 31, 32):
                for w in (0, 3, 6, 7, 8):
                    for i in (0, 1, 5, 6):
                        if thorough or (y in (2023, -32768) or (d == 29 and w == 3)):
                            add("oks y=%d m=%d d=%d w=%d i=%d" % (y, m, d, w, i), "oks")
    for w in range(0, 7):
        for k in list(range(-20, 21)) + [-700, 700, 1000, -1000, 2 ** 31 - 8, -(2 ** 31) + 8]:
            for op in ("wd_plus", "wd_minus", "wd_add_assign", "wd_sub_assign"):
                if op in ("wd_minus", "wd_sub_assign") and abs(k) > 2 ** 30:
                    continue
                add("%s w=%d k=%d" % (op, w, k), op)
        for b in range(0, 7):
            add("wd_diff a=%d b=%d" % (w, b), "wd_diff")
    return cases, False, dist


def nontrivial(case, rows):
    return rows[0].spec not in ("0", "1970,1,1", "1")


def classify(case, k, row):
    return None


def group_of(case):
    return case.tag


CLAIMED = True
TECHNIQUE = "Lean 4 proof over a model regenerated from the clang AST on every run (translator) + finite kernel check of one 400-year era + correspondence run"
LEVEL_TEXT = ("The calendar kernels (civil_from_days, days_from_civil, weekday_from_days, month/year_month/weekday arithmetic, is_leap, "
              "last_day_of_month, ok) and the whole +/- months / +/- years operator family of year_month, year_month_day, "
              "year_month_day_last, year_month_weekday, year_month_weekday_last (every operand order, +=, -=; 50 functions), "
              "year_month - year_month, year - year, iso_encoding are translated from the clang AST of the current headers into Lean on every run; the theorems "
              "(round trip for every day, successor = Gregorian next-day for every day, no signed overflow on the supported range, "
              "modular month/weekday arithmetic with year carry; one theorem per +/- months / years operator: under the std "
              "precondition it returns (year/month + delta) with the month normalised into 1..12, the carry in the year and the "
              "day / weekday / index field unchanged, and its undefined-behaviour obligation holds) are re-checked by Lean's kernel against the regenerated definitions. "
              "The generated functions are also executed against the compiled C++ and std::chrono on ~2e5 inputs per run.")
LEVEL_NOTE = ("Trusted: Lean kernel + propext/Classical.choice/Quot.sound; gen/translate.py and clang-16's AST; g++-12; libstdc++ chrono "
              "as oracle for the spec. The in-era part of the bijection is a kernel-evaluated finite check over all 146097 days of "
              "an era (decide +kernel, complete domain) of hand-written Nat twins (TetlProofs/C11/EraDefs.lean) of the in-era "
              "formulas; bridge lemmas (Civil.lean) tie the twins to the generated Int definitions, and the proved era decomposition "
              "lifts the result to all days. For the multi-field calendar types the translator's conventions are trusted: getters "
              "are projections, month_day_last is its month, weekday_indexed / weekday_last are opaque tokens that can only be passed "
              "through; the correspondence run compares every variant (etl, std, generated model, spec) on each ym_plus / year_plus "
              "line with varying day / weekday / index. The -/-= operators need k != INT32_MIN (x - d is x + -d, in libstdc++ as in "
              "tetl). A regenerated body of a different shape breaks the bridge (reported as a broken obligation).")
CORRESPONDENCE_ONLY = ["year_month_weekday <-> sys_days, year_month_weekday::ok, year_month_weekday_last -> sys_days, "
                       "year_month_day_last -> sys_days (ops ymw, ymw_days, ymwl_days): implementation compared with the Lean "
                       "calendar spec and with std::chrono; no generated model / theorem yet",
                       "ok() of month_day, weekday_indexed, month_weekday, month_weekday_last (op oks; the ok() of year_month, "
                       "year_month_day_last, month_day_last on the same lines are generated and proved); ++/-- of day and year (op "
                       "incdec): compared with the spec and std::chrono only (++/-- of month and weekday run through the generated "
                       "month_plus / weekday_plus / weekday_minus; iso_encoding and year - year are generated and proved)"]
