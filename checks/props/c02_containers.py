"""C02 part 'containers' — boundary stream of VALID container histories (vec.* / set.* / bits.*).

Every case is a history whose first line is `<x>.new …`; the harness keeps the object on an exact-size heap
chunk over 0xAA poison (default- or value-initialised), every source range on an exact-size heap chunk,
and runs every library call under the allocation guard.  Only documented-valid operations are generated
(the python mirrors below follow Tetl.C01.valid / Tetl.C09.Spec.valid / the bitset preconditions).

  vec.*   static_vector<int,N> / inplace_vector<int,N>, N in 0,1,2,15,16,255,256
  set.*   static_set<int,N> / flat_set<int, static_vector<int,N>>, N in 0,1,2,15,16, less / greater
  bits.*  bitset<N>, N in 1,8,15,16,63,64,65,255,256

Known finding replayed on purpose: `vec.new ty=ipv cap=N init=default`, N != 0 (tag `vec.new/ipv-default`,
F-C01-inplace-vector-default-init): exactly one case per capacity, expected to show as R3.
"""
import random

from lib import Case, fmt_list

VEC_CAPS = [0, 1, 2, 15, 16, 255, 256]
SET_CAPS = [0, 1, 2, 15, 16]
BITS_N = [1, 8, 15, 16, 63, 64, 65, 255, 256]
INITS = ["value", "default"]
INT_MAX = 2147483647


# ------------------------------------------------------------------ vec.*
class VecSim:
    """mirror of the element list; every method appends the line only if the call is valid"""

    def __init__(self, ty, cap, init):
        self.ty, self.cap, self.d = ty, cap, []
        self.lines = ["vec.new ty=%s cap=%d init=%s" % (ty, cap, init)]

    @property
    def n(self):
        return len(self.d)

    def free(self):
        return self.cap - len(self.d)

    def push(self, x):
        assert self.n < self.cap
        self.d.append(x)
        self.lines.append("vec.push x=%d" % x)

    def pop(self):
        assert self.n > 0
        self.d.pop()
        self.lines.append("vec.pop")

    def insert(self, pos, x):
        assert self.n < self.cap and pos <= self.n
        self.d.insert(pos, x)
        self.lines.append("vec.insert pos=%d x=%d" % (pos, x))

    def insert_fill(self, pos, n, x):
        assert pos <= self.n and self.n + n <= self.cap
        self.d[pos:pos] = [x] * n
        self.lines.append("vec.insert_fill pos=%d n=%d x=%d" % (pos, n, x))

    def insert_range(self, pos, xs):
        assert pos <= self.n and self.n + len(xs) <= self.cap
        self.d[pos:pos] = list(xs)
        self.lines.append("vec.insert_range pos=%d xs=%s" % (pos, fmt_list(xs)))

    def erase(self, pos):
        assert pos < self.n
        del self.d[pos]
        self.lines.append("vec.erase pos=%d" % pos)

    def erase_range(self, f, l):
        assert f <= l <= self.n
        del self.d[f:l]
        self.lines.append("vec.erase_range f=%d l=%d" % (f, l))

    def resize(self, n):
        assert n <= self.cap
        self.d = self.d[:n] + [0] * (n - len(self.d))
        self.lines.append("vec.resize n=%d" % n)

    def assign_fill(self, n, x):
        assert n <= self.cap
        self.d = [x] * n
        self.lines.append("vec.assign_fill n=%d x=%d" % (n, x))

    def assign_range(self, xs):
        assert len(xs) <= self.cap
        self.d = list(xs)
        self.lines.append("vec.assign_range xs=%s" % fmt_list(xs))

    def clear(self):
        self.d = []
        self.lines.append("vec.clear")

    def dump(self):
        self.lines.append("vec.dump")

    # inplace_vector
    def try_push(self, x):
        if self.n < self.cap:
            self.d.append(x)
        self.lines.append("vec.try_push x=%d" % x)

    def unchecked_push(self, x):
        assert self.n < self.cap
        self.d.append(x)
        self.lines.append("vec.unchecked_push x=%d" % x)


def vals(k, base=1):
    return [base + i for i in range(k)]


def sv_empty_ops(v):
    """every member that is valid on an empty vector (for cap 0: an empty AND full vector)"""
    v.dump()
    v.clear()
    v.resize(0)
    v.assign_fill(0, 7)
    v.assign_range([])
    v.insert_fill(0, 0, 7)
    v.insert_range(0, [])
    v.erase_range(0, 0)
    v.dump()


def sv_full_ops(v):
    """`v` is full (size == cap >= 1): operate at size cap and cap-1"""
    cap = v.cap
    mid = cap // 2
    # zero-length insertions into a full vector, empty erase ranges at begin / middle / end
    for pos in sorted({0, mid, cap}):
        v.insert_fill(pos, 0, 9)
        v.insert_range(pos, [])
        v.erase_range(pos, pos)
    v.resize(cap)
    # one free slot: insert at begin / middle / end through the three overloads
    for pos_of in (lambda n: 0, lambda n: n // 2, lambda n: n):
        v.pop()
        v.insert(pos_of(v.n), 101)
        v.erase(0)
        v.insert_fill(pos_of(v.n), 1, 102)
        v.erase(v.n - 1)
        v.insert_range(pos_of(v.n), [103])
        v.erase(v.n // 2)
        v.push(104)
    # erase first / last / middle element, then refill
    v.erase(0)
    v.push(INT_MAX)
    v.erase(v.n - 1)
    v.insert(0, 0)
    # whole range, refill exactly
    v.erase_range(0, v.n)
    v.insert_range(0, vals(cap, 500))
    # resize down to 1 / 0 and up to cap
    v.resize(1)
    v.resize(cap)
    v.resize(0)
    v.resize(cap)
    if cap >= 2:
        v.resize(cap - 1)
        v.push(5)
        v.erase_range(1, cap)           # tail
        v.insert_fill(1, cap - 1, 6)    # exact fit in the middle of nothing / at the end
        v.erase_range(0, cap - 1)       # head
        v.insert_range(0, vals(cap - 1, 900))
        v.erase_range(1, cap - 1) if cap >= 3 else v.dump()
        v.assign_fill(cap, 3)
    v.assign_range(vals(cap, 20))
    v.assign_fill(1, 8)
    v.assign_fill(cap, 8)
    v.assign_range([])
    v.assign_range(vals(cap, 40))
    v.clear()
    v.dump()


def vec_scripted(dist, thorough):
    """thorough: every fill x both initialisations x every capacity; quick: the initialisation alternates with the
    fill (both are met at every capacity) and the element-by-element fills of the 255/256 vectors are done once"""
    cases = []

    def add(v, tag):
        cases.append(Case(v.lines, tag))
        dist[tag] = dist.get(tag, 0) + 1

    for cap in VEC_CAPS:
        for init in INITS:
            # ---- static_vector
            v = VecSim("sv", cap, init)
            sv_empty_ops(v)
            add(v, "vec.sv/empty")
            if cap >= 1:
                fills = [
                    ("push", lambda v: [v.push(10 + i) for i in range(v.cap)]),
                    ("insert_front", lambda v: [v.insert(0, 10 + i) for i in range(v.cap)]),
                    ("insert_fill", lambda v: v.insert_fill(0, v.cap, 11)),
                    ("resize", lambda v: v.resize(v.cap)),
                    ("assign_fill", lambda v: v.assign_fill(v.cap, 12)),
                    ("insert_range", lambda v: v.insert_range(0, vals(v.cap, 13))),
                    ("assign_range", lambda v: v.assign_range(vals(v.cap, 14))),
                    ("two_ranges", lambda v: (v.insert_range(0, vals(v.cap // 2, 15)),
                                               v.insert_range(v.n // 2, vals(v.cap - v.n, 70)))),
                ]
                for fi, (name, fill) in enumerate(fills):
                    if name == "insert_front" and cap > 16 and (init == "default" or not thorough):
                        continue
                    if not thorough and (fi % 2 == 0) != (init == "default"):
                        continue
                    v = VecSim("sv", cap, init)
                    fill(v)
                    assert v.n == cap
                    sv_full_ops(v)
                    add(v, "vec.sv/fill-" + name)
                # size 1 in a big vector, pop to empty
                skip_pop = not thorough and cap > 16 and (cap == 255 or init == "default")
                v = VecSim("sv", cap, init)
                v.push(1)
                v.erase(0)
                v.insert(0, 2)
                v.pop()
                v.insert_fill(0, 1, 3)
                v.erase_range(0, 1)
                v.insert_range(0, [4])
                v.resize(0)
                v.assign_fill(cap, 5)
                while v.n:
                    v.pop()
                sv_empty_ops(v)
                if not skip_pop:
                    add(v, "vec.sv/pop-to-empty")
            # ---- inplace_vector (try_push / unchecked_push / pop / clear)
            if init == "default" and cap != 0:
                v = VecSim("ipv", cap, init)
                v.dump()
                v.try_push(1)
                add(v, "vec.new/ipv-default")
                continue
            v = VecSim("ipv", cap, init)
            v.dump()
            v.clear()
            v.try_push(1)                 # cap 0: null
            if cap >= 1:
                v.pop()
                for i in range(cap):
                    v.unchecked_push(30 + i)
                v.try_push(99)            # full: null
                v.try_push(98)
                v.dump()
                v.pop()
                v.try_push(97)            # one free slot
                v.pop()
                v.unchecked_push(INT_MAX)
                v.try_push(96)
                while v.n and (thorough or cap != 255):
                    v.pop()
                v.clear()
                v.dump()
                if thorough or cap <= 16:
                    for i in range(cap):
                        v.try_push(60 + i)
                    v.try_push(95)
                v.clear()
                v.unchecked_push(1)
            v.clear()
            v.dump()
            add(v, "vec.ipv/boundary")
    return cases


def vec_random(rnd, count, dist):
    cases = []
    for _ in range(count):
        ty = rnd.choice(["sv", "sv", "ipv"])
        cap = rnd.choice(VEC_CAPS)
        init = rnd.choice(INITS)
        if ty == "ipv" and cap != 0:
            init = "value"
        v = VecSim(ty, cap, init)
        rx = lambda: rnd.choice([0, 1, 7, 1000, INT_MAX, rnd.randint(0, 99)])
        target = 1 + rnd.randint(5, 30)
        guard = 0
        while len(v.lines) < target and guard < 400:
            guard += 1
            n, fr = v.n, v.free()
            if ty == "ipv":
                op = rnd.choice(["try_push", "try_push", "unchecked_push", "unchecked_push", "pop", "clear", "dump"])
                if op == "try_push":
                    v.try_push(rx())
                elif op == "unchecked_push" and fr > 0:
                    v.unchecked_push(rx())
                elif op == "pop" and n > 0:
                    v.pop()
                elif op == "clear" and rnd.random() < 0.3:
                    v.clear()
                elif op == "dump":
                    v.dump()
                continue
            op = rnd.choice(["push", "push", "pop", "insert", "insert", "insert_fill", "insert_range", "erase", "erase",
                             "erase_range", "resize", "assign_fill", "assign_range", "clear", "dump", "fill_up"])
            # bias towards the capacity boundary
            big = lambda k: k if rnd.random() < 0.5 else rnd.randint(0, k)
            if op == "push" and fr > 0:
                v.push(rx())
            elif op == "pop" and n > 0:
                v.pop()
            elif op == "insert" and fr > 0:
                v.insert(rnd.choice([0, n, rnd.randint(0, n)]), rx())
            elif op == "insert_fill":
                v.insert_fill(rnd.choice([0, n, rnd.randint(0, n)]), big(fr), rx())
            elif op == "insert_range":
                v.insert_range(rnd.choice([0, n, rnd.randint(0, n)]), [rx() for _ in range(big(fr))])
            elif op == "erase" and n > 0:
                v.erase(rnd.choice([0, n - 1, rnd.randint(0, n - 1)]))
            elif op == "erase_range":
                f = rnd.choice([0, n, rnd.randint(0, n)])
                v.erase_range(f, rnd.choice([f, n, rnd.randint(f, n)]))
            elif op == "resize":
                v.resize(rnd.choice([0, cap, max(cap - 1, 0), min(1, cap), rnd.randint(0, cap)]))
            elif op == "assign_fill":
                v.assign_fill(rnd.choice([0, cap, rnd.randint(0, cap)]), rx())
            elif op == "assign_range":
                v.assign_range([rx() for _ in range(rnd.choice([0, cap, rnd.randint(0, cap)]))])
            elif op == "clear" and rnd.random() < 0.3:
                v.clear()
            elif op == "fill_up":
                v.insert_fill(n, fr, rx())
            elif op == "dump":
                v.dump()
        tag = "vec.%s/random" % ty
        cases.append(Case(v.lines, tag))
        dist[tag] = dist.get(tag, 0) + 1
    return cases


# ------------------------------------------------------------------ set.*
class SetSim:
    def __init__(self, kind, cap, init, cmp):
        self.kind, self.cap, self.cmp, self.s = kind, cap, cmp, set()
        self.lines = ["set.new kind=%s cap=%d init=%s cmp=%s" % (kind, cap, init, cmp)]

    @property
    def n(self):
        return len(self.s)

    def order(self):
        return sorted(self.s, reverse=(self.cmp == "greater"))

    def insert(self, k):
        if k in self.s or len(self.s) < self.cap:
            self.s.add(k)
        self.lines.append("set.insert k=%d" % k)

    def insert_range(self, ks):
        for k in ks:
            if k in self.s or len(self.s) < self.cap:
                self.s.add(k)
        self.lines.append("set.insert_range ks=%s" % fmt_list(ks))

    def erase(self, k):
        self.s.discard(k)
        self.lines.append("set.erase k=%d" % k)

    def erase_range(self, f, la):
        assert f <= la <= self.n
        o = self.order()
        self.s = set(o[:f] + o[la:])
        self.lines.append("set.erase_range first=%d last=%d" % (f, la))

    def clear(self):
        self.s = set()
        self.lines.append("set.clear")

    def q(self, op, k):
        self.lines.append("set.%s k=%d" % (op, k))

    def queries(self, k):
        for op in ("contains", "find", "lower_bound", "upper_bound"):
            self.q(op, k)

    def dump(self):
        self.lines.append("set.dump")


def set_boundary(s):
    """keys 10,20,..: room for absent keys below, between and above"""
    cap = s.cap
    keys = [10 * (i + 1) for i in range(cap)]
    probe = sorted({0, 5, 10, 15, 10 * cap - 5, 10 * cap, 10 * cap + 5, 10 * ((cap + 1) // 2), INT_MAX})
    # empty set
    s.dump()
    for k in (0, 10, INT_MAX):
        s.queries(k)
    s.erase(10)
    s.erase_range(0, 0)
    s.insert_range([])
    s.clear()
    if cap == 0:
        s.insert(10)              # a new key into a full (and empty) set
        s.insert_range([3, 1, 2])
        s.dump()
        return
    # fill to capacity in an order that moves elements
    order = keys[::2] + keys[1::2][::-1]
    for k in order:
        s.insert(k)
    assert s.n == cap
    for k in probe:
        s.queries(k)
    # full: present keys, new keys
    for k in sorted({keys[0], keys[cap // 2], keys[-1]}):
        s.insert(k)
    for k in (5, 10 * cap + 5, 10 * (cap // 2) + 5, 0, INT_MAX):
        s.insert(k)
    s.insert_range([5, keys[0], 10 * cap + 5, keys[-1], 7])     # nothing fits, two present
    s.erase(5)                    # absent
    s.erase(10 * cap + 5)
    s.erase_range(0, 0)
    s.erase_range(cap, cap)
    s.erase_range(cap // 2, cap // 2)
    # one free slot: new key at front / back / middle
    for newk, victim in ((1, keys[0]), (10 * cap + 1, keys[-1]), (10 * (cap // 2) + 1, keys[cap // 2])):
        s.erase(victim)
        s.insert(newk)
        s.queries(newk)
        s.erase(newk)
        s.insert(victim)
    # first / last element by range, tail, head, whole
    s.erase_range(0, 1)
    s.insert(keys[0] if s.cmp == "less" else keys[-1])
    s.erase_range(cap - 1, cap)
    s.insert_range(keys)          # exactly one missing key fits
    assert s.n == cap
    if cap >= 2:
        s.erase_range(1, cap)
        s.insert_range(keys[::-1])
        s.erase_range(0, cap - 1)
        s.insert_range(keys + keys)   # duplicates in the source
        assert s.n == cap
    s.erase_range(0, cap)
    for k in probe[:3]:
        s.queries(k)
    s.insert_range(keys)          # exact fit into an empty set
    s.insert_range(keys + [1, 2, 3])   # overflowing source on a full set
    while s.n:                    # erase by key down to empty
        s.erase(s.order()[s.n // 2])
    s.insert_range([3, 1, 2, 1, 3] * 4 + keys)   # more new keys than room
    s.clear()
    s.dump()


def set_scripted(dist, thorough):
    """thorough: kind x capacity x initialisation x comparator; quick: less with value-, greater with default-initialisation
    for static_set and the other way round for flat_set"""
    cases = []
    for kind in ("ss", "fs"):
        for cap in SET_CAPS:
            for init in INITS:
                for cmp in ("less", "greater"):
                    if not thorough and ((init == "value") == (cmp == "less")) != (kind == "ss"):
                        continue
                    s = SetSim(kind, cap, init, cmp)
                    set_boundary(s)
                    tag = "set.%s/boundary" % kind
                    cases.append(Case(s.lines, tag))
                    dist[tag] = dist.get(tag, 0) + 1
    return cases


def set_random(rnd, count, dist):
    cases = []
    for _ in range(count):
        kind = rnd.choice(["ss", "fs"])
        cap = rnd.choice(SET_CAPS)
        s = SetSim(kind, cap, rnd.choice(INITS), rnd.choice(["less", "greater"]))
        uni = list(range(0, cap + 3)) + [INT_MAX]
        rk = lambda: rnd.choice(uni)
        for _ in range(rnd.randint(5, 30)):
            r = rnd.random()
            n = s.n
            if r < 0.35:
                s.insert(rk())
            elif r < 0.5:
                s.erase(rk())
            elif r < 0.6:
                f = rnd.choice([0, n, rnd.randint(0, n)])
                s.erase_range(f, rnd.choice([f, n, rnd.randint(f, n)]))
            elif r < 0.7:
                s.insert_range([rk() for _ in range(rnd.choice([0, 1, cap, cap + 2, rnd.randint(0, cap + 2)]))])
            elif r < 0.73:
                s.clear()
            elif r < 0.76:
                s.dump()
            else:
                s.q(rnd.choice(["contains", "find", "lower_bound", "upper_bound"]), rk())
        tag = "set.%s/random" % kind
        cases.append(Case(s.lines, tag))
        dist[tag] = dist.get(tag, 0) + 1
    return cases


# ------------------------------------------------------------------ bits.*
def bits_positions(n, every=True):
    if n <= (16 if every else 8):
        return list(range(n))
    c = {0, 1, 7, 8, n - 2, n - 1, 62, 63, 64, 65, 126, 127, 128, 129, 190, 191, 192, 193, 254, 255}
    return sorted(p for p in c if 0 <= p < n)


def bits_observe(L):
    L += ["bits.count", "bits.any", "bits.all", "bits.none"]


def from_str_line(s, pos, n, z=None, o=None):
    ln = "bits.from_str s=%s pos=%d n=%s" % (fmt_list(s), pos, n)
    if z is not None:
        ln += " zero=%d one=%d" % (z, o)
    return ln


def bits_scripted(rnd, dist, thorough):
    cases = []

    def add(lines, tag):
        cases.append(Case(lines, tag))
        dist[tag] = dist.get(tag, 0) + 1

    for ni, n in enumerate(BITS_N):
        P = bits_positions(n, thorough)
        for ii, init in enumerate(INITS):
            new = "bits.new N=%d init=%s" % (n, init)
            alt = (ni + ii) % 2 == 0       # quick: the long scripts alternate between the two initialisations
            # a fresh object: every observer, every boundary position
            L = [new]
            bits_observe(L)
            L += ["bits.test pos=%d" % p for p in P]
            L.append("bits.to_string")
            add(L, "bits/fresh")
            # single-bit members at the boundary positions, on a zero and on a full bitset
            for si, start in enumerate(("bits.reset_all", "bits.set_all")):
                if not thorough and (si == 0) != alt:
                    continue
                L = [new, start]
                for p in P:
                    L += ["bits.set pos=%d v=1" % p, "bits.test pos=%d" % p, "bits.flip pos=%d" % p, "bits.test pos=%d" % p,
                          "bits.set pos=%d v=0" % p, "bits.flip pos=%d" % p, "bits.reset pos=%d" % p, "bits.set pos=%d v=1" % p]
                    if p in (0, n - 1, 63, 64):
                        bits_observe(L)
                L.append("bits.to_string zero=45 one=88")
                add(L, "bits/single")
            # whole-set members: padding bits must stay clear
            L = [new, "bits.set_all"]
            bits_observe(L)
            L += ["bits.to_string", "bits.flip_all"]
            bits_observe(L)
            L += ["bits.flip_all", "bits.count", "bits.all", "bits.reset pos=%d" % (n - 1), "bits.all", "bits.flip_all", "bits.count",
                  "bits.any", "bits.flip_all", "bits.set pos=%d v=1" % (n - 1), "bits.all", "bits.reset_all"]
            bits_observe(L)
            L += ["bits.flip pos=0", "bits.flip_all", "bits.to_string zero=48 one=49", "bits.reset_all", "bits.flip_all", "bits.all"]
            add(L, "bits/whole")
            # string constructor: lengths 0, 1, N-1, N, N+1 (longer than the bitset), every pos/n boundary
            if not thorough and not alt:
                continue
            L = [new]
            for ln_ in sorted({0, 1, max(n - 1, 0), n, n + 1} | ({n + 7} if thorough else set())):
                for (z, o) in ((None, None), (65, 66)):
                    if z is not None and not thorough and ln_ < n:
                        continue
                    zz, oo = (48, 49) if z is None else (z, o)
                    s = [rnd.choice([zz, oo]) for _ in range(ln_)]
                    if ln_:
                        s[0] = oo
                        s[-1] = oo
                    for pos in sorted({0, min(1, ln_), ln_ // 2, max(ln_ - 1, 0), ln_}):
                        for cnt in sorted({0, 1, ln_ - pos, ln_ - pos + 1, n}) + ["npos"]:
                            if z is not None and cnt not in (0, "npos", ln_ - pos):
                                continue
                            L.append(from_str_line(s, pos, cnt, z, o))
                    L += ["bits.count", "bits.to_string"]
            L.append("bits.flip_all")
            add(L, "bits/from_str")
    return cases


def bits_random(rnd, count, dist):
    cases = []
    for _ in range(count):
        n = rnd.choice(BITS_N)
        P = bits_positions(n)
        rp = lambda: rnd.choice(P) if rnd.random() < 0.6 else rnd.randint(0, n - 1)
        L = ["bits.new N=%d init=%s" % (n, rnd.choice(INITS))]
        for _ in range(rnd.randint(5, 30)):
            r = rnd.random()
            if r < 0.2:
                L.append("bits.set pos=%d v=%d" % (rp(), rnd.randint(0, 1)))
            elif r < 0.3:
                L.append("bits.reset pos=%d" % rp())
            elif r < 0.42:
                L.append("bits.flip pos=%d" % rp())
            elif r < 0.55:
                L.append("bits.test pos=%d" % rp())
            elif r < 0.67:
                L.append(rnd.choice(["bits.set_all", "bits.reset_all", "bits.flip_all", "bits.flip_all"]))
            elif r < 0.8:
                L.append(rnd.choice(["bits.count", "bits.any", "bits.all", "bits.none"]))
            elif r < 0.9:
                z, o = rnd.choice([(None, None), (48, 49), (97, 98), (49, 48)])
                zz, oo = (48, 49) if z is None else (z, o)
                ln_ = rnd.choice([0, 1, n - 1, n, n + 1, rnd.randint(0, n + 8)])
                s = [rnd.choice([zz, oo]) for _ in range(ln_)]
                pos = rnd.choice([0, ln_, rnd.randint(0, ln_)])
                cnt = rnd.choice(["npos", 0, ln_ - pos, n, rnd.randint(0, ln_ + 2)])
                L.append(from_str_line(s, pos, cnt, z, o))
            else:
                L.append(rnd.choice(["bits.to_string", "bits.to_string zero=46 one=35"]))
        cases.append(Case(L, "bits/random"))
        dist["bits/random"] = dist.get("bits/random", 0) + 1
    return cases


# ------------------------------------------------------------------ entry points
def generate(tier, seed):
    rnd = random.Random(seed)
    thorough = tier == "thorough"
    dist = {}
    cases = []
    cases += vec_scripted(dist, thorough)
    cases += set_scripted(dist, thorough)
    cases += bits_scripted(rnd, dist, thorough)
    cases += vec_random(rnd, 1600 if thorough else 40, dist)
    cases += set_random(rnd, 800 if thorough else 40, dist)
    cases += bits_random(rnd, 600 if thorough else 30, dist)
    return cases, dist


def nontrivial(case, rows):
    """some line after `new` was executed (not refused as invalid, not skipped after an abort)"""
    return any(r.impl not in ("invalid", "skipped", "bad-op") and not r.impl.startswith("ub(") for r in rows[1:])
