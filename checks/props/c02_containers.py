"""C02 part 'containers' — stub."""
from lib import Case


def generate(tier, seed):
    return [], {}


def nontrivial(case, rows):
    return False
