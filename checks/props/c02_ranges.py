"""C02 part 'ranges' — stub."""
from lib import Case


def generate(tier, seed):
    return [], {}


def nontrivial(case, rows):
    return False
