"""C02 part 'ranges' — the boundary stream for `alg.*` (C06 algorithms) and `span.*` (C19 span / mdspan).

alg.*: the case lines of checks/props/c06.py with the prefix `alg.` (elements 100*key + tag, `a=[..] f= l=` storage and
range, `b=[..]` second range, `m=` middle, `d=` destination, `n=` count, `v= w=` values, `p=` predicate mask, `cmp= eq=`,
`it=` iterator kind, `ov=` overload).  Every range is generated in two placements: BARE (f = 0, l = len: the range is the
whole exact-size heap chunk, so one-before / one-past accesses are ASan errors; len = 0 is a zero-size chunk) and IN CONTEXT
(one key-7 element on each side: such accesses are model errors and context writes are visible).  Only valid calls: sorted /
partitioned inputs where the standard requires them, counts inside the range, non-overlap rules of copy / copy_backward,
room in the second range for the three-iterator overloads, clamp with !(hi < lo).

span.*: see gen_span.
"""
import itertools
import random
import re

from lib import Case, fmt_list

CMPS = ["dflt", "less", "greater", "mod3"]
EQS = ["dflt", "eq", "eqmod"]
IN = ["ptr", "in"]
FWD = ["ptr", "fwd"]
BIDI = ["ptr", "bidi"]


def key(e):
    return e // 100


def lt(cmp, x, y):
    if cmp == "greater":
        return key(x) > key(y)
    if cmp == "mod3":
        return key(x) % 3 < key(y) % 3
    return key(x) < key(y)


def is_sorted(cmp, r):
    return all(not lt(cmp, r[i + 1], r[i]) for i in range(len(r) - 1))


def pred(mask, e):
    return (mask >> key(e)) & 1 == 1


def sort_key(cmp):
    return lambda k: (-k if cmp == "greater" else k % 3 if cmp == "mod3" else k)


def tagged(keys, base=0):
    return [100 * k + base + i for i, k in enumerate(keys)]


def placements(r):
    """(a, f, l): bare (the whole chunk) and between two context elements"""
    return [(list(r), 0, len(r)), ([700] + list(r) + [701], 1, 1 + len(r))]


class Gen:
    def __init__(self, seed):
        self.cases = []
        self.dist = {}
        self.rnd = random.Random(seed)
        self.k = 0
        self.seen = set()

    def line(self, line, tag):
        if line in self.seen:
            return
        self.seen.add(line)
        self.cases.append(Case(line, tag))
        self.dist[tag] = self.dist.get(tag, 0) + 1

    def add(self, op, a, f, l, extra="", kinds=None, tag=None):
        line = "alg.%s a=%s f=%d l=%d" % (op, fmt_list(a), f, l)
        if extra:
            line += " " + extra
        if kinds:
            self.k += 1
            line += " it=" + kinds[self.k % len(kinds)]
        self.line(line, "alg." + (tag or op))


# ------------------------------------------------------------------------------------------------ alg: one range

def gen_for_range(g, r, a, f, l, masks, vals, cmps, eqs):
    n = len(r)
    for p in masks:
        e = "p=%d" % p
        for op in ("find_if", "find_if_not", "all_of", "any_of", "none_of", "count_if", "is_partitioned"):
            g.add(op, a, f, l, e, IN)
        for op in ("copy_if", "remove_copy_if", "partition_copy"):
            g.add(op, a, f, l, e, IN)
        for op in ("remove_if", "partition"):
            g.add(op, a, f, l, e, FWD)
        g.add("stable_partition", a, f, l, e)
        g.add("replace_if", a, f, l, e + " w=%d" % vals[0], FWD)
        flags = [pred(p, x) for x in r]
        if all(flags[i] or not flags[i + 1] for i in range(n - 1)):
            g.add("partition_point", a, f, l, e, FWD)
    for v in vals:
        e = "v=%d" % v
        for op in ("find", "count", "remove_copy"):
            g.add(op, a, f, l, e, IN)
        for op in ("remove", "fill"):
            g.add(op, a, f, l, e, FWD)
        g.add("replace", a, f, l, e + " w=%d" % vals[-1], FWD)
        for cnt in sorted({-1, 0, 1, n - 1, n} & set(range(-1, n + 1))):
            g.add("fill_n", a, f, l, e + " n=%d" % cnt, FWD)
        for eq in eqs:
            for cnt in sorted({-1, 0, 1, 2, n, n + 1}):
                g.add("search_n", a, f, l, "%s n=%d eq=%s" % (e, cnt, eq), FWD)
        for cmp in cmps:
            if is_sorted(cmp, r):
                for op in ("lower_bound", "upper_bound", "equal_range", "binary_search"):
                    g.add(op, a, f, l, "%s cmp=%s" % (e, cmp), FWD)
    for cmp in cmps:
        e = "cmp=" + cmp
        for op in ("is_sorted", "is_sorted_until", "min_element", "max_element", "minmax_element"):
            g.add(op, a, f, l, e, FWD)
        for op in ("sort", "bubble_sort", "exchange_sort", "stable_sort", "insertion_sort", "merge_sort"):
            g.add(op, a, f, l, e)
        g.add("gnome_sort", a, f, l, e, BIDI)
        for m in range(f, l + 1):
            g.add("nth_element", a, f, l, "m=%d %s" % (m, e))
            g.add("partial_sort", a, f, l, "m=%d %s" % (m, e))
            if is_sorted(cmp, r[: m - f]) and is_sorted(cmp, r[m - f:]):
                g.add("inplace_merge", a, f, l, "m=%d %s" % (m, e))
    for eq in eqs:
        e = "eq=" + eq
        g.add("adjacent_find", a, f, l, e, FWD)
        g.add("unique", a, f, l, e, FWD)
        g.add("unique_copy", a, f, l, e, BIDI)
    for m in range(f, l + 1):
        g.add("rotate", a, f, l, "m=%d" % m, FWD)
        g.add("rotate_copy", a, f, l, "m=%d" % m, FWD)
    for it in BIDI:
        g.add("reverse", a, f, l, "it=" + it)
    g.add("reverse_copy", a, f, l, "", BIDI)
    g.add("for_each", a, f, l, "", IN)
    g.add("transform", a, f, l, "", IN)
    g.add("generate", a, f, l, "", FWD)
    for cnt in sorted({-1, 0, 1, n - 1, n} & set(range(-1, n + 1))):
        g.add("copy_n", a, f, l, "n=%d" % cnt, IN)
        g.add("generate_n", a, f, l, "n=%d" % cnt, FWD)
        if cnt >= 0:
            g.add("for_each_n", a, f, l, "n=%d" % cnt, IN)
    for cnt in sorted({0, 1, n - 1, n, n + 1} & set(range(0, n + 2))):
        for it in FWD:
            g.add("shift_left", a, f, l, "n=%d it=%s" % (cnt, it))
        for it in BIDI:
            g.add("shift_right", a, f, l, "n=%d it=%s" % (cnt, it))


def gen_two_ranges(g, r, b, a, f, l, cmps, eqs):
    n = len(r)
    bs = "b=" + fmt_list(b)
    for eq in eqs:
        e = "%s eq=%s" % (bs, eq)
        g.add("search", a, f, l, e, FWD)
        g.add("find_end", a, f, l, e, FWD)
        g.add("find_first_of", a, f, l, e, IN)
        g.add("mismatch", a, f, l, e + " ov=4", IN)
        for it in ("ptr", "in"):
            g.add("equal", a, f, l, e + " ov=4 it=" + it)
        if len(b) >= n:
            g.add("mismatch", a, f, l, e + " ov=3", IN)
            g.add("equal", a, f, l, e + " ov=3", IN)
    for it in ("ptr", "fwd"):
        g.add("is_permutation", a, f, l, bs + " ov=4 it=" + it)
    if len(b) >= n:
        g.add("is_permutation", a, f, l, bs + " ov=3", FWD)
        g.add("swap_ranges", a, f, l, bs, FWD)
        g.add("transform2", a, f, l, bs, IN)
    for cmp in cmps:
        e = "%s cmp=%s" % (bs, cmp)
        g.add("lexicographical_compare", a, f, l, e, IN)
        if is_sorted(cmp, r) and is_sorted(cmp, b):
            for op in ("includes", "merge", "set_difference", "set_intersection", "set_symmetric_difference", "set_union"):
                g.add(op, a, f, l, e, IN)


def gen_copies(g, maxlen):
    """copy / move / copy_backward / move_backward inside one exact chunk: every (f, l, d) the non-overlap rules allow,
    incl. the destination that ends exactly at the end of the chunk and the one that starts at its beginning"""
    for n in range(maxlen + 1):
        a = [100 * (i % 7) + i for i in range(n)]
        for f in range(n + 1):
            for l in range(f, n + 1):
                k = l - f
                for d in range(0, n - k + 1):
                    if not (f <= d < l) or k == 0:
                        g.add("copy", a, f, l, "d=%d" % d, IN)
                        g.add("move", a, f, l, "d=%d" % d, IN)
                for dl in range(k, n + 1):
                    if not (f < dl <= l) or k == 0:
                        g.add("copy_backward", a, f, l, "d=%d" % dl, BIDI)
                        g.add("move_backward", a, f, l, "d=%d" % dl, BIDI)
        # whole chunk into a separate exact-fit chunk
        g.add("copyx", a, 0, n, "b=" + fmt_list([900 + i for i in range(n)]), IN)


def gen_minmax(g, thorough):
    es = [100 * k + t for k in range(3 if not thorough else 4) for t in range(2)]
    for cmp in CMPS if thorough else ("dflt", "mod3"):
        for x in es:
            for y in es:
                for op in ("min", "max", "minmax"):
                    g.add(op, [], 0, 0, "v=%d w=%d cmp=%s" % (x, y, cmp))
                for hi in es[::2]:
                    if not lt(cmp, hi, y):   # precondition of clamp: !(hi < lo)
                        for v in (es[0], es[-1]):
                            g.add("clamp", [], 0, 0, "v=%d lo=%d hi=%d cmp=%s" % (v, y, hi, cmp))


def gen_numeric(g, maxlen, thorough):
    alpha = [-2, 0, 3] if not thorough else [-2, 0, 1, 3]
    kinds = ["ptr", "in", "fwd"]
    for n in range(maxlen + 1):
        for t in itertools.product(alpha, repeat=n):
            r = list(t)
            if not thorough and n >= 3 and sum(1 for x in r if x == 0) > 1:
                continue
            for a, f, l in ((r, 0, n), ([7] + r + [9], 1, 1 + n)):
                for op in ("dflt", "minus", "mul2"):
                    g.add("accumulate", a, f, l, "init=5 op=%s" % op, kinds)
                    g.add("reduce", a, f, l, "init=5 op=%s" % op, kinds)
                    g.add("transform_reduce1", a, f, l, "init=5 op=%s" % op, kinds)
                    g.add("partial_sum", a, f, l, "op=" + op, kinds)
                    g.add("adjacent_difference", a, f, l, "op=" + op, kinds)
                g.add("reduce", a, f, l, "ov=noinit", kinds)
                g.add("iota", a, f, l, "v=%d" % (n - 2), FWD)
                for extra in ([], [4]):      # second range: exact fit, one longer
                    b = [alpha[(i + 1) % len(alpha)] for i in range(n)] + extra
                    for op in ("dflt", "minus"):
                        g.add("inner_product", a, f, l, "b=%s init=3 op=%s" % (fmt_list(b), op), kinds)
                        g.add("transform_reduce", a, f, l, "b=%s init=3 op=%s" % (fmt_list(b), op), kinds)


def gen_random(g, count):
    rnd = g.rnd
    ops1 = ["rotate", "reverse", "remove_if", "unique", "partition", "stable_partition", "sort", "stable_sort", "merge_sort",
            "gnome_sort", "nth_element", "partial_sort", "inplace_merge", "shift_left", "shift_right", "search_n",
            "lower_bound", "upper_bound", "equal_range", "minmax_element", "is_sorted_until", "adjacent_find", "unique_copy",
            "rotate_copy", "copy_if", "remove_copy_if", "find_if", "partition_copy", "fill_n", "copy_n", "reverse_copy",
            "bubble_sort", "exchange_sort", "insertion_sort", "remove"]
    ops2 = ["search", "find_end", "find_first_of", "mismatch", "equal", "is_permutation", "lexicographical_compare",
            "merge", "set_union", "set_difference", "set_intersection", "set_symmetric_difference", "includes", "swap_ranges"]
    ra_only = ("stable_partition", "sort", "stable_sort", "merge_sort", "nth_element", "partial_sort", "inplace_merge",
               "bubble_sort", "exchange_sort", "insertion_sort")
    for _ in range(count):
        nkeys = rnd.choice([2, 3, 4])
        n = rnd.randint(0, 12)
        ks = [rnd.randrange(nkeys) for _ in range(n)]
        cmp = rnd.choice(CMPS)
        eq = rnd.choice(EQS)
        bare = rnd.random() < 0.5
        if rnd.random() < 0.6:
            op = rnd.choice(ops1)
            if op in ("lower_bound", "upper_bound", "equal_range"):
                ks.sort(key=sort_key(cmp))
            m = rnd.randint(0, n)
            if op == "inplace_merge":
                ks = sorted(ks[:m], key=sort_key(cmp)) + sorted(ks[m:], key=sort_key(cmp))
            r = tagged(ks)
            a, f, l = (r, 0, n) if bare else ([700] + r + [701], 1, 1 + n)
            vv = 100 * rnd.randrange(nkeys) + 99
            extra = {"rotate": "m=%d" % (f + m), "rotate_copy": "m=%d" % (f + m), "nth_element": "m=%d cmp=%s" % (f + m, cmp),
                     "partial_sort": "m=%d cmp=%s" % (f + m, cmp), "inplace_merge": "m=%d cmp=%s" % (f + m, cmp),
                     "shift_left": "n=%d" % rnd.choice([0, 1, n, n + 1, rnd.randint(0, n + 1)]),
                     "shift_right": "n=%d" % rnd.choice([0, 1, n, n + 1, rnd.randint(0, n + 1)]),
                     "fill_n": "v=%d n=%d" % (vv, rnd.choice([0, n, rnd.randint(0, n)])),
                     "copy_n": "n=%d" % rnd.choice([0, n, rnd.randint(0, n)]),
                     "remove": "v=%d" % vv, "reverse_copy": "",
                     "search_n": "n=%d v=%d eq=%s" % (rnd.randint(0, 4), vv, eq)}.get(op)
            if extra is None:
                if op in ("remove_if", "partition", "stable_partition", "copy_if", "remove_copy_if", "find_if", "partition_copy"):
                    extra = "p=%d" % rnd.randrange(1 << nkeys)
                elif op in ("unique", "adjacent_find", "unique_copy"):
                    extra = "eq=" + eq
                elif op in ("lower_bound", "upper_bound", "equal_range"):
                    extra = "v=%d cmp=%s" % (vv, cmp)
                elif op == "reverse":
                    extra = ""
                else:
                    extra = "cmp=" + cmp
            kinds = {"reverse": BIDI, "shift_right": BIDI, "gnome_sort": BIDI, "unique_copy": BIDI, "reverse_copy": BIDI,
                     "copy_if": IN, "remove_copy_if": IN, "find_if": IN, "partition_copy": IN, "copy_n": IN}.get(op)
            if kinds is None and op not in ra_only:
                kinds = FWD
            g.add(op, a, f, l, extra, kinds, tag=op + "/rand")
        else:
            op = rnd.choice(ops2)
            bn = rnd.randint(0, 5)
            if rnd.random() < 0.5 and n > 0:
                s = rnd.randrange(n)
                kb = ks[s:s + bn]
            else:
                kb = [rnd.randrange(nkeys) for _ in range(bn)]
            if op in ("merge", "set_union", "set_difference", "set_intersection", "set_symmetric_difference", "includes"):
                ks = sorted(ks, key=sort_key(cmp))
                kb = sorted(kb, key=sort_key(cmp))
                extra = "cmp=" + cmp
            elif op == "lexicographical_compare":
                extra = "cmp=" + cmp
            elif op == "is_permutation":
                kb = list(ks)
                rnd.shuffle(kb)
                if kb and rnd.random() < 0.4:
                    kb[rnd.randrange(len(kb))] = rnd.randrange(nkeys)
                if rnd.random() < 0.2:
                    kb = kb[:-1] if kb else [0]
                extra = "ov=4"
            elif op in ("mismatch", "equal"):
                kb = list(ks)
                if kb and rnd.random() < 0.6:
                    kb[rnd.randrange(len(kb))] = rnd.randrange(nkeys)
                if rnd.random() < 0.3:
                    kb = kb[: rnd.randint(0, len(kb))]
                extra = "ov=4 eq=" + eq
            elif op == "swap_ranges":
                kb = [rnd.randrange(nkeys) for _ in range(len(ks) + rnd.choice([0, 0, 1]))]
                extra = ""
            else:
                extra = "eq=" + eq
            r = tagged(ks)
            b = tagged(kb, 50)
            a, f, l = (r, 0, len(r)) if bare else ([700] + r + [701], 1, 1 + len(r))
            kinds = FWD if op in ("search", "find_end", "is_permutation", "swap_ranges") else IN
            g.add(op, a, f, l, ("b=%s %s" % (fmt_list(b), extra)).strip(), kinds, tag=op + "/rand")


def gen_alg(g, thorough):
    K3 = [0, 1, 2]
    if thorough:
        seqs = [t for n in range(0, 4) for t in itertools.product(K3, repeat=n)]
        seqs += [(0, 0, 1, 1), (1, 0, 1, 0), (2, 2, 1, 0), (0, 1, 1, 2, 2), (1, 0, 2, 0, 1), (0, 0, 1, 1, 2, 2), (1, 0, 1, 0, 1, 0, 1)]
        masks, vals, cmps, eqs = range(8), [99, 199, 299], ("dflt", "greater", "mod3"), EQS
        cmps2, eqs2 = ("less", "greater"), ("dflt", "eqmod")
    else:
        seqs = [(), (0,), (0, 0), (0, 1), (1, 0), (2, 1), (0, 1, 2), (2, 1, 0), (1, 1, 1), (0, 1, 0), (0, 0, 1, 1), (1, 0, 1, 0),
                (0, 1, 1, 2, 2)]
        masks, vals, cmps, eqs = (0, 2, 5, 7), [99, 199], ("dflt", "greater", "mod3"), ("dflt", "eqmod")
        cmps2, eqs2 = ("dflt", "greater"), ("dflt", "eqmod")
    for t in seqs:
        r = tagged(t)
        for a, f, l in placements(r):
            if len(r) == 0 and not thorough:     # the empty range: one parameter of each kind
                gen_for_range(g, r, a, f, l, (5,), vals[:1], cmps[:2], eqs[:1])
            else:
                gen_for_range(g, r, a, f, l, masks, vals, cmps, eqs)
    # two ranges: second range empty, shorter, exact fit, longer than the first ("needle longer than haystack")
    K2 = [0, 1]
    firsts = [tagged(t) for n in range((3 if thorough else 2) + 1) for t in itertools.product(K2, repeat=n)]
    seconds = [tagged(t, 50) for n in range(4) for t in itertools.product(K2, repeat=n)]
    if thorough:
        seconds += [tagged(t, 50) for t in ((0, 0, 1, 1), (1, 1, 0, 0), (0, 1, 0, 1), (1, 1, 1, 1))]
    for r in firsts:
        for pi, (a, f, l) in enumerate(placements(r)):
            for bi, b in enumerate(seconds):
                if thorough or (bi + pi) % 2 == 0:
                    gen_two_ranges(g, r, b, a, f, l, cmps2, eqs2)
    gen_copies(g, 6 if thorough else 4)
    gen_minmax(g, thorough)
    gen_numeric(g, 3 if thorough else 2, thorough)
    gen_random(g, 12000 if thorough else 1200)


# ------------------------------------------------------------------------------------------------ span (filled in below)

SPAN_SE = (-1, 0, 1, 3)          # the static extents the harness instantiates (-1 = dynamic_extent)
MD_PATS = [(), (-1,), (3,), (-1, -1), (2, 3), (-1, 3), (2, 0), (-1, -1, -1), (2, -1, 4)]


def make_strides(rnd, ext, exhaustive=False):
    """strides satisfying the uniqueness precondition (as checks/props/c19.py): a random permutation of the dimensions, each
    stride >= span of the faster dimensions, random padding; returns (strides, perm by decreasing stride)"""
    r = len(ext)
    order = list(range(r))
    rnd.shuffle(order)
    strs = [0] * r
    bound = 1
    for k in order:
        pad = 0 if exhaustive else rnd.choice([0, 0, 1, 2, 3])
        strs[k] = bound + pad
        bound = strs[k] * ext[k]
    return strs, list(reversed(order))


def gen_span(g, thorough):
    """span.first/last/subspan: every (n, static or dynamic extent, run-time / template arguments, offset, count incl.
    dynamic_extent) with offset + count <= n: count 0, count == n (exact fit), offset == n (empty tail).
    span.idx/front/back/elems on every non-empty (idx, front, back) / every (elems) such subspan.
    span.md: every instantiated extents pattern x dynamic values {0..3} x layout_left / layout_right / layout_stride, accessed
    at the all-zero and the all-max multi-index over a buffer of exactly required_span_size elements."""
    def add(line, tag):
        g.line(line, tag)
    for n in range(0, 7 if thorough else 6):
        for se in (-1, n):
            if se not in SPAN_SE:
                continue
            for ct in (0, 1):
                lim = n if (ct == 0 or se >= 0) else min(n, 3)      # template arguments instantiated up to 3
                for c in range(0, lim + 1):
                    for op in ("first", "last"):
                        add("span.%s n=%d se=%d ct=%d cnt=%d" % (op, n, se, ct, c), "span." + op)
                for o in range(0, lim + 1):
                    for c in [-1] + list(range(0, lim - o + 1)):
                        add("span.subspan n=%d se=%d ct=%d off=%d cnt=%d" % (n, se, ct, o, c), "span.subspan")
            for o in range(0, n + 1):
                for c in [-1] + list(range(0, n - o + 1)):
                    k = n - o if c < 0 else c
                    e = "n=%d se=%d off=%d cnt=%d" % (n, se, o, c)
                    add("span.elems " + e, "span.elems")
                    if k > 0:
                        add("span.front " + e, "span.front")
                        add("span.back " + e, "span.back")
                        for i in sorted({0, k // 2, k - 1}):
                            add("span.idx %s i=%d" % (e, i), "span.idx")
    dyn_vals = [0, 1, 2, 3] if thorough else [0, 1, 3]
    for p in MD_PATS:
        r = len(p)
        for vals in itertools.product(*[[x] if x >= 0 else dyn_vals for x in p]):
            e = "pat=%s ext=%s" % (fmt_list(list(p)), fmt_list(list(vals)))
            add("span.md lay=left " + e, "span.md/left")
            add("span.md lay=right " + e, "span.md/right")
            for d in range(1 if r == 0 else (4 if thorough else 2)):
                strs, perm = make_strides(g.rnd, list(vals), exhaustive=(d == 0))
                add("span.md lay=stride %s str=%s perm=%s" % (e, fmt_list(strs), fmt_list(perm)), "span.md/stride")


def generate(tier, seed):
    thorough = tier == "thorough"
    g = Gen(seed)
    gen_alg(g, thorough)
    gen_span(g, thorough)
    return g.cases, g.dist


_RNG = re.compile(r" f=(\d+) l=(\d+)")
_B = re.compile(r" b=\[([^\]]*)\]")


def nontrivial(case, rows):
    ln = case.lines[0]
    op = ln.split(" ")[0]
    if op.startswith("alg."):
        if op in ("alg.min", "alg.max", "alg.minmax", "alg.clamp"):
            return True
        m = _RNG.search(ln)
        if not m:
            return False
        n = int(m.group(2)) - int(m.group(1))
        mb = _B.search(ln)
        if mb is not None:
            return n >= 1 and mb.group(1) != ""
        return n >= 1
    if op == "span.md":
        return "lo=-" not in rows[0].impl
    if op in ("span.first", "span.last", "span.subspan", "span.elems"):
        return "el=[]" not in rows[0].impl
    return True
