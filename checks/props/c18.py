"""C18 — C-library reimplementations behave like the host C library in the C locale (DESIGN §4 C18)."""
import itertools
import random

from lib import Case, fmt_list

PROP = "C18"
DRIVER = "drv-c18"
PROOF_MODULES = ["TetlProofs.C18.Props", "TetlProofs.C18.PropsFootprint", "TetlProofs.C18.PropsCtype", "TetlProofs.C18.PropsDiv",
                 "TetlProofs.C18.PropsGen", "TetlProofs.C18.PropsGenW"]
HARNESS = "harness/c18.cpp"
SOURCES = ["include/etl/_strings/cstr.hpp", "include/etl/_cstring", "include/etl/_cwchar", "include/etl/_cctype",
           "include/etl/_cwctype", "include/etl/_cstdlib/div.hpp", "include/etl/_cstdlib/labs.hpp",
           "include/etl/_cstdlib/llabs.hpp", "include/etl/_math/abs.hpp"]
RULE = ("cctype: all 14 functions on every argument in [-1,255] (the complete domain). cwctype: all 14 functions on every "
        "wint_t in [0,0x2FF], the neighbourhoods of 2^16, 0x10FFFF, 2^31, and WEOF, plus seeded random 32-bit values. "
        "cstring/cwchar: every string up to length 4 (5 thorough; 3/4 for wchar_t) over {a, b, a unit >= 0x80} -- for the "
        "mem functions over {a, 0x80-unit, 0} -- in exact-size heap allocations: all pairs for the two-string functions, "
        "every count in [0,len+2], terminated and unterminated (exactly count units) sources, pointer offsets 0 and 1, "
        "destinations of exactly the extent C defines framed by guard units (non-zero fill after the terminator), every "
        "(dest,src,n) placement inside buffers up to 7 (8) units for memmove; memmove across two allocations (allocation "
        "order alternated), memcpy between every pair of disjoint extents of one allocation, strncmp on arrays readable "
        "only jointly (the call stops before the end of the shorter one); plus seeded random strings up to length 48. "
        "On every strchr/strrchr/memchr/strpbrk/strstr line (and the wcs/wmem counterparts) BOTH overloads run -- pointer "
        "to const and pointer to non-const (memchr(void*) has its own body) -- and must return the same offset, the "
        "non-const one with the ISO C++ return type for (C*, C const*) arguments (`!mut=` / `!sig` in the output "
        "otherwise). strrchr/wcsrchr are also called with a null pointer (tetl returns null; glibc is not called, the "
        "spec column is masked). Apart from that only inputs satisfying the C preconditions (the decidable predicates "
        "Terminated / ReadableN / cmpReadableN / room of the Lean theorems) are generated. A case is non-trivial when "
        "its first string/array argument is non-empty and its count (if any) is non-zero, or it is a ctype/div point; "
        "distinct = distinct case text.")
ASSUMPTIONS = ["glibc 2.36 in the \"C\" locale (setlocale(LC_ALL, \"C\")) is the reference for spec validation (R2)",
               "allocations are modelled as lists of unsigned code units; plain char is 8-bit, wchar_t a signed 32-bit int "
               "(x86-64 Linux); source and destination of strcpy/strncpy/strcat/strncat are distinct allocations (memcpy: "
               "distinct allocations or disjoint extents of one; memmove: one allocation with any overlap, or two "
               "allocations, where the outcome of `ps < pd` on unrelated pointers is left open and both directions are proved)",
               "the harness is compiled with g++: the builtin branches of strlen/strcmp/strncmp/strchr/memchr/memcmp/memcpy/"
               "memmove/wmemcpy/wmemmove are selected at compile time by `#if defined(__clang__)` (not at run time) and are "
               "neither compiled nor modelled here"]
TRUSTED = ["hand model Tetl/C18/Model.lean tied to the source by the correspondence run (R1) on every run",
           "spec Tetl/C18/Spec.lean validated against glibc (R2) on every run",
           "the reduction of the int argument to the character type is the same definition in model and spec "
           "(CT.cast = Spec.toUnit = the residue modulo 2^bits, C 6.3.1.3): the theorems cannot detect an error in it; "
           "only R2 against glibc does (ch in {-1, 256, 256+97, hi-256}).  The order of code units is defined "
           "independently (spec: identity for char, balanced remainder Int.bmod for wchar_t; model: compare_units' casts) "
           "and related by Lemmas.key_eq"]
SEARCH_CAP = 900000

CTYPE = ["isalnum", "isalpha", "isblank", "iscntrl", "isdigit", "isgraph", "islower", "isprint", "ispunct", "isspace",
         "isupper", "isxdigit", "tolower", "toupper"]
WCTYPE = ["iswalnum", "iswalpha", "iswblank", "iswcntrl", "iswdigit", "iswgraph", "iswlower", "iswprint", "iswpunct",
          "iswspace", "iswupper", "iswxdigit", "towlower", "towupper"]

_P = "Tetl.C18.Props."
THEOREMS = {
    # a <cctype>/<cwctype> line is named by its function: the obligations that break when the header changes are the
    # ones over the GENERATED model (PropsGen / PropsGenW); the hand-model theorem is listed second
    "ctype": ["Tetl.C18.PropsGen.gen_%s_eq" % f for f in CTYPE] + [_P + "%s_eq" % f for f in CTYPE],
    "wctype": ["Tetl.C18.PropsGenW.gen_%s_eq" % f for f in WCTYPE] + [_P + "%s_eq" % f for f in WCTYPE],
    "strlen": [_P + "strlen_eq", _P + "strlen_footprint", _P + "strlen_footprint_exact"],
    "strncmp": [_P + "strncmp_eq", _P + "strncmp_joint_eq", _P + "strncmp_footprint"],
    "strcspn": [_P + "strcspn_eq", _P + "strcspn_footprint"],
    "strrchr": [_P + "strrchr_eq", _P + "strrchrP_eq", _P + "strrchr_footprint"],
    "strrchr0": [_P + "strrchrP_eq"],
    "memmove2": [_P + "memmove2_eq"], "memcpy1": [_P + "memcpy1_eq"],
    "div": [_P + "div_eq", _P + "div_law"], "abs": [_P + "abs_eq"],
}
for _f in ("strcpy", "strncpy", "strcat", "strncat", "strcmp", "memcmp", "strchr", "memchr", "memcpy", "memset", "memmove",
           "strspn", "strpbrk", "strstr"):
    THEOREMS[_f] = [_P + _f + "_eq", _P + _f + "_footprint"]
for _f in CTYPE:
    THEOREMS[_f] = ["Tetl.C18.PropsGen.gen_%s_eq" % _f, "Tetl.C18.PropsGen.gen_no_ub", _P + "%s_eq" % _f]
for _f in WCTYPE:
    THEOREMS[_f] = ["Tetl.C18.PropsGenW.gen_%s_eq" % _f, _P + "%s_eq" % _f]

G = 238          # guard unit (0xEE): non-zero, not in any alphabet


def strings(alpha, maxlen):
    for n in range(maxlen + 1):
        for t in itertools.product(alpha, repeat=n):
            yield list(t)


# ---- the decidable preconditions of the theorems (Spec.Terminated / Spec.ReadableN / room) --------------------

def terminated(b, p):
    return 0 in b[p:]


def readable_n(b, p, n):
    return p + n <= len(b) or terminated(b, p)


def cmp_readable_n(a, b, n):
    """Spec.cmpReadableN: every pair strncmp looks at before it stops is inside both arrays"""
    for k in range(n):
        if k >= len(a) or k >= len(b):
            return False
        if a[k] != b[k] or a[k] == 0:
            return True
    return True


def cstr(b, p):
    r = []
    for x in b[p:]:
        if x == 0:
            break
        r.append(x)
    return r


def cstr_n(b, p, n):
    return cstr(b[p:p + n] + [0], 0)


def generate(tier, seed):
    rnd = random.Random(seed)
    thorough = tier == "thorough"
    cases = []
    dist = {}

    def add(line, tag):
        cases.append(Case(line, tag))
        dist[tag] = dist.get(tag, 0) + 1

    # ---------------------------------------------------------------- cctype / cwctype
    for f in CTYPE:
        for c in range(-1, 256):
            add("%s c=%d" % (f, c), "ctype/" + f)
    wpts = set(range(0, 0x300))
    for mid in (0x8000, 0xFFFF, 0x10000, 0x10FFFF, 0x110000, 2 ** 31, 2 ** 32 - 1):
        wpts.update(x for x in range(mid - 40, mid + 41) if 0 <= x < 2 ** 32)
    # values whose +-32 neighbours hit the letter ranges modulo 2^32
    wpts.update(range(2 ** 32 - 140, 2 ** 32))
    for _ in range(4000 if thorough else 400):
        wpts.add(rnd.randrange(2 ** 32))
        wpts.add(rnd.randrange(2 ** 16))
    if thorough:
        wpts.update(range(0x300, 0x3000))
    for f in WCTYPE:
        for c in sorted(wpts):
            add("%s c=%d" % (f, c), "wctype/" + f)

    # ---------------------------------------------------------------- strings
    def emit_strings(ct, A, M, smax, mmax):
        """A: alphabet without 0 (strings), M: alphabet with 0 (arrays)."""
        sfx = "" if ct == "char" else " ct=wchar"
        T = lambda t: t if ct == "char" else t + "/w"
        S = list(strings(A, smax))
        S3 = [s for s in S if len(s) <= max(smax - 1, 2)]
        ARR = list(strings(M, mmax))
        hi = A[-1]
        if ct == "char":
            chs = [97, 98, hi, 0, 99, hi - 256, 256 + 97, 256, -1]
        else:
            chs = [97, 98, hi - 2 ** 32 if hi >= 2 ** 31 else hi, 0, 99, -1]

        # strlen, strchr, strrchr: pointer offsets 0/1, with and without units after the terminator
        for s in S:
            for pre in ([], [A[0]]):
                for tail in ([], [A[0]]):
                    buf = pre + s + [0] + tail
                    add("strlen s=%s off=%d%s" % (fmt_list(buf), len(pre), sfx), T("strlen"))
                    if tail and len(s) > 2:
                        continue
                    for ch in chs:
                        add("strchr s=%s off=%d ch=%d%s" % (fmt_list(buf), len(pre), ch, sfx), T("strchr"))
                        add("strrchr s=%s off=%d ch=%d%s" % (fmt_list(buf), len(pre), ch, sfx), T("strrchr"))
        # strrchr/wcsrchr with a null pointer (tetl returns null; undefined in ISO C, so glibc is not called)
        for ch in chs:
            add("strrchr0 ch=%d%s" % (ch, sfx), T("strrchr0"))
        # memchr: arrays with zeros; counts beyond the array only when the match is found inside it
        for a in ARR:
            for off in (0, 1):
                if off > len(a):
                    continue
                for ch in chs[:5]:
                    c = ch % (256 if ct == "char" else 2 ** 32)
                    for n in range(0, len(a) - off + 3):
                        if n > len(a) - off and c not in a[off:]:
                            continue
                        add("memchr s=%s off=%d ch=%d n=%d%s" % (fmt_list(a), off, ch, n, sfx), T("memchr"))
        # strcmp: all pairs; strncmp: all pairs x counts, terminated and exactly-n unterminated arrays
        for a in S:
            for b in S:
                add("strcmp a=%s aoff=0 b=%s boff=0%s" % (fmt_list(a + [0]), fmt_list(b + [0]), sfx), T("strcmp"))
                if len(a) <= len(S3[-1]) or len(b) <= len(S3[-1]) or thorough:
                    for n in range(0, max(len(a), len(b)) + 3):
                        add("strncmp a=%s aoff=0 b=%s boff=0 n=%d%s"
                            % (fmt_list(a + [0]), fmt_list(b + [0]), n, sfx), T("strncmp"))
                        if n <= len(a) and n <= len(b) and n > 0 and (len(a) > n or len(b) > n):
                            add("strncmp a=%s aoff=0 b=%s boff=0 n=%d%s"
                                % (fmt_list(a[:n]), fmt_list(b[:n]), n, sfx), T("strncmp/unterminated"))
        # strncmp on arrays that are readable only jointly: the call stops at a difference / a pair of zeros
        # before it would leave the shorter array (Spec.cmpReadableN, weaker than ReadableN of each array)
        for a in ARR:
            for b in ARR:
                for n in range(1, max(len(a), len(b)) + 3):
                    if cmp_readable_n(a, b, n) and not (readable_n(a, 0, n) and readable_n(b, 0, n)):
                        add("strncmp a=%s aoff=0 b=%s boff=0 n=%d%s" % (fmt_list(a), fmt_list(b), n, sfx), T("strncmp/joint"))
        for a in S3:
            for b in S3:
                add("strcmp a=%s aoff=1 b=%s boff=1%s" % (fmt_list([A[0]] + a + [0, A[1]]), fmt_list([A[1]] + b + [0]), sfx),
                    T("strcmp/off"))
        # memcmp: arrays with zeros, every count both arrays have
        for a in ARR:
            for b in ARR:
                if len(a) < len(b):
                    continue
                for n in range(0, len(b) + 1):
                    add("memcmp a=%s aoff=0 b=%s boff=0 n=%d%s" % (fmt_list(a), fmt_list(b), n, sfx), T("memcmp"))
        # strspn, strcspn, strpbrk, strstr: all pairs
        for s in S:
            for t in S:
                for op in ("strspn", "strcspn", "strpbrk", "strstr"):
                    add("%s s=%s off=0 t=%s toff=0%s" % (op, fmt_list(s + [0]), fmt_list(t + [0]), sfx), T(op))
        for s in S3:
            for t in S3:
                for op in ("strspn", "strcspn", "strpbrk", "strstr"):
                    add("%s s=%s off=1 t=%s toff=1%s"
                        % (op, fmt_list([A[1]] + s + [0, A[0]]), fmt_list([A[0]] + t + [0, A[1]]), sfx), T(op + "/off"))
        # strcpy / strncpy
        for s in S:
            for doff in (0, 1):
                for tail in (0, 1):
                    dst = [G] * doff + [G + 1] * (len(s) + 1) + [G] * tail
                    add("strcpy dst=%s doff=%d src=%s soff=0%s" % (fmt_list(dst), doff, fmt_list(s + [0]), sfx), T("strcpy"))
                    add("strcpy dst=%s doff=%d src=%s soff=1%s"
                        % (fmt_list(dst), doff, fmt_list([A[0]] + s + [0, A[0]]), sfx), T("strcpy"))
                    for n in range(0, len(s) + 3):
                        dstn = [G] * doff + [G + 1] * n + [G] * tail
                        add("strncpy dst=%s doff=%d src=%s soff=0 n=%d%s"
                            % (fmt_list(dstn), doff, fmt_list(s + [0]), n, sfx), T("strncpy"))
                        if n <= len(s):
                            add("strncpy dst=%s doff=%d src=%s soff=0 n=%d%s"
                                % (fmt_list(dstn), doff, fmt_list(s[:n]), n, sfx), T("strncpy/unterminated"))
        # strcat / strncat: destination string x source string; non-zero fill after the old terminator
        for d0 in S3:
            for s in S3:
                for doff in (0, 1):
                    for tail in (0, 1):
                        dst = [G] * doff + d0 + [0] + [G + 1] * len(s) + [G] * tail
                        add("strcat dst=%s doff=%d src=%s soff=0%s" % (fmt_list(dst), doff, fmt_list(s + [0]), sfx), T("strcat"))
                        for n in range(0, len(s) + 3):
                            k = min(n, len(s))
                            dstn = [G] * doff + d0 + [0] + [G + 1] * k + [G] * tail
                            add("strncat dst=%s doff=%d src=%s soff=0 n=%d%s"
                                % (fmt_list(dstn), doff, fmt_list(s + [0]), n, sfx), T("strncat"))
                            if n <= len(s):
                                add("strncat dst=%s doff=%d src=%s soff=0 n=%d%s"
                                    % (fmt_list(dstn), doff, fmt_list(s[:n]), n, sfx), T("strncat/unterminated"))
        # memcpy / memset
        for a in ARR:
            for soff in (0, 1):
                for n in range(0, len(a) - soff + 1):
                    for doff in (0, 1):
                        for tail in (0, 1):
                            dst = [G] * doff + [G + 1] * n + [G] * tail
                            add("memcpy dst=%s doff=%d src=%s soff=%d n=%d%s"
                                % (fmt_list(dst), doff, fmt_list(a), soff, n, sfx), T("memcpy"))
        # memmove across two allocations (`ps < pd` on unrelated pointers; allocation order alternated)
        for a in ARR:
            for soff in (0, 1):
                for n in range(0, len(a) - soff + 1):
                    for doff, tail in ((0, 0), (1, 1)):
                        for first in ("dst", "src"):
                            dst = [G] * doff + [G + 1] * n + [G] * tail
                            add("memmove2 dst=%s doff=%d src=%s soff=%d n=%d first=%s%s"
                                % (fmt_list(dst), doff, fmt_list(a), soff, n, first, sfx), T("memmove2"))
        # memcpy between two disjoint extents of one allocation, every placement, both orders
        for L in range(0, (9 if thorough else 8)):
            buf = list(range(1, L + 1))
            if L >= 3:
                buf[2] = 0
            for n in range(0, L + 1):
                for d in range(0, L - n + 1):
                    for s_ in range(0, L - n + 1):
                        if s_ + n <= d or d + n <= s_:
                            add("memcpy1 buf=%s doff=%d soff=%d n=%d%s" % (fmt_list(buf), d, s_, n, sfx), T("memcpy1"))
        for n in range(0, 6):
            for doff in (0, 1, 2):
                for tail in (0, 1):
                    for ch in chs:
                        dst = [G] * doff + [G + 1] * n + [G] * tail
                        add("memset dst=%s doff=%d ch=%d n=%d%s" % (fmt_list(dst), doff, ch, n, sfx), T("memset"))
        # memmove: every placement of source and destination extents inside one buffer
        for L in range(0, (9 if thorough else 8)):
            buf = list(range(1, L + 1))
            if L >= 3:
                buf[2] = 0
            for n in range(0, L + 1):
                for d in range(0, L - n + 1):
                    for s_ in range(0, L - n + 1):
                        add("memmove buf=%s doff=%d soff=%d n=%d%s" % (fmt_list(buf), d, s_, n, sfx), T("memmove"))

    emit_strings("char", [97, 98, 200], [97, 200, 0], 5 if thorough else 4, 4 if thorough else 3)
    emit_strings("wchar", [97, 0x7FFFFFF0, 0x80000010], [97, 0x80000010, 0], 4 if thorough else 3, 3)
    # wide units that differ only above the low byte (a 256-entry table indexed by the low byte, or a narrowing to
    # unsigned char, confuses them): every pair of strings up to length 2 for the set / substring searches, and the
    # single-unit searches for each of them
    WL = [0x61, 0x161, 0x10061, 0x100]
    for s_ in strings(WL, 2):
        for t_ in strings(WL, 2):
            for op in ("strspn", "strcspn", "strpbrk", "strstr"):
                add("%s s=%s off=0 t=%s toff=0 ct=wchar" % (op, fmt_list(s_ + [0]), fmt_list(t_ + [0])), op + "/w/lowbyte")
        for c_ in WL:
            add("strchr s=%s off=0 ch=%d ct=wchar" % (fmt_list(s_ + [0]), c_), "strchr/w/lowbyte")
            add("strrchr s=%s off=0 ch=%d ct=wchar" % (fmt_list(s_ + [0]), c_), "strrchr/w/lowbyte")
            add("memchr s=%s off=0 ch=%d n=%d ct=wchar" % (fmt_list(s_ + [0]), c_, len(s_) + 1), "memchr/w/lowbyte")

    # ---------------------------------------------------------------- div / labs / llabs
    def bnd(bits):
        mn, mx = -(2 ** (bits - 1)), 2 ** (bits - 1) - 1
        return [mn, mn + 1, -(2 ** (bits // 2)), -7, -2, -1, 0, 1, 2, 3, 7, 2 ** (bits // 2) + 1, mx - 1, mx]
    for f, bits in (("div", 32), ("div", 64), ("divll", 64), ("ldiv", 64), ("lldiv", 64), ("imaxdiv", 64)):
        vals = bnd(bits) + [rnd.randrange(-(2 ** (bits - 1)), 2 ** (bits - 1)) for _ in range(12)]
        for x in vals:
            for y in vals:
                if y == 0 or (x == -(2 ** (bits - 1)) and y == -1):
                    continue            # undefined behaviour in C
                add("div f=%s bits=%d x=%d y=%d" % (f, bits, x, y), "div/" + f)
    for f in ("labs", "llabs"):
        for x in bnd(64)[1:] + [rnd.randrange(-(2 ** 63) + 1, 2 ** 63) for _ in range(40)]:
            add("abs f=%s bits=64 x=%d" % (f, x), "abs/" + f)

    # ---------------------------------------------------------------- seeded random longer strings
    nrand = 150000 if thorough else 25000
    OPS = ["strlen", "strchr", "strrchr", "memchr", "strcmp", "strncmp", "memcmp", "strspn", "strcspn", "strpbrk",
           "strstr", "strcpy", "strncpy", "strcat", "strncat", "memcpy", "memset", "memmove", "memmove2", "memcpy1"]
    for _ in range(nrand):
        wide = rnd.random() < 0.3
        sfx = " ct=wchar" if wide else ""
        if wide:
            alpha = rnd.choice([[97, 98], [97, 98, 99, 0x80000010], [1, 0x7FFFFFF0, 0xFFFFFFFF, 0x80000000]])
        else:
            alpha = rnd.choice([[97, 98], [97, 98, 99, 100], [1, 127, 128, 200, 255]])
        op = rnd.choice(OPS)
        tag = op + "/rand" + ("/w" if wide else "")

        def rs(lo=0, hi=48):
            return [rnd.choice(alpha) for _ in range(rnd.randint(lo, hi))]

        def near(s):
            """a string related to s: equal, mutated, truncated or extended"""
            t = list(s)
            r = rnd.random()
            if t and r < 0.4:
                t[rnd.randrange(len(t))] = rnd.choice(alpha)
            elif r < 0.6:
                t = t[: rnd.randint(0, len(t))]
            elif r < 0.8:
                t = t + rs(0, 4)
            return t

        off = rnd.choice([0, 0, 1, 3])
        pre = [rnd.choice(alpha) for _ in range(off)]
        if op in ("strlen", "strchr", "strrchr"):
            s = rs()
            buf = pre + s + [0] + rs(0, 3)
            if op == "strlen":
                add("strlen s=%s off=%d%s" % (fmt_list(buf), off, sfx), tag)
            else:
                ch = rnd.choice(alpha + [0, 5])
                if wide and ch >= 2 ** 31:
                    ch -= 2 ** 32
                if not wide and rnd.random() < 0.3:
                    ch += rnd.choice([-256, 256, 512])
                add("%s s=%s off=%d ch=%d%s" % (op, fmt_list(buf), off, ch, sfx), tag)
        elif op == "memchr":
            a = [rnd.choice(alpha + [0]) for _ in range(rnd.randint(0, 40))]
            o = min(off, len(a))
            ch = rnd.choice(alpha + [0, 5])
            n = rnd.randint(0, len(a) - o)
            if wide and ch >= 2 ** 31:
                ch -= 2 ** 32
            add("memchr s=%s off=%d ch=%d n=%d%s" % (fmt_list(a), o, ch, n, sfx), tag)
        elif op in ("strcmp", "strncmp"):
            a = rs()
            b = near(a)
            if op == "strcmp":
                add("strcmp a=%s aoff=%d b=%s boff=0%s" % (fmt_list(pre + a + [0]), off, fmt_list(b + [0]), sfx), tag)
            else:
                n = rnd.choice([0, 1, len(a), len(b), rnd.randint(0, 50), 1000, 2 ** 64 - 1])
                if n > 2 ** 62:
                    n = 2 ** 63 - 1   # the case-line integer is a signed 64-bit value
                add("strncmp a=%s aoff=%d b=%s boff=0 n=%d%s" % (fmt_list(pre + a + [0]), off, fmt_list(b + [0]), n, sfx), tag)
        elif op == "memcmp":
            a = [rnd.choice(alpha + [0]) for _ in range(rnd.randint(0, 40))]
            b = near(a)
            n = rnd.randint(0, min(len(a), len(b)))
            add("memcmp a=%s aoff=0 b=%s boff=0 n=%d%s" % (fmt_list(a), fmt_list(b), n, sfx), tag)
        elif op in ("strspn", "strcspn", "strpbrk"):
            s = rs()
            t = rs(0, 4) if rnd.random() < 0.8 else [5, 6]
            add("%s s=%s off=%d t=%s toff=0%s" % (op, fmt_list(pre + s + [0]), off, fmt_list(t + [0]), sfx), tag)
        elif op == "strstr":
            h = rs()
            if h and rnd.random() < 0.7:
                i = rnd.randrange(len(h))
                n_ = h[i:i + rnd.randint(0, 6)]
                if n_ and rnd.random() < 0.3:
                    n_[-1] = rnd.choice(alpha)
                if rnd.random() < 0.2:
                    n_ = n_ + rs(1, 3)       # a needle that runs past the end of the haystack
            else:
                n_ = rs(0, 5)
            add("strstr s=%s off=%d t=%s toff=0%s" % (fmt_list(pre + h + [0]), off, fmt_list(n_ + [0]), sfx), tag)
        elif op in ("strcpy", "strncpy"):
            s = rs()
            doff = rnd.choice([0, 1, 2])
            tail = rnd.choice([0, 1, 2])
            if op == "strcpy":
                dst = [G] * doff + [G + 1] * (len(s) + 1) + [G] * tail
                add("strcpy dst=%s doff=%d src=%s soff=%d%s" % (fmt_list(dst), doff, fmt_list(pre + s + [0]), off, sfx), tag)
            else:
                n = rnd.choice([0, len(s), len(s) + 1, rnd.randint(0, 60)])
                dst = [G] * doff + [G + 1] * n + [G] * tail
                src = pre + (s[:n] if n <= len(s) and rnd.random() < 0.5 else s + [0])
                add("strncpy dst=%s doff=%d src=%s soff=%d n=%d%s" % (fmt_list(dst), doff, fmt_list(src), off, n, sfx), tag)
        elif op in ("strcat", "strncat"):
            d0 = rs(0, 20)
            s = rs(0, 20)
            doff = rnd.choice([0, 1, 2])
            tail = rnd.choice([0, 1, 2])
            if op == "strcat":
                dst = [G] * doff + d0 + [0] + [G + 1] * len(s) + [G] * tail
                add("strcat dst=%s doff=%d src=%s soff=%d%s" % (fmt_list(dst), doff, fmt_list(pre + s + [0]), off, sfx), tag)
            else:
                n = rnd.choice([0, len(s), len(s) + 1, rnd.randint(0, 30)])
                k = min(n, len(s))
                dst = [G] * doff + d0 + [0] + [G + 1] * k + [G] * tail
                src = pre + (s[:n] if n <= len(s) and rnd.random() < 0.5 else s + [0])
                add("strncat dst=%s doff=%d src=%s soff=%d n=%d%s" % (fmt_list(dst), doff, fmt_list(src), off, n, sfx), tag)
        elif op == "memcpy":
            a = [rnd.choice(alpha + [0]) for _ in range(rnd.randint(0, 40))]
            o = min(off, len(a))
            n = rnd.randint(0, len(a) - o)
            doff = rnd.choice([0, 1, 2])
            dst = [G] * doff + [G + 1] * n + [G] * rnd.choice([0, 1])
            add("memcpy dst=%s doff=%d src=%s soff=%d n=%d%s" % (fmt_list(dst), doff, fmt_list(a), o, n, sfx), tag)
        elif op == "memmove2":
            a = [rnd.choice(alpha + [0]) for _ in range(rnd.randint(0, 40))]
            o = min(off, len(a))
            n = rnd.randint(0, len(a) - o)
            doff = rnd.choice([0, 1, 2])
            dst = [G] * doff + [G + 1] * n + [G] * rnd.choice([0, 1])
            add("memmove2 dst=%s doff=%d src=%s soff=%d n=%d first=%s%s"
                % (fmt_list(dst), doff, fmt_list(a), o, n, rnd.choice(["dst", "src"]), sfx), tag)
        elif op == "memcpy1":
            L = rnd.randint(0, 40)
            buf = [rnd.choice(alpha + [0]) for _ in range(L)]
            n = rnd.randint(0, L // 2)
            lo = rnd.randint(0, L - 2 * n)
            hi = rnd.randint(lo + n, L - n)
            d, s_ = rnd.choice([(lo, hi), (hi, lo)])
            add("memcpy1 buf=%s doff=%d soff=%d n=%d%s" % (fmt_list(buf), d, s_, n, sfx), tag)
        elif op == "memset":
            n = rnd.randint(0, 40)
            doff = rnd.choice([0, 1, 2])
            dst = [G] * doff + [G + 1] * n + [G] * rnd.choice([0, 1])
            ch = rnd.choice([0, 97, 255, 256, -1, 1000, -129])
            add("memset dst=%s doff=%d ch=%d n=%d%s" % (fmt_list(dst), doff, ch, n, sfx), tag)
        else:
            L = rnd.randint(0, 40)
            buf = [rnd.choice(alpha + [0]) for _ in range(L)]
            n = rnd.randint(0, L)
            d = rnd.randint(0, L - n)
            s_ = rnd.choice([d, max(d - 1, 0), min(d + 1, L - n), rnd.randint(0, L - n)])
            add("memmove buf=%s doff=%d soff=%d n=%d%s" % (fmt_list(buf), d, s_, n, sfx), tag)
    return cases, False, dist


def _first_list(line):
    i = line.find("=[")
    j = line.find("]", i)
    return line[i + 2:j]


def nontrivial(case, rows):
    ln = case.lines[0]
    op = ln.split(" ")[0]
    if op in ("ctype", "wctype", "div", "abs", "strrchr0") or op in CTYPE or op in WCTYPE:
        return True
    if " n=0" in ln:
        return False
    first = _first_list(ln)
    return first not in ("", "0")


def classify(case, k, row):
    return None


def group_of(case):
    return case.tag.split("/")[0]


CLAIMED = True
TECHNIQUE = ("Lean 4 proof: hand model (checked reads and writes, one definition per C++ loop) = ISO C list semantics for all "
             "allocations, offsets and counts, by induction; cctype by kernel `decide` over the complete domain [-1,255], "
             "cwctype for every wint_t; model tied to the code by an exhaustive small-scope + random differential run "
             "against the implementation, spec validated against glibc")
LEVEL_TEXT = ("Each modelled function of <cstring>/<cwchar> is proved in Lean 4, for every allocation, pointer offset and count "
              "satisfying the C preconditions (no size bound), to return without any out-of-allocation read or write exactly "
              "the offset / sign / length and the destination contents ISO C prescribes, leaving every unit outside the "
              "destination extent unchanged; and (footprint) to succeed with that same result when the source is cut down to "
              "exactly its string with terminator / its count and the destination to exactly the extent C defines, with nothing "
              "before the pointers. The 14 <cctype> functions are proved equal to the \"C\"-locale table on the "
              "complete domain [-1,255] and the 14 <cwctype> functions for every wint_t; div/ldiv/lldiv/imaxdiv and labs/llabs "
              "wherever C defines the result (non-zero divisor and representable quotient; argument other than the minimum). "
              "The model is tied to the current source on every run by executing model and "
              "implementation on the same inputs (exhaustive small box, exact-size heap buffers with guard units under "
              "ASan/UBSan, random longer strings, both overloads of the search functions); the spec is validated against glibc "
              "on the same inputs.")
LEVEL_NOTE = ("Trusted: Lean kernel + propext/Classical.choice/Quot.sound; the hand model's fidelity outside the explored inputs; "
              "g++-12/ASan/UBSan; glibc 2.36 as oracle for spec validation; the int -> character reduction, which model and "
              "spec share. The `#if defined(__clang__)` __builtin_* branches are not compiled (harness built "
              "with g++). The footprint theorems speak about the model (all its accesses are checked and a failed access "
              "cannot be recovered from); for the implementation the same is observed by ASan on the exact-size buffers. "
              "The two overloads of a search function instantiate one template with CharT / CharT const: they share one "
              "model and are compared with each other on every line. Every modelled function has a theorem "
              "(coverage.correspondence_only is empty).")
# functions modelled and compared on every run but without a Lean theorem: none (every modelled function has one).
CORRESPONDENCE_ONLY = []
# neither modelled nor executed by this check
UNPROVED_OBSERVED = ["NOT modelled and NOT executed here: the null-pointer TETL_PRECONDITIONs of strcpy/strncpy/memmove/strchr "
                     "(contract checks are off in this build; the C05 check executes them in both contract-checking builds, "
                     "`null fn=...` lines of harness/c05.cpp)",
                     "NOT compiled here: the `#if defined(__clang__)` builtin branches (see assumptions)"]


# ---- tie T for <cctype>: the 14 functions are regenerated from the clang AST on every run (gen/translate.py);
# TetlProofs/C18/PropsGen.lean is re-checked against the regenerated Tetl/C18/Gen.lean, and the driver runs the generated
# functions next to the hand model on every `ctype` line (a disagreement prints `...!gen=...`).
def regenerate(ctx):
    import os
    import sys
    import lib
    sys.path.insert(0, os.path.join(lib.VERIF, "gen"))
    import translate
    out = os.path.join(lib.LEAN, "Tetl", "C18", "Gen.lean")
    info = translate.translate(lib.REPO, out, translate.CCTYPE_JOBS, "#include <etl/cctype.hpp>\n", "Tetl.C18.Gen",
                               "include/etl/_cctype")
    outw = os.path.join(lib.LEAN, "Tetl", "C18", "GenW.lean")
    infow = translate.translate(lib.REPO, outw, translate.CWCTYPE_JOBS, "#include <etl/cwctype.hpp>\n", "Tetl.C18.GenW",
                                "include/etl/_cwctype")
    res = {"generated_files": [os.path.relpath(out, lib.VERIF), os.path.relpath(outw, lib.VERIF)],
           "hash": [lib.file_hash(out), lib.file_hash(outw)], "changed": info["changed"] or infow["changed"],
           "functions": info["functions"] + infow["functions"], "translator": info["translator"]}
    errs = info["errors"] + infow["errors"]
    if errs:
        res["error"] = "; ".join(errs)
    return res
