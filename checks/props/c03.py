"""C03 — each element is constructed once and destroyed once; no leak, no double destroy (DESIGN §4 C03).

A case is a history on two owner objects A (t=0) and B (t=1) of one type:
`new own=<owner> kind=<element kind> cap=N`, operation lines, `end` (both owners go out of scope).
Every operation line is answered on four sides with  e=<illegal transition or -> t=<live locals>
x=<owner slots whose liveness contradicts the owner's size/index> A=<owner> B=<owner>;  a `detail` line after
every operation compares the full slot map of both owners and the cumulative count of every kind of special
member call between implementation and model only (spec/std column `*`)."""
import concurrent.futures as cf
import itertools
import os
import random
import sys

import lib
from lib import Case, fmt_list

PROP = "C03"
DRIVER = "drv-c03"
PROOF_MODULES = ["TetlProofs.C03.Props"]
HARNESS = "harness/c03.cpp"
BASE_FLAGS = ["-O0", "-g1"]
HARNESS_FLAGS = list(BASE_FLAGS)
NPARTS = 6     # one translation unit per element kind (harness/c03.cpp: -DC03_PART=k), compiled in parallel by run()


def _build_parts():
    """compile the six element kinds of the harness in parallel; returns the object files.  An object file is reused when the
    preprocessed translation unit (every header of the tree under test expanded), the flags and the compiler are byte-identical
    to those it was compiled from: any change of the library gives a new key."""
    import hashlib
    os.makedirs(lib.BUILD, exist_ok=True)
    cache = os.path.join(lib.BUILD, "c03_objcache")
    os.makedirs(cache, exist_ok=True)
    flags = [f for f in lib.CXXFLAGS if f != "-g"] + BASE_FLAGS
    cxxv = lib.sh([lib.CXX, "--version"])[1]

    def one(k):
        base = [lib.CXX] + flags + ["-DC03_PART=%d" % k, "-I", os.path.join(lib.REPO, "include"), "-I", os.path.join(lib.VERIF, "harness")]
        src = os.path.join(lib.VERIF, HARNESS)
        rc, o, e = lib.sh(base + ["-E", src], timeout=600)
        if rc != 0:
            return None, rc, o[-200:] + e
        key = hashlib.sha256((cxxv + "\0" + " ".join(flags) + "\0" + o).encode()).hexdigest()[:32]
        out = os.path.join(cache, "part%d_%s.o" % (k, key))
        if os.path.exists(out):
            os.utime(out)
            return out, 0, "cached"
        tmp = out + ".%d.tmp" % os.getpid()
        rc, o, e = lib.sh(base + ["-c", src, "-o", tmp], timeout=1200)
        if rc == 0:
            os.replace(tmp, out)
        return out, rc, o + e

    with cf.ThreadPoolExecutor(max_workers=NPARTS) as ex:
        res = list(ex.map(one, range(NPARTS)))
    bad = [r for r in res if r[1] != 0]
    if bad:
        raise lib.MachineryError("harness does not compile against %s:\n%s" % (lib.REPO, bad[0][2][-1500:]))
    olds = sorted((os.path.join(cache, f) for f in os.listdir(cache)), key=os.path.getmtime)
    for f in olds[:-12 * NPARTS]:
        os.unlink(f)
    return [r[0] for r in res]


def run(ctx, replay=None):
    """standard flow of check.py, with the element kinds of the harness pre-compiled in parallel"""
    global HARNESS_FLAGS
    objs = _build_parts()
    HARNESS_FLAGS = BASE_FLAGS + ["-DC03_PART=-1"] + objs
    import check
    return check.standard(sys.modules[__name__], ctx, replay)
SOURCES = ["include/etl/_vector/static_vector.hpp", "include/etl/_inplace_vector/inplace_vector.hpp",
           "include/etl/_variant/variant.hpp", "include/etl/_variant/variadic_union.hpp",
           "include/etl/_optional/optional.hpp", "include/etl/_expected/expected.hpp",
           "include/etl/_functional/inplace_function.hpp", "include/etl/_set/static_set.hpp",
           "include/etl/_flat_set/flat_set.hpp", "include/etl/_stack/stack.hpp",
           "include/etl/_memory/uninitialized_copy.hpp", "include/etl/_memory/uninitialized_move.hpp",
           "include/etl/_memory/ranges_destroy.hpp", "include/etl/_memory/destroy_at.hpp",
           "include/etl/_utility/swap.hpp", "include/etl/_algorithm/rotate.hpp", "include/etl/_algorithm/move.hpp",
           "include/etl/_algorithm/remove_if.hpp", "include/etl/_algorithm/lower_bound.hpp"]
RULE = ("A case is a history on two owners A, B of one type, ended by the destruction of both. Owners: static_vector, "
        "inplace_vector, stack<static_vector>, static_set, flat_set<static_vector> (capacity 2,3,4), variant of 3 instrumented "
        "alternatives, optional, expected, inplace_function with 2 callable types; element kinds copy+move, move-only, "
        "copy-only with every special member user-provided (move-only cannot be stored in inplace_function), and three MIXED "
        "copy+move kinds in which some special members are defaulted (trivial, byte-wise, invisible to the registry) next to "
        "user-provided ones: da = defaulted copy/move assignment with user-provided constructors and destructor, dm = defaulted "
        "move constructor and move assignment with user-provided copy operations and destructor, dc = defaulted copy constructor "
        "and copy assignment with user-provided move operations and destructor — the kinds on which the owners' requires "
        "clauses (variant_trivially_copy/move_assignable, trivially-constructible / destructible clauses) decide between the "
        "owner's own special member and the defaulted one. For the mixed kinds variant / optional / expected are explored like "
        "the other kinds (every pair of operations from every pair of live alternatives); the quick tier runs the containers' "
        "one-step box at capacities 2,3 with a 14% sample of the operation pairs, and for inplace_function every single "
        "operation from every start with a 30% sample of the pairs; the thorough tier samples their depth-3 sequences at half "
        "the rate of the other kinds. Exhaustive part: for the containers, from EVERY pair of "
        "sizes (|A|,|B|) in [0,cap]^2 every member with every position / range / count it accepts (one-step box), and from "
        "every size pair every sequence of 2 (thorough: 3) operations of an alphabet of 12-19 letters that contains every "
        "copy/move/assign/swap/self form; for variant / optional / expected / inplace_function from EVERY pair of live "
        "alternatives every sequence of 2 (thorough: 3) operations over the full alphabet (all from/to index combinations of "
        "every emplace<J>(int / T const& / T&&), converting assignment v = t / v = move(t) / v = v[index_v<index()>], "
        "optional = T, copy/move construction and assignment, swap and self form; inplace_function also from a function object of a smaller capacity; for variant and "
        "inplace_function at depth 2 a pair of "
        "operations that each involve one owner only is run on the same owner, not on two different ones, where the two "
        "touch disjoint storage). Random part "
        "(VERIF_SEED): histories of 8-40 operations over all members, kept inside the documented preconditions by a "
        "reference simulation (the same predicates as Tetl.C03.vvalid/svalid/xvalid/fvalid). After EVERY operation the slot "
        "map of both owners, the number of live locals and the cumulative per-kind event counts are compared with the model. "
        "A case is non-trivial when at least one element was alive in an owner after some step; distinct = distinct case text.")
ASSUMPTIONS = ["the element type's user-provided special members are noexcept and have no other side effect than the registry update and "
               "the value; user-provided move operations reset their source, defaulted (trivial) ones copy the object representation "
               "and leave the source as it is",
               "mixed kinds: a defaulted special member is invisible; an object that came to life through a defaulted (trivial) "
               "constructor is adopted by the registry when a user-provided member first meets it or when the owner claims its slot "
               "after an operation, unless its bytes are those of a destroyed object (every destructor leaves a mark) — so for the "
               "kinds dm and dc an object created by a raw copy of bytes is indistinguishable from one created by the trivial "
               "constructor (it is what that constructor does); an object that is never destroyed, a destructor or a user-provided "
               "member on destroyed storage, a constructor over a live object and every event count of a user-provided member are "
               "still seen; every kind has a user-provided destructor (a trivial one would make the end of a lifetime unobservable)",
               "is_trivially_copy/move_constructible_v includes the destructor (g++ 12 builtin; static_asserts in the harness), so "
               "no harness kind takes the defaulted constructor path of variant / inplace_vector; the model and the theorems cover it",
               "an owner that was the source of a move is in the valid-but-unspecified state: the spec/std side prints `u` for it and "
               "histories only destroy it, give it a new value, or use it as the source/peer of copy, move and swap; the model "
               "still predicts its slots and event counts exactly",
               "self-MOVE-assignment of an owner is outside the valid histories (the standard leaves the value unspecified; "
               "static_vector empties itself, variant move-assigns the element to itself); inplace_function is the exception, its "
               "by-value operator= preserves the target and is explored",
               "move-assigning an element object that still holds its value to itself is an illegal transition (Cpp17MoveAssignable "
               "gives no guarantee for t = move(t)); on a moved-from object it is legal, which is what the generic swap(a, a) does",
               "std column: std::vector / std::set operations for the containers; for variant / optional / expected / function the "
               "postconditions of the standard written out (index and value after each operation)"]
TRUSTED = ["hand model Tetl/C03/Model.lean + Session.lean (event sequences, and which path — the owner's own special member or the "
           "defaulted one — the requires clauses select for the trait bits of the element kind) tied to the source by the "
           "correspondence run (R1: slot maps and per-kind event counts after every operation) on every run",
           "the instrumented element type and address registry of harness/c03.cpp",
           "spec Tetl/C03/Spec.lean validated against the std-side bookkeeping (R2) on every run"]
_P = "Tetl.C03.Props."
_VEC = [_P + "vec_step_safe", _P + "vec_reach_inv", _P + "vec_finish_balanced", _P + "vec_history_safe"]
_SET = [_P + "set_step_safe", _P + "set_reach_inv", _P + "set_history_safe"]
_ALT = [_P + "alt_step_safe", _P + "alt_reach_inv", _P + "alt_finish_balanced", _P + "alt_history_safe"]
_ALT_ASSIGN = _ALT + [_P + "alt_bytes_assign_unsafe_without_trivial_ctor", _P + "alt_traits_consistent"]
_FN = [_P + "fn_step_safe", _P + "fn_reach_inv", _P + "fn_finish_balanced", _P + "fn_history_safe"]
THEOREMS = {op: _VEC for op in
            ["push_c", "push_m", "emplace_back", "try_push_c", "try_push_m", "try_emplace_back", "pop", "ins_c", "ins_m",
             "ins_n", "ins_r", "emplace", "erase_at", "erase_range", "clear", "resize", "resize_v", "assign_n", "assign_r",
             "ctor_n", "ctor_nv", "ctor_r", "erase_if", "cctor", "mctor", "cassign", "massign", "cassign_self", "swap", "swap_self", "end", "new", "detail"]}
THEOREMS.update({op: _ALT for op in ["vemplace", "vemplace_c", "vemplace_m", "vassign_c", "vassign_m", "oassign_c", "oassign_m",
                                     "reset", "use"]})
THEOREMS.update({op: _SET for op in ["sins_c", "sins_m", "semplace", "erase_key", "extract", "replace"]})
THEOREMS["vassign_own"] = _ALT + [_P + "alt_assign_own_id"]
# variant = variant (also optional / expected): the path depends on the trait bits of the alternative type
_VEC_AND_ALT_ASSIGN = _VEC + [t for t in _ALT_ASSIGN if t not in _VEC]
THEOREMS.update({op: _FN for op in ["fctor_c", "fctor_m", "fassign_c", "fassign_m", "fconv_cc", "fconv_mc", "fconv_ca", "fconv_ma",
                                    "massign_self", "invoke"]})
THEOREMS["swap_self"] = _VEC + [_P + "vec_swap_self_id", _P + "alt_swap_self_id", _P + "fn_swap_self_id"]
THEOREMS["cassign_self"] = _VEC + [_P + "alt_copy_assign_self_id", _P + "fn_assign_self_id"]
for _op in ("cassign", "massign", "swap"):
    THEOREMS[_op] = _VEC_AND_ALT_ASSIGN
SEARCH_CAP = 300000

VEC_OWNERS = ["sv", "iv", "st", "ss", "fs"]
ALT_OWNERS = ["var", "opt", "exp"]
KINDS = ["cm", "mo", "co", "da", "dm", "dc"]
MIXED = ["da", "dm", "dc"]   # copy+move element types with some defaulted (trivial) special members


# ---------------------------------------------------------------- which members exist (mirrors the harness)

def vec_members(own, kind):
    cp = kind != "mo"
    m = ["mctor"]
    if cp:
        m.append("cctor")
    if own != "iv":
        if cp:
            m += ["cassign", "cassign_self", "massign", "swap", "swap_self"]
    if own != "st":
        m.append("clear")
    if own in ("sv", "iv", "st"):
        m += ["push_m", "emplace_back", "pop"] + (["push_c"] if cp else [])
    if own == "iv":
        m += ["try_push_m", "try_emplace_back"] + (["try_push_c"] if cp else [])
    if own == "sv":
        m += ["ins_m", "emplace", "resize", "erase_if", "ctor_n"] + \
            (["ins_c", "ins_n", "ins_r", "assign_r", "resize_v", "assign_n", "ctor_nv", "ctor_r"] if cp else [])
    if own in ("sv", "ss", "fs"):
        m += ["erase_at", "erase_range"]
    if own in ("ss", "fs"):
        m += ["sins_m", "erase_key"] + (["sins_c"] if cp else []) + (["semplace"] if cp or own == "fs" else [])
    if own == "fs":
        m.append("extract")
        if cp:
            m.append("replace")    # _container = move(c): static_vector has no move assignment for move-only elements
    return m


def alt_members(own, kind):
    cp = kind != "mo"
    m = ["vemplace", "vemplace_m", "mctor", "massign", "swap", "swap_self", "use"]
    if cp:
        m += ["vemplace_c", "cctor", "cassign", "cassign_self"]
    if own == "var":
        # the converting assignment `variant = T` (assign through / emplace) and `v = v[index_v<index()>]`
        m += ["vassign_m"] + (["vassign_c", "vassign_own"] if cp else [])
    if own == "opt":
        m += ["oassign_m", "reset"] + (["oassign_c"] if cp else [])
    return m


FN_MEMBERS = ["fctor_c", "fctor_m", "fassign_c", "fassign_m", "fconv_cc", "fconv_mc", "fconv_ca", "fconv_ma", "reset", "cctor", "mctor", "cassign", "massign",
              "cassign_self", "massign_self", "swap", "swap_self", "invoke"]
BINARY = {"cctor", "mctor", "cassign", "massign", "swap"}   # operations that read or write the other owner
RESPEC_VEC = {"clear", "assign_n", "assign_r", "ctor_n", "ctor_nv", "ctor_r", "replace", "cctor", "mctor", "cassign", "massign", "swap"}
RESPEC_ALT = {"vemplace", "vemplace_c", "vemplace_m", "vassign_c", "vassign_m", "oassign_c", "oassign_m", "reset", "cctor", "mctor", "cassign",
              "massign", "swap"}
FCONV = ("fconv_cc", "fconv_mc", "fconv_ca", "fconv_ma")   # from an inplace_function of a smaller capacity
RESPEC_FN = {"fctor_c", "fctor_m", "fassign_c", "fassign_m", "fconv_cc", "fconv_mc", "fconv_ca", "fconv_ma", "reset", "cctor", "mctor", "cassign", "massign", "swap"}


def alts_of(own):
    return {"var": [0, 1, 2], "opt": [1], "exp": [0]}[own]


# ---------------------------------------------------------------- reference simulation (validity only)

class VSim:
    """sizes, contents and the unspecified flag of two container owners; mirrors Tetl.C03.vvalid / svalid"""

    def __init__(self, own, cap):
        self.own, self.cap = own, cap
        self.d = [[], []]
        self.u = [False, False]

    def instances(self, op, t, rnd=None, full=False):
        """argument strings of `op` on target t that are valid now; all of them (full) or one at random"""
        o = 1 - t
        n = len(self.d[t])
        cap = self.cap
        if self.u[t] and op not in RESPEC_VEC:
            return []
        if op in ("cassign_self", "swap_self") and self.u[t]:
            return []
        val = (lambda: rnd.randint(1, 9)) if rnd else (lambda: 7)
        key = (lambda: rnd.randint(0, 5)) if rnd else None
        if op in ("push_c", "push_m", "emplace_back"):
            return ["v=%d" % val()] if n < cap else []
        if op.startswith("try_"):
            return ["v=%d" % val()]
        if op == "pop":
            return [""] if n > 0 else []
        if op in ("ins_c", "ins_m", "emplace"):
            if n >= cap:
                return []
            ps = range(n + 1) if full else [rnd.randint(0, n)]
            return ["pos=%d v=%d" % (p, val()) for p in ps]
        if op == "ins_n":
            if full:
                return ["pos=%d n=%d v=%d" % (p, c, val()) for p in range(n + 1) for c in range(cap - n + 1)]
            return ["pos=%d n=%d v=%d" % (rnd.randint(0, n), rnd.randint(0, cap - n), val())]
        if op == "ins_r":
            if full:
                return ["pos=%d xs=%s" % (p, fmt_list([val() + i for i in range(c)])) for p in range(n + 1) for c in range(cap - n + 1)]
            return ["pos=%d xs=%s" % (rnd.randint(0, n), fmt_list([val() for _ in range(rnd.randint(0, cap - n))]))]
        if op == "erase_at":
            if n == 0:
                return []
            return ["pos=%d" % p for p in (range(n) if full else [rnd.randrange(n)])]
        if op == "erase_range":
            if full:
                return ["f=%d l=%d" % (f, la) for f in range(n + 1) for la in range(f, n + 1)]
            f = rnd.randint(0, n)
            return ["f=%d l=%d" % (f, rnd.randint(f, n))]
        if op in ("resize", "resize_v", "assign_n", "ctor_n", "ctor_nv"):
            extra = " v=%d" % val() if op not in ("resize", "ctor_n") else ""
            return ["n=%d%s" % (c, extra) for c in (range(cap + 1) if full else [rnd.randint(0, cap)])]
        if op == "replace":
            # sorted, duplicate-free keys: the precondition of flat_set::replace
            if full:
                return ["xs=%s" % fmt_list(list(range(1, c + 1))) for c in range(cap + 1)]
            return ["xs=%s" % fmt_list(sorted(rnd.sample(range(6), rnd.randint(0, min(cap, 6)))))]
        if op in ("assign_r", "ctor_r"):
            if full:
                return ["xs=%s" % fmt_list([val() + i for i in range(c)]) for c in range(cap + 1)]
            return ["xs=%s" % fmt_list([val() for _ in range(rnd.randint(0, cap))])]
        if op == "erase_if":
            if full:
                return ["md=%d r=%d" % (md, r) for md in (2, 3) for r in range(md)]
            md = rnd.choice((2, 3))
            return ["md=%d r=%d" % (md, rnd.randrange(md))]
        if op in ("sins_c", "sins_m", "semplace", "erase_key"):
            return ["v=%d" % k for k in (range(6) if full else [key()])]
        if op == "swap" and self.u[t] and self.u[o]:
            return []
        return [""]

    def apply(self, op, t, args):
        o = 1 - t
        a = dict(kv.split("=") for kv in args.split()) if args else {}
        d, cap = self.d, self.cap
        iv = lambda k: int(a[k])
        lst = lambda k: [int(x) for x in a[k][1:-1].split(",") if x]
        if op in ("push_c", "push_m", "emplace_back"):
            d[t].append(iv("v"))
        elif op.startswith("try_"):
            if len(d[t]) < cap:
                d[t].append(iv("v"))
        elif op == "pop":
            d[t].pop()
        elif op in ("ins_c", "ins_m", "emplace"):
            d[t].insert(iv("pos"), iv("v"))
        elif op == "ins_n":
            d[t][iv("pos"):iv("pos")] = [iv("v")] * iv("n")
        elif op == "ins_r":
            d[t][iv("pos"):iv("pos")] = lst("xs")
        elif op == "erase_at":
            del d[t][iv("pos")]
        elif op == "erase_range":
            del d[t][iv("f"):iv("l")]
        elif op in ("clear", "extract"):
            d[t], self.u[t] = [], False
        elif op == "resize":
            d[t] = (d[t] + [0] * cap)[:iv("n")]
        elif op == "resize_v":
            d[t] = (d[t] + [iv("v")] * cap)[:iv("n")]
        elif op in ("assign_n", "ctor_nv"):
            d[t], self.u[t] = [iv("v")] * iv("n"), False
        elif op == "ctor_n":
            d[t], self.u[t] = [0] * iv("n"), False
        elif op in ("assign_r", "ctor_r", "replace"):
            d[t], self.u[t] = lst("xs"), False
        elif op == "erase_if":
            d[t] = [x for x in d[t] if x % iv("md") != iv("r")]
        elif op in ("sins_c", "sins_m", "semplace"):
            if iv("v") not in d[t] and len(d[t]) < cap:
                d[t] = sorted(d[t] + [iv("v")])
        elif op == "erase_key":
            d[t] = [x for x in d[t] if x != iv("v")]
        elif op in ("cctor", "cassign"):
            d[t], self.u[t] = list(d[o]), self.u[o]
        elif op in ("mctor", "massign"):
            d[t], self.u[t] = list(d[o]), self.u[o]
            self.u[o] = True
        elif op == "swap":
            d[t], d[o] = d[o], d[t]
            self.u[t], self.u[o] = self.u[o], self.u[t]


class XSim:
    """live alternative and unspecified flag of two variant-like owners / function wrappers"""

    def __init__(self, own):
        self.own = own
        self.u = [False, False]
        self.has = [False, False]

    def instances(self, op, t, rnd=None, full=False):
        o = 1 - t
        respec = RESPEC_FN if self.own == "fn" else RESPEC_ALT
        if self.u[t] and op not in respec:
            return []
        if op == "swap" and self.u[t] and self.u[o]:
            return []
        val = (lambda: rnd.randint(1, 9)) if rnd else (lambda: 7)
        if op in ("vemplace", "vemplace_c", "vemplace_m", "vassign_c", "vassign_m"):
            js = alts_of(self.own)
            return ["j=%d v=%d" % (j, val()) for j in (js if full else [rnd.choice(js)])]
        if op in ("fctor_c", "fctor_m", "fassign_c", "fassign_m") + FCONV:
            return ["j=%d v=%d" % (j, val()) for j in ((0, 1) if full else [rnd.randrange(2)])]
        if op in ("oassign_c", "oassign_m"):
            return ["v=%d" % val()]
        if op == "invoke":
            return [""] if self.has[t] else []
        return [""]

    def apply(self, op, t, args):
        o = 1 - t
        if self.own == "fn":
            h = self.has
            if op in ("fctor_c", "fctor_m", "fassign_c", "fassign_m") + FCONV:
                h[t] = True
            elif op == "reset":
                h[t] = False
            elif op in ("cctor", "cassign"):
                h[t] = h[o]
            elif op in ("mctor", "massign"):
                h[t], h[o] = h[o], False
            elif op == "swap":
                h[t], h[o] = h[o], h[t]
        if op in ("vemplace", "vemplace_c", "vemplace_m", "vassign_c", "vassign_m", "oassign_c", "oassign_m", "reset", "fctor_c", "fctor_m",
                  "fassign_c", "fassign_m") + FCONV:
            self.u[t] = False
        elif op in ("cctor", "cassign"):
            self.u[t] = self.u[o]
        elif op in ("mctor", "massign"):
            self.u[t] = self.u[o]
            self.u[o] = True
        elif op == "swap":
            self.u[t], self.u[o] = self.u[o], self.u[t]


def members_of(own, kind):
    if own == "fn":
        return FN_MEMBERS
    if own in ALT_OWNERS:
        return alt_members(own, kind)
    return vec_members(own, kind)


def new_sim(own, cap):
    return XSim(own) if own in ALT_OWNERS or own == "fn" else VSim(own, cap)


def fmt_op(op, t, args):
    return ("%s t=%d %s" % (op, t, args)).strip()


def finish(lines):
    out = [lines[0]]
    for ln in lines[1:]:
        out += [ln, "detail"]
    return out + ["end", "detail"]


def fill_lines(own, kind, cap, na, nb, sim):
    """operations that bring A and B to sizes na, nb with distinct ascending values"""
    lines = []
    v = 0
    for t, n in ((0, na), (1, nb)):
        for _ in range(n):
            v += 1
            if own in ("ss", "fs"):
                op, args = "sins_m", "v=%d" % (v % 6)
            else:
                op, args = ("emplace_back" if v % 2 else "push_m"), "v=%d" % v
            lines.append(fmt_op(op, t, args))
            sim.apply(op, t, args)
    return lines


def generate(tier, seed):
    rnd = random.Random(seed)
    thorough = tier == "thorough"
    cases = []
    dist = {}

    # self-test aid (mutants/C03): VERIF_C03_OWNERS=var,fn restricts the generated cases to these owners; unset = all
    only = [o for o in os.environ.get("VERIF_C03_OWNERS", "").split(",") if o]

    def add(lines, tag):
        if only and tag.split("/")[1] not in only:
            return
        cases.append(Case(finish(lines), tag))
        dist[tag] = dist.get(tag, 0) + 1

    # ---- containers: one-step box from every size pair, then short sequences over a reduced alphabet
    for own in VEC_OWNERS:
        if only and own not in only:
            continue
        for kind in KINDS:
            mem = vec_members(own, kind)
            mixed = kind in MIXED
            for cap in (2, 3, 4):
                if cap == 4 and not thorough and (own not in ("sv",) or mixed):
                    continue
                head = "new own=%s kind=%s cap=%d" % (own, kind, cap)
                for na in range(cap + 1):
                    for nb in range(cap + 1):
                        if own in ("ss", "fs") and (na > 5 or nb > 5):
                            continue
                        for op in mem:
                            for t in (0, 1):
                                if t == 1 and na == nb:
                                    continue
                                sim = new_sim(own, cap)
                                pre = fill_lines(own, kind, cap, na, nb, sim)
                                for args in sim.instances(op, t, None, full=True):
                                    add([head] + pre + [fmt_op(op, t, args)], "box/%s/%s" % (own, kind))
                # sequences
                if cap != 3:
                    continue
                depth = 3 if thorough else 2
                alpha = [m for m in mem if m in ("cctor", "mctor", "cassign", "massign", "cassign_self", "swap", "swap_self",
                                                 "clear", "push_m", "pop", "emplace", "erase_at", "erase_if", "ins_c",
                                                 "sins_m", "sins_c", "erase_key", "extract", "try_push_m", "resize", "replace",
                                                 "ctor_n")]
                shapes = [(0, 0), (1, 0), (2, 1), (3, 2), (3, 3), (0, 3)]
                for na, nb in shapes:
                    for seq in itertools.product([(m, t) for m in alpha for t in (0, 1)], repeat=depth):
                        if not thorough and rnd.random() > (0.14 if mixed else 0.35):
                            continue
                        if thorough and rnd.random() > (0.06 if mixed else 0.12):
                            continue
                        sim = new_sim(own, cap)
                        lines = [head] + fill_lines(own, kind, cap, na, nb, sim)
                        ok = True
                        for op, t in seq:
                            inst = sim.instances(op, t, rnd, full=False)
                            if not inst:
                                ok = False
                                break
                            lines.append(fmt_op(op, t, inst[0]))
                            sim.apply(op, t, inst[0])
                        if ok:
                            add(lines, "seq%d/%s/%s" % (depth, own, kind))

    # ---- variant-like owners and inplace_function: every sequence over the full alphabet from every index pair
    for own in ALT_OWNERS + ["fn"]:
        if only and own not in only:
            continue
        for kind in KINDS:
            if own == "fn" and kind == "mo":
                continue
            mem = members_of(own, kind)
            head = "new own=%s kind=%s cap=1" % (own, kind)
            if own == "fn":
                starts = [[], ["fassign_c t=0 j=0 v=3"], ["fassign_m t=0 j=1 v=4", "fassign_c t=1 j=0 v=5"],
                          ["fassign_c t=0 j=1 v=4", "fassign_m t=1 j=1 v=6"]]
            elif own == "var":
                starts = [[]] + [["vemplace t=0 j=%d v=3" % i, "vemplace_m t=1 j=%d v=5" % j] for i in range(3) for j in range(3)]
            elif own == "opt":
                starts = [[], ["vemplace t=0 j=1 v=3"], ["vemplace t=0 j=1 v=3", "vemplace_m t=1 j=1 v=5"], ["oassign_m t=1 v=4"]]
            else:
                starts = [[], ["vemplace t=0 j=0 v=3"], ["vemplace_m t=1 j=0 v=5"]]
            depth = 3 if thorough else 2
            mixed = kind in MIXED
            letters = []
            for m in mem:
                for t in (0, 1):
                    sim = new_sim(own, 1)
                    if own == "fn":
                        sim.has = [True, True]
                    for args in sim.instances(m, t, None, full=True) or [""]:
                        letters.append((m, t, args))
            if mixed and not thorough and own == "fn":
                # quick tier, mixed kinds, inplace_function: from every start EVERY single operation (exhaustive), pairs sampled below
                for st in starts:
                    for m, t, args in letters:
                        sim = new_sim(own, 1)
                        lines = [head]
                        for ln in st:
                            parts = ln.split(" ")
                            sim.apply(parts[0], int(parts[1][2:]), " ".join(parts[2:]))
                            lines.append(ln)
                        if sim.instances(m, t, None, full=True):
                            add(lines + [fmt_op(m, t, args)], "seq1/%s/%s" % (own, kind))
            for st in starts:
                for seq in itertools.product(letters, repeat=depth):
                    if depth == 3 and rnd.random() > {"var": 0.04, "fn": 0.08}.get(own, 0.25) * (0.5 if mixed else 1.0):
                        continue
                    if depth == 2 and mixed and own == "fn" and rnd.random() > 0.3:
                        continue
                    if depth == 2 and own in ("var", "fn") and seq[0][1] != seq[1][1] and not (seq[0][0] in BINARY or seq[1][0] in BINARY):
                        # two single-owner operations on different owners touch disjoint storage and commute; each of
                        # them is run from this start as the first letter of the sequences on its own target
                        continue
                    sim = new_sim(own, 1)
                    lines = [head]
                    for ln in st:
                        parts = ln.split(" ")
                        t = int(parts[1][2:])
                        sim.apply(parts[0], t, " ".join(parts[2:]))
                        lines.append(ln)
                    ok = True
                    for m, t, args in seq:
                        if not sim.instances(m, t, None, full=True):
                            ok = False
                            break
                        lines.append(fmt_op(m, t, args))
                        sim.apply(m, t, args)
                    if ok:
                        add(lines, "seq%d/%s/%s" % (depth, own, kind))

    # ---- converting assignment of a variant from its own live alternative (the former finding
    #      F-C03-variant-assign-own-alternative, fixed by e7501ef), also on a moved-from variant and after a self-swap
    for kind in ("cm", "co"):
        for j in range(3):
            for pre in ([], ["mctor t=1"], ["swap_self t=0"]):
                add(["new own=var kind=%s cap=1" % kind, "vemplace t=0 j=%d v=%d" % (j, 4 + j)] + pre + ["vassign_own t=0"],
                    "assignown/var/%s" % kind)

    # ---- random histories
    nrand = 12000 if thorough else 1500
    for _ in range(nrand):
        own = rnd.choice(VEC_OWNERS * 2 + ALT_OWNERS + ["fn"])
        kind = rnd.choice(KINDS if own != "fn" else ["cm", "co"] + MIXED)
        cap = rnd.choice((2, 3, 4)) if own in VEC_OWNERS else 1
        mem = members_of(own, kind)
        sim = new_sim(own, cap)
        lines = ["new own=%s kind=%s cap=%d" % (own, kind, cap)]
        target = rnd.randint(8, 40)
        tries = 0
        while len(lines) <= target and tries < 400:
            tries += 1
            op, t = rnd.choice(mem), rnd.randrange(2)
            inst = sim.instances(op, t, rnd, full=False)
            if not inst:
                continue
            lines.append(fmt_op(op, t, inst[0]))
            sim.apply(op, t, inst[0])
        add(lines, "random/%s/%s" % (own, kind))
    return cases, False, dist


def nontrivial(case, rows):
    for ln, r in zip(case.lines[1:], rows[1:]):
        if ln == "detail" and (":" in r.impl.split(" c=")[0]):
            return True
    return False


def classify(case, k, row):
    """no class of inputs is excluded: Tetl.C03.xvalid accepts every operation since the converting assignment of
    variant assigns through (e7501ef), so nothing is attributed to a known finding"""
    return None


def group_of(case):
    return "/".join(case.tag.split("/")[:2])


CLAIMED = True
TECHNIQUE = ("Lean 4 proof: slot-state machine (dead / live / moved-from per storage slot, typed by alternative) whose events "
             "are the special member calls the source performs; owner invariants and absence of every illegal transition by "
             "induction over histories; model tied to the code by an instrumented element type whose address registry and "
             "event counters are compared with the model after every operation")
LEVEL_TEXT = ("Storage is modelled as an arena of slots (dead, or live with the alternative type and an optional value; no value = "
              "moved-from) and every owner operation of static_vector, inplace_vector, stack, static_set, flat_set, variant (any "
              "number of alternatives), optional, expected and inplace_function as the exact sequence of element constructor / "
              "assignment / destructor calls the C++ source performs (emplace_back + the rotate swap cycle, move-down erase + "
              "destroy tail, uninitialized_copy/move, destroy + replace of variant emplace and cross-alternative assignment, assign-through of "
              "same-alternative variant assignment and converting assignment, the relocate/copy/destructor vtable entries "
              "of inplace_function, the generic three-move swap). Each event is a partial transition: constructing over a live "
              "object, using or assigning dead storage, destroying twice, using an object as another alternative and move-"
              "assigning a value-holding object to itself are errors. Lean 4 proves, with no bound on the history length, the "
              "capacity, the number of variant alternatives or the element kind — copy+move, move-only, copy-only, each with every "
              "combination of user-provided / defaulted-trivial copy constructor, move constructor, copy assignment, move assignment "
              "and destructor (a trivial move leaves its source as it is; the model takes the path the owners' requires clauses "
              "select for these bits: variant's own copy/move assignment or the defaulted byte-wise one, which is an error "
              "(not-destroyed / not-constructed) unless constructor and destructor are trivial; the defaulted move constructor of "
              "inplace_vector, which leaves the source's size alone) —, that from "
              "every reachable state every operation inside its documented precondition runs without any such error, leaves "
              "exactly the slots [0,size) (resp. the slot of the live alternative / stored callable) alive and every local dead, "
              "keeps #constructed = #destroyed + #alive, and that destroying the owners leaves nothing alive with #constructed = "
              "#destroyed; moved-from owners satisfy the same invariant; self copy-assignment and self-swap return the identical "
              "slot contents, and so does the converting assignment of a variant from its own live alternative (v = "
              "v[index_v<index()>], a copy self-assignment of the held object since the fix e7501ef; the only exclusion is the "
              "self-swap of a variant whose alternative type has a trivial move constructor next to a user-provided move "
              "assignment, a self-move of a value-holding element). A counterexample theorem shows that the byte-wise assignment "
              "is a lifetime error for an alternative with defaulted assignment but user-provided constructors (why "
              "variant_trivially_copy_assignable needs its is_trivially_copy_constructible half). "
              "The model is tied to the current source on every run: an instrumented element type records every "
              "special member call in an address registry (live / dead / moved-from / alternative) and the slot maps of both "
              "owners, the number of live locals and the cumulative count of each kind of call are compared with the model after "
              "every operation of exhaustive small-scope and random histories under ASan/UBSan, for six element kinds: three with "
              "every special member user-provided and three mixed ones (defaulted assignment / defaulted move operations / "
              "defaulted copy operations next to user-provided members), so that the paths selected by trivially-assignable "
              "traits are instantiated.")
LEVEL_NOTE = ("Trusted: Lean kernel + propext/Classical.choice/Quot.sound; fidelity of the hand model outside the explored histories "
              "(the control flow of the modelled members does not depend on element values except in the set lookups and erase_if); "
              "g++-12/ASan; the registry of the harness. Members in coverage.correspondence_only are modelled and compared on every "
              "run but have no theorem. pair/tuple hold their elements as data members: their lifetime is the language's and is not "
              "modelled.")
CORRESPONDENCE_ONLY = [
    "stack<T, static_vector>: push / emplace / pop / swap / copy / move forward to the container; the harness runs the real "
    "etl::stack, the model and the theorems are those of static_vector (the forwarding itself is tied by the correspondence run only)",
    "optional<T> and expected<T, E> are run as the real types and modelled as the variant<nullopt_t, T> / variant<T, E> they are "
    "implemented with (theorems hold for every number of alternatives and every set of instrumented alternatives); that the "
    "wrappers add no event of their own is observed by the correspondence run",
    "event ORDER inside one operation is not compared (slot maps, live locals and per-kind event counts after every operation are); "
    "an order that is not lifetime-correct is reported by the registry of the element type itself",
    "values: apart from self copy-assignment / self-swap (identical slot contents, proved) the theorems are about liveness, not about "
    "which value ends up where; values are compared with the model and the spec on every run (value-level theorems: C01, C07, C09, C20)",
    "not explored and not modelled: the c_array constructor of static_vector and the range constructor of static_set (they forward to "
    "move_insert / insert, which are; the sized, fill and range constructors of static_vector and flat_set::replace are modelled, "
    "proved and explored; inplace_vector has no sized / range constructor in this library), converting constructors of variant / optional / "
    "expected from a value, optional<T> = U and optional<T> = optional<U> for U other than T (the paths of optional.hpp that assign "
    "through since 48efb47; they need a second element type; optional<T> = T of class type assigns through / emplaces directly since fix 8cb2243 and is explored: optAssignValue), "
    "expected holding its error alternative (reachable only through unexpected / converting constructors), pair / tuple (members, language lifetime)",
    "static_vector of move-only elements has no move assignment and no swap (operator=(static_vector&&) is constrained on "
    "is_assignable<T&, T&>): those operations do not exist for the move-only kind and are absent from its histories",
]
