"""C09 — sets stay sorted and unique and answer like std::set (DESIGN §4 C09)."""
import itertools
import random

from lib import Case, fmt_list

PROP = "C09"
DRIVER = "drv-c09"
PROOF_MODULES = ["TetlProofs.C09.Props"]
HARNESS = "harness/c09.cpp"
HARNESS_FLAGS = ["-O0"]          # 24 template instantiations: -O1 costs 100 s, -O0 18 s
SOURCES = ["include/etl/_set/static_set.hpp", "include/etl/_flat_set/flat_set.hpp",
           "include/etl/_flat_set/flat_multiset.hpp", "include/etl/_flat_set/sorted_unique.hpp",
           "include/etl/_algorithm/lower_bound.hpp", "include/etl/_algorithm/upper_bound.hpp",
           "include/etl/_algorithm/equal_range.hpp", "include/etl/_algorithm/rotate.hpp",
           "include/etl/_algorithm/remove_if.hpp", "include/etl/_algorithm/gnome_sort.hpp",
           "include/etl/_vector/static_vector.hpp"]
RULE = ("A case is a history: `new kind cap cmp ctor init other` followed by operations on the current set. "
        "Configurations: static_set, flat_set<static_vector>, flat_set<inplace-vector-like> x capacity 3,4 x "
        "less<int>, greater<int>, less<>, greater<> (transparent, heterogeneous key type). Exhaustive part: from EVERY "
        "reachable set (every subset of the key universe with at most `cap` elements; universe 0..5, constructed "
        "through every constructor) (a) every lookup member x every key x homogeneous/heterogeneous x const/non-const "
        "overload, (b) every single modifier (insert via insert/move/emplace/hint of every key, range insert, erase by "
        "every key / every position / every range, clear, member and free swap, extract, replace), (c) every sequence of "
        "2 (thorough: 3 over universe 0..4) insert/erase-by-key operations; flat_multiset construction from every list "
        "over 3 values up to length 5 (6). Random part (VERIF_SEED): histories of 12-40 operations over all members. "
        "Every line compares result and full iteration order. A case is non-trivial when it contains an operation "
        "other than `new` that meets a non-empty set or changes the set; distinct = distinct case text.")
ASSUMPTIONS = ["std::set / std::multiset of libstdc++ 12 with the corresponding std comparator is the reference for spec "
               "validation (R2); capacity is emulated on the std side by refusing a new key when size()==cap",
               "keys are ints; for less/greater on ints comparator equivalence coincides with ==, which static_set::find(key) "
               "and flat_set::erase(key) rely on (they use operator==) — theorems carry this as the hypothesis `StrictTotal`",
               "histories respect the documented preconditions: erase positions/ranges inside the set, replace/sorted_unique "
               "input sorted, unique and within capacity, range constructor input within capacity"]
TRUSTED = ["hand model Tetl/C09/Model.lean tied to the source by the correspondence run (R1) on every run",
           "spec Tetl/C09/Spec.lean validated against libstdc++ std::set/std::multiset (R2) on every run",
           "the harness' minimal inplace-vector-like container (mini_vec) is test code, modelled by its contract"]
THEOREMS = {
    "insert": ["Tetl.C09.Props.ssInsert_eq", "Tetl.C09.Props.fsEmplace_eq", "Tetl.C09.Props.fiEmplace_eq",
               "Tetl.C09.Props.full_insert_new_key", "Tetl.C09.Props.run_refines"],
    "insert_range": ["Tetl.C09.Props.ssInsertRange_eq", "Tetl.C09.Props.fsInsertRange_eq", "Tetl.C09.Props.run_refines"],
    "erase_key": ["Tetl.C09.Props.ssEraseKey_eq", "Tetl.C09.Props.fsEraseKey_eq", "Tetl.C09.Props.run_refines"],
    "erase_at": ["Tetl.C09.Props.ssEraseAt_eq", "Tetl.C09.Props.run_refines"],
    "erase_range": ["Tetl.C09.Props.ssEraseRange_eq", "Tetl.C09.Props.run_refines"],
    "find": ["Tetl.C09.Props.ssFind_eq", "Tetl.C09.Props.findLB_eq"],
    "contains": ["Tetl.C09.Props.ssFind_eq", "Tetl.C09.Props.findLB_eq", "Tetl.C09.Props.step_refines"],
    "count": ["Tetl.C09.Props.ssFind_eq", "Tetl.C09.Props.findLB_eq", "Tetl.C09.Props.step_refines"],
    "lower_bound": ["Tetl.C09.Props.lowerBound_eq"],
    "upper_bound": ["Tetl.C09.Props.upperBound_eq"],
    "equal_range": ["Tetl.C09.Props.equalRange_eq"],
    "clear": ["Tetl.C09.Props.step_refines"], "swap": ["Tetl.C09.Props.step_refines"],
    "extract": ["Tetl.C09.Props.step_refines"], "replace": ["Tetl.C09.Props.step_refines"],
    "new": ["Tetl.C09.Props.ssInsertRange_eq", "Tetl.C09.Props.fsInsertRange_eq", "Tetl.C09.Props.inv_history"],
}
SEARCH_CAP = 400000

KINDS = ["ss", "fs", "fi"]
CMPS = ["less", "greater", "tless", "tgreater"]
CAPS = [3, 4]
LOOKUPS = ["find", "contains", "count", "lower_bound", "upper_bound", "equal_range"]


def asc(cmp):
    return cmp in ("less", "tless")


def order(cmp, xs):
    return sorted(set(xs), reverse=not asc(cmp))


class Sim:
    """reference simulation used only to keep generated histories inside their preconditions"""

    def __init__(self, cap, cmp, init, other):
        self.cap, self.cmp = cap, cmp
        self.cur, self.oth = [], []
        for k in init:
            self.insert(k)
        tmp = self.cur
        self.cur = []
        for k in other:
            self.insert(k)
        self.oth, self.cur = self.cur, tmp

    def insert(self, k):
        if k in self.cur:
            return "dup"
        if len(self.cur) >= self.cap:
            return "full"
        self.cur = order(self.cmp, self.cur + [k])
        return "new"


def subsets(universe, maxlen):
    for n in range(maxlen + 1):
        for t in itertools.combinations(universe, n):
            yield list(t)


def new_line(kind, cap, cmp, ctor, init, other=()):
    return "new kind=%s cap=%d cmp=%s ctor=%s init=%s other=%s" % (kind, cap, cmp, ctor, fmt_list(init), fmt_list(other))


def ctors(kind):
    return ["range"] if kind == "ss" else ["range", "cont", "su", "sur"]


def init_for(ctor, cmp, s, variant):
    """elements in the order handed to the constructor"""
    if ctor in ("su", "sur"):
        return order(cmp, s)
    o = order(cmp, s)
    if variant % 3 == 0:
        return o[::-1]
    if variant % 3 == 1:
        return o[1:] + o[:1]
    return o[::2] + o[1::2]


def lookup_lines(cmp, keys, het_ok=True):
    out = []
    for op in LOOKUPS:
        for k in keys:
            out.append("%s k=%d" % (op, k))
            if op in ("find", "lower_bound", "upper_bound", "equal_range"):
                out.append("%s k=%d cst=1" % (op, k))
            if het_ok and cmp.startswith("t"):
                out.append("%s k=%d het=1" % (op, k))
                if op in ("find", "lower_bound", "upper_bound", "equal_range"):
                    out.append("%s k=%d het=1 cst=1" % (op, k))
    out.append("riter")
    out.append("riter cst=1")
    return out


def modifiers(kind, cap, cmp, s, universe):
    """every single modifier applicable to the set s (as (lines, tag))"""
    n = len(s)
    out = []
    for k in universe:
        for via in ("insert", "move", "emplace"):
            out.append((["insert k=%d via=%s" % (k, via), "find k=%d" % k], "insert"))
        if kind != "ss":
            for pos in sorted({0, n}):
                out.append((["insert k=%d via=hint pos=%d" % (k, pos)], "insert_hint"))
            out.append((["insert k=%d via=hint pos=%d cst=1" % (k, n // 2)], "insert_hint"))
        out.append((["erase_key k=%d" % k, "contains k=%d" % k], "erase_key"))
    for pos in range(n):
        out.append((["erase_at pos=%d" % pos], "erase_at"))
        if kind != "ss":
            out.append((["erase_at pos=%d cst=1" % pos], "erase_at"))
    for f in range(n + 1):
        for la in range(f, n + 1):
            out.append((["erase_range first=%d last=%d" % (f, la)], "erase_range"))
    out.append((["clear", "insert k=%d" % universe[0]], "clear"))
    for via in ("member", "free"):
        out.append((["swap via=%s" % via, "riter", "swap via=%s" % via], "swap"))
    if kind != "ss":
        out.append((["extract", "insert k=%d" % universe[-1]], "extract"))
        for c in ([], universe[:1], universe[1:cap + 1], universe[-cap:]):
            out.append((["replace c=%s" % fmt_list(order(cmp, c)), "lower_bound k=%d" % universe[2]], "replace"))
    for ks in (universe, universe[::-1], [universe[1], universe[1], universe[3]], []):
        out.append((["insert_range ks=%s" % fmt_list(ks)], "insert_range"))
    return out


def generate(tier, seed):
    rnd = random.Random(seed)
    thorough = tier == "thorough"
    U = [0, 1, 2, 3, 4, 5]
    cases = []
    dist = {}

    def add(lines, tag):
        cases.append(Case(lines, tag))
        dist[tag] = dist.get(tag, 0) + 1

    variant = 0
    for kind in KINDS:
        for cap in CAPS:
            for cmp in CMPS:
                cfg = "%s/%d/%s" % (kind, cap, cmp)
                reach = list(subsets(U, cap))
                others = [[], [U[0]], U[1:cap + 1]]
                for s in reach:
                    # (a) every lookup from every reachable set, through every constructor
                    for ctor in ctors(kind):
                        variant += 1
                        add([new_line(kind, cap, cmp, ctor, init_for(ctor, cmp, s, variant))] + lookup_lines(cmp, U + [7]),
                            "lookup/" + cfg)
                    # (b) every single modifier from every reachable set
                    for lines, tag in modifiers(kind, cap, cmp, s, U):
                        variant += 1
                        ctor = ctors(kind)[variant % len(ctors(kind))]
                        add([new_line(kind, cap, cmp, ctor, init_for(ctor, cmp, s, variant), others[variant % 3])] + lines + ["riter"],
                            tag + "/" + cfg)
                # (c) every sequence of d insert/erase_key operations from every reachable set
                depth = 3 if thorough else 2
                V = U[:5] if thorough else U
                ops = ["insert k=%d" % k for k in V] + ["erase_key k=%d" % k for k in V]
                if kind == "ss" or cmp in ("less", "tgreater") or thorough:
                    for s in subsets(V, cap):
                        for seq in itertools.product(ops, repeat=depth):
                            add([new_line(kind, cap, cmp, "range", order(cmp, s)[::-1])] + list(seq), "seq%d/%s" % (depth, cfg))
    # flat_multiset construction
    for cmp in CMPS:
        for kind in ("fs", "fi"):
            for n in range((6 if thorough else 5) + 1):
                for t in itertools.product([0, 1, 2], repeat=n):
                    add(["mset kind=%s cmp=%s c=%s" % (kind, cmp, fmt_list(t))], "mset/" + cmp)
    for _ in range(20000 if thorough else 2000):
        c = [rnd.randrange(6) for _ in range(rnd.randint(0, 8))]
        add(["mset kind=%s cmp=%s c=%s" % (rnd.choice(("fs", "fi")), rnd.choice(CMPS), fmt_list(c))], "mset/rand")
    # random histories over all members
    branch = {"full": 0, "dup": 0, "new": 0, "erase_absent_with_successor": 0, "erase_present": 0}
    for _ in range(60000 if thorough else 6000):
        kind, cap, cmp = rnd.choice(KINDS), rnd.choice(CAPS), rnd.choice(CMPS)
        universe = U if rnd.random() < 0.8 else list(range(0, 12, 2))
        init = rnd.sample(universe, rnd.randint(0, cap))
        other = rnd.sample(universe, rnd.randint(0, cap))
        ctor = rnd.choice(ctors(kind))
        sim = Sim(cap, cmp, init, other)
        lines = [new_line(kind, cap, cmp, ctor, order(cmp, init) if ctor in ("su", "sur") else init, other)]
        for _ in range(rnd.randint(12, 40)):
            r = rnd.random()
            n = len(sim.cur)
            k = rnd.choice(universe)
            if r < 0.30:
                via = rnd.choice(["insert", "move", "emplace"] + (["hint"] if kind != "ss" else []))
                extra = " pos=%d" % rnd.randint(0, n) if via == "hint" else ""
                lines.append("insert k=%d via=%s%s" % (k, via, extra))
                branch[sim.insert(k)] += 1
            elif r < 0.45:
                lines.append("erase_key k=%d" % k)
                if k in sim.cur:
                    branch["erase_present"] += 1
                    sim.cur.remove(k)
                elif sim.cur and order(cmp, sim.cur + [k])[-1] != k:
                    branch["erase_absent_with_successor"] += 1
            elif r < 0.52 and n > 0:
                pos = rnd.randrange(n)
                lines.append("erase_at pos=%d%s" % (pos, " cst=1" if kind != "ss" and rnd.random() < 0.5 else ""))
                del sim.cur[pos]
            elif r < 0.58:
                f = rnd.randint(0, n)
                la = rnd.randint(f, n)
                lines.append("erase_range first=%d last=%d" % (f, la))
                del sim.cur[f:la]
            elif r < 0.60:
                lines.append("clear")
                sim.cur = []
            elif r < 0.66:
                lines.append("swap via=%s" % rnd.choice(("member", "free")))
                sim.cur, sim.oth = sim.oth, sim.cur
            elif r < 0.68 and kind != "ss":
                lines.append("extract")
                sim.cur = []
            elif r < 0.71 and kind != "ss":
                c = order(cmp, rnd.sample(universe, rnd.randint(0, cap)))
                lines.append("replace c=%s" % fmt_list(c))
                sim.cur = list(c)
            elif r < 0.75:
                ks = [rnd.choice(universe) for _ in range(rnd.randint(0, 5))]
                lines.append("insert_range ks=%s" % fmt_list(ks))
                for x in ks:
                    sim.insert(x)
            else:
                op = rnd.choice(LOOKUPS + ["riter"])
                if op == "riter":
                    lines.append("riter")
                else:
                    het = " het=1" if cmp.startswith("t") and rnd.random() < 0.5 else ""
                    cst = " cst=1" if op in ("find", "lower_bound", "upper_bound", "equal_range") and rnd.random() < 0.5 else ""
                    lines.append("%s k=%d%s%s" % (op, rnd.choice(universe + [universe[-1] + 1]), het, cst))
        add(lines, "random/%s" % kind)
    for b, v in branch.items():
        dist["random-branch:" + b] = v
    return cases, False, dist


def nontrivial(case, rows):
    for ln, r in zip(case.lines[1:], rows[1:]):
        if ln.startswith("mset"):
            continue
        if " n=0 " not in r.spec + " ":
            return True
    if case.lines[0].startswith("mset"):
        return len(case.lines[0].split("c=")[1]) > 4 and rows[0].spec != case.lines[0].split("c=")[1]
    return False


def classify(case, k, row):
    return None


def group_of(case):
    return case.tag.split("/")[0]


CLAIMED = True
TECHNIQUE = ("Lean 4 proof: hand model of static_set / flat_set members (binary-search loops, push_back + rotate swap cycle, "
             "move-down erase) refines a declarative sorted-list spec for all histories, capacities and strict total "
             "comparators; model tied to the code by exhaustive small-scope + random correspondence runs")
LEVEL_TEXT = ("The members of static_set and flat_set are modelled loop by loop over a plain list (lower_bound/upper_bound as the "
              "count/step loop, insertion as push_back + the rotate swap cycle, erase as move-down + shrink, every element access "
              "checked). Lean 4 proves, with no bound on history length, capacity or key type and for every strict total comparator, "
              "that every history of insert/emplace, range insert, erase by key/position/range, clear, swap, extract, replace and "
              "all lookups never leaves the vector (no .error), keeps the elements strictly ascending (hence unique) and within "
              "capacity, and returns exactly the (position, inserted) / erased-count / lookup answers of the declarative std::set "
              "spec; a new key in a full set returns `full` and leaves the set unchanged. The model is tied to the current source "
              "on every run by executing model and implementation on the same histories (exhaustive from every reachable set over "
              "6 keys, capacity 3-4, four comparators incl. transparent/heterogeneous, three backings; random long histories) under "
              "ASan/UBSan; the spec is validated against libstdc++ std::set/std::multiset on the same histories.")
LEVEL_NOTE = ("Trusted: Lean kernel + propext/Classical.choice/Quot.sound; the hand model's fidelity outside the explored inputs; "
              "g++-12/ASan; libstdc++ as oracle for spec validation; the comparator is assumed a strict total order whose equivalence "
              "is == (true for less/greater on integers). Members listed in coverage.correspondence_only are modelled and compared on "
              "every run but enter the history theorem through an explicitly stated container contract rather than a proved loop.")
# members modelled and compared on every run whose loop-level model has no Lean theorem (yet)
CORRESPONDENCE_ONLY = [
    "flat_multiset(KeyContainer) = gnome_sort (gnomeSort is modelled and compared with std::multiset on every run; "
    "the sorted-permutation theorem C09.multiset_sorted_perm of DESIGN §4 is not proved)",
    "swap: static_vector::swap / move assignment underneath static_set::swap and flat_set::swap are modelled as an exchange of the two lists",
    "clear / extract / replace: the container's clear() and move are modelled as list assignment",
    "heterogeneous (K const&) and const overloads: same C++ body as the homogeneous/non-const overload; the model uses one definition "
    "for both, so the theorems cover them only through the correspondence run (a key of another type is compared through lt on its value)",
    "insert(const_iterator hint, x) / emplace_hint: forwards to emplace; the hint is ignored by the model as by the code",
    "reverse iteration (rbegin/rend), empty(), max_size(), full(): observed by the harness on every line, no theorem",
    "flat_set over the harness' inplace-vector-like container: the container's emplace/erase are a stated contract (miniEmplace/miniErase), "
    "not tetl code; flat_set's own algorithm on top of it is proved (fiEmplace_eq, step_refines)",
    "constructors: range / container constructors are proved through ssInsertRange_eq / fsInsertRange_eq; the sorted_unique "
    "constructors take the container as is (precondition: sorted and unique)",
]
