"""C09 — sets stay sorted and unique and answer like std::set (DESIGN §4 C09)."""
import itertools
import random

from lib import Case, fmt_list

PROP = "C09"
DRIVER = "drv-c09"
PROOF_MODULES = ["TetlProofs.C09.Props"]
HARNESS = "harness/c09.cpp"
HARNESS_FLAGS = ["-O0"]          # 24 template instantiations: -O1 costs 100 s, -O0 18 s
SOURCES = ["include/etl/_set/static_set.hpp", "include/etl/_flat_set/flat_set.hpp",
           "include/etl/_flat_set/flat_multiset.hpp", "include/etl/_flat_set/sorted_unique.hpp",
           "include/etl/_algorithm/lower_bound.hpp", "include/etl/_algorithm/upper_bound.hpp",
           "include/etl/_algorithm/equal_range.hpp", "include/etl/_algorithm/rotate.hpp",
           "include/etl/_algorithm/sort.hpp", "include/etl/_algorithm/gnome_sort.hpp",
           "include/etl/_vector/static_vector.hpp"]
RULE = ("A case is a history: `new kind cap cmp ctor init other` followed by operations on the current set. "
        "Configurations: static_set, flat_set<static_vector>, flat_set<inplace-vector-like> x capacity 3,4 x "
        "less<int>, greater<int>, less<>, greater<> (transparent, heterogeneous key type), and for static_set / "
        "flat_set<static_vector> a comparator that is only a strict weak order (`hless`: integers ordered by k/2, so "
        "equivalent keys are not equal; key universe 0..7); flat_set<etl::inplace_vector> (kind fv) x capacity 3,4 x the five "
        "comparators with the members that compile over it (sorted_unique container constructor, all lookups, clear, "
        "extract, size/empty/max_size, relational operators), each from every reachable set. Exhaustive part: from EVERY "
        "reachable set (every subset of the key universe with at most `cap` elements; universe 0..5, constructed "
        "through every constructor) (a) every lookup member x every key x homogeneous/heterogeneous x const/non-const "
        "overload - heterogeneous keys of two kinds: HKey{v}, equivalent to at most one element, and the band key BKey{v} = {v, v+1}, "
        "equivalent to up to two elements (contains/count/lower_bound/upper_bound/equal_range; find is unspecified there) -, size()/empty()/full()/max_size() and the six relational operators against the other live set, "
        "(b) every single modifier (insert via insert/move/emplace/hint of every key, range insert, erase by "
        "every key / every position / every range, erase_if with six predicates (evens, odds, thirds, all, none), clear, "
        "member and free swap, extract, replace), (c) every sequence of "
        "2 (thorough: 3 over universe 0..4) insert / erase-by-key / erase_if(odd) operations; (c') the six relational operators "
        "on every ordered pair of reachable sets over 4 keys, all four set kinds; (d) the same as (a)-(c) from every reachable set of the "
        "strict-weak comparator; (e) the sorted_unique constructors on every sequence over 4 values of length 2-3 that "
        "violates their precondition (construction line only: the container is adopted as it is); flat_multiset "
        "construction (over static_vector, the inplace-vector-like container and etl::inplace_vector) from every list over 3 "
        "values up to length 5 (6) and, for the strict-weak comparator, over 4 values up "
        "to length 5 (inplace_vector: 4). Random part (VERIF_SEED): histories of 12-40 operations over all members. "
        "Every line compares result and full iteration order. A case is non-trivial when it contains an operation "
        "other than `new` that meets a non-empty set or changes the set; distinct = distinct case text.")
ASSUMPTIONS = ["std::set / std::multiset of libstdc++ 12 with the corresponding std comparator is the reference for spec "
               "validation (R2); capacity is emulated on the std side by refusing a new key when size()==cap",
               "the comparator is a strict weak ordering ([alg.sorting]/4) — the hypothesis `StrictWeak` of every theorem; "
               "no member depends on operator== agreeing with the comparator's equivalence any more (static_set::find(key) "
               "and flat_set::erase(key) did; repaired, findings F-C09-ss-find-eq / F-C09-fs-erase-key-eq)",
               "a heterogeneous key is consistent with the order of the set ([associative.reqmts] kl/ku/ke): hypothesis `HetOk`",
               "the relational operators compare with the element type's operator== / operator< (parameter `Elem` of the "
               "theorems: any two functions; the harness' element type is int); erase_if takes any predicate",
               "capacity < 2^64 in the three theorems about etl::inplace_vector members that store the size (C01 hypothesis)",
               "histories respect the documented preconditions: erase positions/ranges inside the set, replace/sorted_unique "
               "input sorted, unique and within capacity (decidable predicates Spec.valid / Spec.validCtor), range and "
               "container constructor input within capacity"]
TRUSTED = ["hand model Tetl/C09/Model.lean (flat_multiset: the C06 model of gnome_sort, Tetl/C06/Model/Sort.lean; erase_if / "
           "operator== / operator<: the C06 models of remove_if, equal, lexicographical_compare; inplace_vector members: the "
           "C01 model Tetl/C01/Model.lean) tied to the source by the correspondence run (R1) on every run",
           "spec Tetl/C09/Spec.lean validated against libstdc++ std::set/std::multiset (R2) on every run",
           "the harness' minimal inplace-vector-like container (mini_vec) is test code, modelled by its contract; the contract "
           "is proved to be what the C01 model of etl::static_vector computes (contract_is_static_vector)",
           "const and non-const overloads (and insert(const&)/insert(&&)/emplace; insert(first,last) and insert(sorted_unique, "
           "first,last), which forwards to it) share one "
           "model definition; each is exercised by the correspondence run (cst=1, via=move/emplace, su=1)"]
_P = "Tetl.C09.Props."
_LOOK = [_P + "lookup_eq", _P + "hlookup_eq", _P + "step_refines"]
THEOREMS = {
    "insert": [_P + "ssInsert_eq", _P + "fsEmplace_eq", _P + "fiEmplace_eq", _P + "fsInsertHint_eq",
               _P + "full_insert_new_key", _P + "run_refines"],
    "insert_range": [_P + "ssInsertRange_eq", _P + "fsInsertRange_eq", _P + "fiInsertRange_eq", _P + "run_refines"],
    "erase_key": [_P + "ssEraseKey_eq", _P + "fsEraseKey_eq", _P + "setEraseKey_eq", _P + "run_refines"],
    "erase_at": [_P + "ssEraseAt_eq", _P + "run_refines"],
    "erase_range": [_P + "ssEraseRange_eq", _P + "run_refines"],
    "find": [_P + "findLB_eq"] + _LOOK, "contains": _LOOK, "count": _LOOK,
    "lower_bound": [_P + "lowerBound_eq"] + _LOOK, "upper_bound": [_P + "upperBound_eq"] + _LOOK,
    "equal_range": [_P + "equalRange_eq"] + _LOOK,
    "clear": [_P + "clear_eq", _P + "step_refines"], "swap": [_P + "swap_eq", _P + "step_refines"],
    "extract": [_P + "extract_eq", _P + "step_refines"], "replace": [_P + "replace_eq", _P + "step_refines"],
    "riter": [_P + "riter_eq", _P + "step_refines"],
    "new": [_P + "construct_eq", _P + "construct_inv", _P + "inv_history"],
    "mset": [_P + "multiset_sorted_perm", _P + "multiset_eq_spec", _P + "multiset_eq_stable",
             _P + "multiset_eq_stable_contract", _P + "multiset_eq_stable_inplace_vector", _P + "multiset_spec_stable"],
    "erase_if": [_P + "setEraseIf_eq", _P + "xstep_refines", _P + "xrun_refines", _P + "xinv_history"],
    "cmp": [_P + "setEq_eq", _P + "setLt_eq", _P + "relOps_eq", _P + "xstep_refines", _P + "xrun_refines"],
    "sizes": [_P + "sizes_eq", _P + "sizes_consistent", _P + "xstep_refines", _P + "xrun_refines"],
}
# flat_set over etl::inplace_vector (kind=fv) and the container contract
THEOREMS["new"] += [_P + "fv_construct_eq", _P + "contract_is_static_vector", _P + "static_vector_models_agree"]
THEOREMS["new"] += [_P + "strictWeak_on_samples"]
THEOREMS["clear"] += [_P + "fv_clear_eq"]
THEOREMS["extract"] += [_P + "fv_extract_eq"]
SEARCH_CAP = 400000

KINDS = ["ss", "fs", "fi"]
CMPS = ["less", "greater", "tless", "tgreater"]
CAPS = [3, 4]
LOOKUPS = ["find", "contains", "count", "lower_bound", "upper_bound", "equal_range"]


def asc(cmp):
    return cmp in ("less", "tless", "hless")


def cls(cmp, k):
    """equivalence class of a key under the comparator (`hless` orders by k // 2)"""
    return k // 2 if cmp == "hless" else k


def order(cmp, xs):
    """the set std::set builds from inserting xs in this order: first key of each class, ascending"""
    first = {}
    for x in xs:
        first.setdefault(cls(cmp, x), x)
    return [first[c] for c in sorted(first, reverse=not asc(cmp))]


class Sim:
    """reference simulation used only to keep generated histories inside their preconditions"""

    def __init__(self, cap, cmp, init, other):
        self.cap, self.cmp = cap, cmp
        self.cur, self.oth = [], []
        for k in init:
            self.insert(k)
        tmp = self.cur
        self.cur = []
        for k in other:
            self.insert(k)
        self.oth, self.cur = self.cur, tmp

    def insert(self, k):
        if cls(self.cmp, k) in [cls(self.cmp, x) for x in self.cur]:
            return "dup"
        if len(self.cur) >= self.cap:
            return "full"
        self.cur = order(self.cmp, self.cur + [k])
        return "new"


def subsets(universe, maxlen):
    for n in range(maxlen + 1):
        for t in itertools.combinations(universe, n):
            yield list(t)


def new_line(kind, cap, cmp, ctor, init, other=()):
    return "new kind=%s cap=%d cmp=%s ctor=%s init=%s other=%s" % (kind, cap, cmp, ctor, fmt_list(init), fmt_list(other))


def ctors(kind):
    return ["range"] if kind == "ss" else ["range", "cont", "su", "sur"]


def init_for(ctor, cmp, s, variant):
    """elements in the order handed to the constructor"""
    if ctor in ("su", "sur"):
        return order(cmp, s)
    o = order(cmp, s)
    if variant % 3 == 0:
        return o[::-1]
    if variant % 3 == 1:
        return o[1:] + o[:1]
    return o[::2] + o[1::2]


ERASE_IFS = [(2, 0), (2, 1), (3, 0), (3, 2), (1, 0), (7, 6)]      # v % m == r: evens, odds, thirds, all, (almost) none


def lookup_lines(cmp, keys, het_ok=True, riter=True):
    out = ["sizes", "cmp"]
    for op in LOOKUPS:
        for k in keys:
            out.append("%s k=%d" % (op, k))
            if op in ("find", "lower_bound", "upper_bound", "equal_range"):
                out.append("%s k=%d cst=1" % (op, k))
            if het_ok and cmp.startswith("t"):
                out.append("%s k=%d het=1" % (op, k))
                if op in ("find", "lower_bound", "upper_bound", "equal_range"):
                    out.append("%s k=%d het=1 cst=1" % (op, k))
                # band key {k, k+1}: a heterogeneous key that is equivalent to up to two elements
                if op != "find":      # which of several equivalent elements find returns is unspecified
                    out.append("%s k=%d het=2" % (op, k))
                if op in ("lower_bound", "upper_bound", "equal_range"):
                    out.append("%s k=%d het=2 cst=1" % (op, k))
    if riter:
        out.append("riter")
        out.append("riter cst=1")
    return out


def modifiers(kind, cap, cmp, s, universe):
    """every single modifier applicable to the set s (as (lines, tag))"""
    n = len(s)
    out = []
    for k in universe:
        for via in ("insert", "move", "emplace"):
            out.append((["insert k=%d via=%s" % (k, via), "find k=%d" % k], "insert"))
        if kind != "ss":
            for pos in sorted({0, n}):
                out.append((["insert k=%d via=hint pos=%d" % (k, pos)], "insert_hint"))
            out.append((["insert k=%d via=hint pos=%d cst=1" % (k, n // 2)], "insert_hint"))
        out.append((["erase_key k=%d" % k, "contains k=%d" % k], "erase_key"))
    for pos in range(n):
        out.append((["erase_at pos=%d" % pos], "erase_at"))
        if kind != "ss":
            out.append((["erase_at pos=%d cst=1" % pos], "erase_at"))
    for f in range(n + 1):
        for la in range(f, n + 1):
            out.append((["erase_range first=%d last=%d" % (f, la)], "erase_range"))
    for m, r in ERASE_IFS:
        out.append((["erase_if m=%d r=%d" % (m, r), "sizes", "cmp"], "erase_if"))
    out.append((["clear", "sizes", "insert k=%d" % universe[0]], "clear"))
    for via in ("member", "free"):
        out.append((["swap via=%s" % via, "riter", "swap via=%s" % via], "swap"))
    if kind != "ss":
        out.append((["extract", "insert k=%d" % universe[-1]], "extract"))
        for c in ([], universe[:1], universe[1:cap + 1], universe[-cap:]):
            out.append((["replace c=%s" % fmt_list(order(cmp, c)), "lower_bound k=%d" % universe[2]], "replace"))
    for ks in (universe, universe[::-1], [universe[1], universe[1], universe[3]], []):
        out.append((["insert_range ks=%s" % fmt_list(ks)], "insert_range"))
    if kind != "ss":      # insert(sorted_unique, first, last): input sorted w.r.t. the comparator and unique
        for ks in (universe, universe[1:4], universe[::2], universe[-1:], []):
            out.append((["insert_range ks=%s su=1" % fmt_list(order(cmp, ks)), "sizes"], "insert_range"))
    return out


def generate(tier, seed):
    rnd = random.Random(seed)
    thorough = tier == "thorough"
    U = [0, 1, 2, 3, 4, 5]
    cases = []
    dist = {}

    def add(lines, tag):
        cases.append(Case(lines, tag))
        dist[tag] = dist.get(tag, 0) + 1

    variant = 0
    for kind in KINDS:
        for cap in CAPS:
            for cmp in CMPS:
                cfg = "%s/%d/%s" % (kind, cap, cmp)
                reach = list(subsets(U, cap))
                others = [[], [U[0]], U[1:cap + 1]]
                for s in reach:
                    # (a) every lookup from every reachable set, through every constructor
                    for ctor in ctors(kind):
                        variant += 1
                        add([new_line(kind, cap, cmp, ctor, init_for(ctor, cmp, s, variant))] + lookup_lines(cmp, U + [7]),
                            "lookup/" + cfg)
                    # (b) every single modifier from every reachable set
                    for lines, tag in modifiers(kind, cap, cmp, s, U):
                        variant += 1
                        ctor = ctors(kind)[variant % len(ctors(kind))]
                        add([new_line(kind, cap, cmp, ctor, init_for(ctor, cmp, s, variant), others[variant % 3])] + lines + ["riter"],
                            tag + "/" + cfg)
                # (c) every sequence of d insert/erase_key operations from every reachable set
                depth = 3 if thorough else 2
                V = U[:5] if thorough else U
                ops = ["insert k=%d" % k for k in V] + ["erase_key k=%d" % k for k in V] + ["erase_if m=2 r=1"]
                if kind == "ss" or cmp in ("less", "tgreater") or thorough:
                    for s in subsets(V, cap):
                        for seq in itertools.product(ops, repeat=depth):
                            add([new_line(kind, cap, cmp, "range", order(cmp, s)[::-1])] + list(seq), "seq%d/%s" % (depth, cfg))
    # (c') the six relational operators on EVERY pair of reachable sets over 4 keys (both orders occur as separate pairs)
    for kind in KINDS + ["fv"]:
        for cap in CAPS:
            for cmp in CMPS:
                for a in subsets(U[:4], cap):
                    for b in subsets(U[:4], cap):
                        if kind == "fv":
                            add([new_line(kind, cap, cmp, "su", order(cmp, a), order(cmp, b)), "cmp"], "cmp/%s/%d/%s" % (kind, cap, cmp))
                        else:
                            add([new_line(kind, cap, cmp, "range", a[::-1], b), "cmp", "swap", "cmp"], "cmp/%s/%d/%s" % (kind, cap, cmp))
    # (c'') flat_set over etl::inplace_vector (kind=fv): only the sorted_unique container constructor, the lookups, clear,
    #       extract, the size observers and the relational operators compile; each from every reachable set
    for cap in CAPS:
        for cmp in CMPS + ["hless"]:
            cfg = "fv/%d/%s" % (cap, cmp)
            if cmp == "hless":
                reach = []
                for n in range(cap + 1):
                    for classes in itertools.combinations(range(4), n):
                        for bits in itertools.product((0, 1), repeat=n):
                            reach.append([2 * c + b for c, b in zip(classes, bits)])
                keys = list(range(8)) + [9]
            else:
                reach = list(subsets(U, cap))
                keys = U + [7]
            for i, s in enumerate(reach):
                oth = reach[(7 * i + 3) % len(reach)]
                head = new_line("fv", cap, cmp, "su", order(cmp, s), order(cmp, oth))
                add([head] + lookup_lines(cmp, keys, riter=False), "lookup/" + cfg)
                add([head, "extract", "sizes", "cmp", "find k=%d" % keys[1]], "extract/" + cfg)
                add([head, "clear", "sizes", "cmp", "count k=%d" % keys[1]], "clear/" + cfg)
    # (d) a comparator that is only a strict weak order (`hless` orders by k // 2: equivalent keys need not be equal)
    U8 = list(range(8))
    for kind in ("ss", "fs"):
        for cap in CAPS:
            cfg = "%s/%d/hless" % (kind, cap)
            reps = []          # every reachable set: one representative of each chosen class
            for n in range(cap + 1):
                for classes in itertools.combinations(range(4), n):
                    for bits in itertools.product((0, 1), repeat=n):
                        reps.append([2 * c + b for c, b in zip(classes, bits)])
            others = [[], [U8[0]], U8[1:cap + 1]]
            for s in reps:
                for ctor in ctors(kind):
                    variant += 1
                    add([new_line(kind, cap, "hless", ctor, init_for(ctor, "hless", s, variant))] + lookup_lines("hless", U8 + [9]),
                        "lookup/" + cfg)
                for lines, tag in modifiers(kind, cap, "hless", s, U8):
                    variant += 1
                    ctor = ctors(kind)[variant % len(ctors(kind))]
                    add([new_line(kind, cap, "hless", ctor, init_for(ctor, "hless", s, variant), others[variant % 3])] + lines + ["riter"],
                        tag + "/" + cfg)
            if cap == 3 or thorough:
                ops = ["insert k=%d" % k for k in U8] + ["erase_key k=%d" % k for k in U8]
                for s in reps:
                    for seq in itertools.product(ops, repeat=2):
                        add([new_line(kind, cap, "hless", "range", s[::-1])] + list(seq), "seq2/" + cfg)
    # (e) sorted_unique constructors handed a sequence that is NOT sorted and unique (violated precondition): the
    #     container is adopted as it is; only the construction line is compared
    for kind, cmp in (("fs", "less"), ("fs", "greater"), ("fi", "less"), ("fi", "tgreater"), ("fs", "hless")):
        for ctor in ("su", "sur"):
            for n in range(2, 4):
                for t in itertools.product([0, 1, 2, 3], repeat=n):
                    if list(t) != order(cmp, t):
                        add([new_line(kind, 3, cmp, ctor, list(t))], "su_violated/%s/%s" % (kind, cmp))
    # flat_multiset construction
    for n in range(6):
        for t in itertools.product([0, 1, 2, 3], repeat=n):
            add(["mset kind=fs cmp=hless c=%s" % fmt_list(t)], "mset/hless")
            if n <= 4 or thorough:
                add(["mset kind=fv cmp=hless c=%s" % fmt_list(t)], "mset/hless")
    for cmp in CMPS:
        for kind in ("fs", "fi", "fv"):
            for n in range((6 if thorough else 5) + 1):
                for t in itertools.product([0, 1, 2], repeat=n):
                    add(["mset kind=%s cmp=%s c=%s" % (kind, cmp, fmt_list(t))], "mset/" + cmp)
    for _ in range(20000 if thorough else 2000):
        c = [rnd.randrange(6) for _ in range(rnd.randint(0, 8))]
        add(["mset kind=%s cmp=%s c=%s" % (rnd.choice(("fs", "fi", "fv")), rnd.choice(CMPS), fmt_list(c))], "mset/rand")
    # random histories over all members
    branch = {"full": 0, "dup": 0, "new": 0, "erase_absent_with_successor": 0, "erase_present": 0}
    for _ in range(60000 if thorough else 6000):
        kind, cap, cmp = rnd.choice(KINDS), rnd.choice(CAPS), rnd.choice(CMPS + ["hless"])
        universe = U if rnd.random() < 0.8 else list(range(0, 12, 2))
        if cmp == "hless":
            kind = "ss" if kind == "ss" else "fs"
            universe = list(range(10))
        init = rnd.sample(universe, rnd.randint(0, cap))
        other = rnd.sample(universe, rnd.randint(0, cap))
        ctor = rnd.choice(ctors(kind))
        sim = Sim(cap, cmp, init, other)
        lines = [new_line(kind, cap, cmp, ctor, order(cmp, init) if ctor in ("su", "sur") else init, other)]
        for _ in range(rnd.randint(12, 40)):
            r = rnd.random()
            n = len(sim.cur)
            k = rnd.choice(universe)
            if r < 0.30:
                via = rnd.choice(["insert", "move", "emplace"] + (["hint"] if kind != "ss" else []))
                extra = " pos=%d" % rnd.randint(0, n) if via == "hint" else ""
                lines.append("insert k=%d via=%s%s" % (k, via, extra))
                branch[sim.insert(k)] += 1
            elif r < 0.45:
                lines.append("erase_key k=%d" % k)
                eqv = [x for x in sim.cur if cls(cmp, x) == cls(cmp, k)]
                if eqv:
                    branch["erase_present"] += 1
                    sim.cur.remove(eqv[0])
                elif sim.cur and order(cmp, sim.cur + [k])[-1] != k:
                    branch["erase_absent_with_successor"] += 1
            elif r < 0.52 and n > 0:
                pos = rnd.randrange(n)
                lines.append("erase_at pos=%d%s" % (pos, " cst=1" if kind != "ss" and rnd.random() < 0.5 else ""))
                del sim.cur[pos]
            elif r < 0.58:
                f = rnd.randint(0, n)
                la = rnd.randint(f, n)
                lines.append("erase_range first=%d last=%d" % (f, la))
                del sim.cur[f:la]
            elif r < 0.60:
                lines.append("clear")
                sim.cur = []
            elif r < 0.66:
                lines.append("swap via=%s" % rnd.choice(("member", "free")))
                sim.cur, sim.oth = sim.oth, sim.cur
            elif r < 0.68 and kind != "ss":
                lines.append("extract")
                sim.cur = []
            elif r < 0.70 and kind != "ss":
                c = order(cmp, rnd.sample(universe, rnd.randint(0, cap)))
                lines.append("replace c=%s" % fmt_list(c))
                sim.cur = list(c)
            elif r < 0.73:
                m = rnd.randint(1, 4)
                rr = rnd.randrange(m)
                lines.append("erase_if m=%d r=%d" % (m, rr))
                sim.cur = [x for x in sim.cur if x % m != rr]
            elif r < 0.76:
                lines.append(rnd.choice(("cmp", "sizes")))
            elif r < 0.80:
                ks = [rnd.choice(universe) for _ in range(rnd.randint(0, 5))]
                if kind != "ss" and rnd.random() < 0.4:
                    ks = order(cmp, ks)
                    lines.append("insert_range ks=%s su=1" % fmt_list(ks))
                else:
                    lines.append("insert_range ks=%s" % fmt_list(ks))
                for x in ks:
                    sim.insert(x)
            else:
                op = rnd.choice(LOOKUPS + ["riter"])
                if op == "riter":
                    lines.append("riter")
                else:
                    het = (" het=1" if rnd.random() < 0.6 else " het=2") if cmp.startswith("t") and rnd.random() < 0.5 else ""
                    if het == " het=2" and op == "find":
                        het = " het=1"
                    cst = " cst=1" if op in ("find", "lower_bound", "upper_bound", "equal_range") and rnd.random() < 0.5 else ""
                    lines.append("%s k=%d%s%s" % (op, rnd.choice(universe + [universe[-1] + 1]), het, cst))
        add(lines, "random/%s" % kind)
    for b, v in branch.items():
        dist["random-branch:" + b] = v
    return cases, False, dist


def nontrivial(case, rows):
    for ln, r in zip(case.lines[1:], rows[1:]):
        if ln.startswith("mset"):
            continue
        if " n=0 " not in r.spec + " ":
            return True
    if case.lines[0].startswith("mset"):
        return len(case.lines[0].split("c=")[1]) > 4 and rows[0].spec != case.lines[0].split("c=")[1]
    return False


def classify(case, k, row):
    return None


def group_of(case):
    return case.tag.split("/")[0]


CLAIMED = True
TECHNIQUE = ("Lean 4 proof: hand model of static_set / flat_set members (binary-search loops, push_back + rotate swap cycle, "
             "move-down erase, the three-move static_vector::swap, container moves of extract/replace/constructors, remove_if + "
             "tail erase of erase_if, equal / lexicographical_compare of the relational operators, gnome sort "
             "of flat_multiset) refines a declarative sorted-list spec for all histories, capacities and strict weak "
             "orders incl. heterogeneous lookups; model tied to the code by exhaustive small-scope + random correspondence runs")
LEVEL_TEXT = ("The members of static_set and flat_set are modelled loop by loop over a plain list (lower_bound/upper_bound as the "
              "count/step loop, insertion as push_back + the rotate swap cycle, erase as move-down + shrink, swap as the three "
              "moves of static_vector::swap — each a clear + append loop + rotate —, extract/replace/constructors as the container "
              "moves they perform, erase_if as remove_if + erase of the tail, operator== / operator< as the equal / "
              "lexicographical_compare loops, size/empty/full/max_size as the forwards they are, reverse iteration, every element "
              "access checked). Lean 4 proves, with no bound on history "
              "length, capacity or key type and for every comparator that is a strict weak ordering (equivalent keys need not be "
              "equal), that every history of insert/emplace/insert(hint), range insert, erase by key/position/range, clear, swap, "
              "extract, replace, all lookups — the key_type overloads and the heterogeneous K const& overloads, the latter for any "
              "pair of comparison functions consistent with the order —, reverse iteration and (xrun_refines) erase_if with any "
              "predicate, the six relational operators against the other live set and the size observers never leaves the vector "
              "(no .error), "
              "keeps the elements strictly ascending (hence unique) and within capacity, and returns exactly the (position, "
              "inserted) / erased-count / lookup answers of the declarative std::set spec; a new key in a full set returns `full` "
              "and leaves the set unchanged; every constructor on input meeting its precondition builds the spec's set; "
              "flat_multiset(container) — over static_vector, the contract container and etl::inplace_vector — leaves exactly the "
              "STABLE sort of the container for every strict weak order (multiset_eq_stable: equivalent elements keep their container "
              "order, the sequence std::multiset builds; gnome sort swaps only adjacent elements strictly out of order). The members "
              "of flat_set over etl::inplace_vector that compile are written with the C01 model of inplace_vector and proved "
              "(fv_construct_eq, fv_clear_eq, fv_extract_eq); the container contract of the inplace-vector-like backing is proved equal "
              "to the C01 model of static_vector (contract_is_static_vector). The model is tied to the current source on every run by executing model and implementation on "
              "the same histories (exhaustive from every reachable set over 6 keys, capacity 3-4, four comparators incl. "
              "transparent/heterogeneous plus a strict-weak-only comparator over 8 keys, four backings; random long histories) "
              "under ASan/UBSan; the spec is validated against libstdc++ std::set/std::multiset on the same histories.")
LEVEL_NOTE = ("Trusted: Lean kernel + propext/Classical.choice/Quot.sound; the hand model's fidelity outside the explored inputs; "
              "g++-12/ASan; libstdc++ as oracle for spec validation; the comparator is assumed a strict weak ordering. Members "
              "listed in coverage.correspondence_only are compared on every run but have no loop-level theorem. Not provided by "
              "the library and therefore outside model and run: operator<=> of static_set / flat_set; every flat_set member over "
              "etl::inplace_vector that needs emplace(pos)/erase/assignment/rbegin of the container (inplace_vector has none: "
              "insert, emplace, erase, erase_if, replace, range and container constructors, reverse iteration do not compile).")
# members modelled and compared on every run whose loop-level model has no Lean theorem (yet)
CORRESPONDENCE_ONLY = [
    "sorted_unique constructors on input that violates their precondition: compared with 'the container is adopted as it is' "
    "on the construction line only (generator group su_violated); nothing is claimed about later operations",
]
