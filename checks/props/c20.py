"""C20 — pair, tuple and callable wrappers forward values and calls faithfully (DESIGN §4 C20)."""
import itertools
import os
import random
import sys

import lib
from lib import Case, fmt_list

PROP = "C20"
DRIVER = "drv-c20"
PROOF_MODULES = ["TetlProofs.C20.Props"]
HARNESS = "harness/c20.cpp"
BASE_FLAGS = ["-O0", "-g0"]             # ~2000 template instantiations on each of the two libraries
HARNESS_FLAGS = list(BASE_FLAGS)
# harness/c20.cpp is compiled as NPARTS translation units in parallel (-DC20_PART=k) by run() below; check.py then compiles
# main() (-DC20_PART=-1) and links them
NPARTS = 26


def _probe(code):
    """does this snippet compile against the tree under test? (a construct whose absence would stop the harness from compiling
    is switched by a macro, so that its loss is reported as a violation on a case line, not as a build failure)"""
    import subprocess
    import lib
    p = subprocess.run([lib.CXX, "-std=c++20", "-fsyntax-only", "-I", os.path.join(lib.REPO, "include"), "-x", "c++", "-"],
                       input=code, text=True, stdout=subprocess.PIPE, stderr=subprocess.PIPE)
    return p.returncode == 0


BASE_FLAGS.append("-DC20_HAS_IFN_MEMPTR=%d" % _probe(
    "#include <etl/functional.hpp>\nstruct S { int d; long q(int) & { return 0; } };\n"
    "etl::inplace_function<long(S&, int), 32> f{&S::q}; etl::inplace_function<int(S&), 32> g{&S::d};\n"
    "long use(S& s) { return f(s, 1) + g(s); }\n"))
BASE_FLAGS.append("-DC20_HAS_BF_MEMPTR_RV=%d" % _probe(
    "#include <etl/functional.hpp>\nstruct S { int d; long q(int) && { return 0; } long c(int) const&& { return 0; } };\n"
    "long use(S s) { auto g = etl::bind_front(&S::q, s); auto const h = etl::bind_front(&S::c, s); auto m = etl::bind_front(&S::d, s);\n"
    "  auto const n = etl::bind_front(&S::d, s); int v = etl::move(m)() + etl::move(n)(); return etl::move(g)(1) + etl::move(h)(2) + v; }\n"))
BASE_FLAGS.append("-DC20_HAS_BF_MEMPTR_LV=%d" % _probe(
    "#include <etl/functional.hpp>\nstruct S { int d; long q(int) & { return 0; } };\n"
    "long use(S s) { auto g = etl::bind_front(&S::q, s); auto m = etl::bind_front(&S::d, s); return g(1) + m(); }\n"))
BASE_FLAGS.append("-DC20_HAS_TCAT0=%d" % _probe("#include <etl/tuple.hpp>\nauto use() { return etl::tuple_cat(); }\n"))
BASE_FLAGS.append("-DC20_HAS_MFT_NARROW=%d" % _probe(
    "#include <etl/tuple.hpp>\n#include <etl/utility.hpp>\nstruct A { int a; int b; int c; }; struct N { N(short, short) {} };\n"
    "int use(long x) { auto a = etl::make_from_tuple<A>(etl::tuple<long, long>{x, x}); auto n = etl::make_from_tuple<N>(etl::tuple<int, int>{int(x), 2});\n"
    "  (void)n; return a.a; }\n"))
HARNESS_FLAGS = list(BASE_FLAGS)


def _build_parts():
    """compile the translation units of the harness in parallel; returns the object files.  An object file is reused when
    the preprocessed translation unit (every header of the tree under test expanded), the flags and the compiler are
    byte-identical to those it was compiled from: any change of the library or of the harness gives a new key."""
    import concurrent.futures as cf
    import hashlib
    os.makedirs(lib.BUILD, exist_ok=True)
    cache = os.path.join(lib.BUILD, "c20_objcache")
    os.makedirs(cache, exist_ok=True)
    flags = list(lib.CXXFLAGS) + BASE_FLAGS
    cxxv = lib.sh([lib.CXX, "--version"])[1]
    src = os.path.join(lib.VERIF, HARNESS)

    def one(k):
        base = [lib.CXX] + flags + ["-DC20_PART=%d" % k, "-I", os.path.join(lib.REPO, "include"), "-I", os.path.join(lib.VERIF, "harness")]
        rc, o, e = lib.sh(base + ["-E", src], timeout=600)
        if rc != 0:
            return None, rc, o[-200:] + e
        key = hashlib.sha256((cxxv + "\0" + " ".join(flags) + "\0" + o).encode()).hexdigest()[:32]
        out = os.path.join(cache, "part%d_%s.o" % (k, key))
        if os.path.exists(out):
            os.utime(out)
            return out, 0, "cached"
        tmp = out + ".%d.tmp" % os.getpid()
        rc, o, e = lib.sh(base + ["-c", src, "-o", tmp], timeout=1800)
        if rc == 0:
            os.replace(tmp, out)
        return out, rc, o + e

    with cf.ThreadPoolExecutor(max_workers=NPARTS) as ex:
        res = list(ex.map(one, range(NPARTS)))
    bad = [r for r in res if r[1] != 0]
    if bad:
        raise lib.MachineryError("harness does not compile against %s:\n%s" % (lib.REPO, bad[0][2][-1500:]))
    olds = sorted((os.path.join(cache, f) for f in os.listdir(cache)), key=os.path.getmtime)
    for f in olds[:-8 * NPARTS]:
        os.unlink(f)
    return [r[0] for r in res]


def run(ctx, replay=None):
    """standard flow of check.py, with the translation units of the harness pre-compiled in parallel"""
    global HARNESS_FLAGS
    objs = _build_parts()
    HARNESS_FLAGS = BASE_FLAGS + ["-DC20_PART=-1"] + objs
    import check
    return check.standard(sys.modules[__name__], ctx, replay)


SOURCES = ["include/etl/_utility/pair.hpp", "include/etl/_tuple", "include/etl/_functional/invoke.hpp",
           "include/etl/_functional/inplace_function.hpp", "include/etl/_functional/function_ref.hpp",
           "include/etl/_functional/reference_wrapper.hpp", "include/etl/_functional/bind_front.hpp",
           "include/etl/_functional/not_fn.hpp", "include/etl/_utility/forward.hpp", "include/etl/_utility/forward_like.hpp"]
RULE = ("Stateless lines: (pair cmp) every pair of pairs over {0,1,2} for int elements and over {0,1,NaN} for double elements, all six "
        "relations; the same for pair<KP,KP>, pair<KP,int> and pair<int,KP> where KP is a key + payload class (operator< on the key "
        "alone, operator== on key and payload, no operator<=>: std::pair synthesises the three-way comparison from <) with all KP "
        "values from keys {0,1} x payloads {0,1}, i.e. including first / second elements that are equivalent and not equal, plus 400 "
        "(thorough 4000) random lines of which half have equivalent firsts; (pair value ops) 23 operations (default construction, construct from lvalues/rvalues, copy, move, converting "
        "copy/move, copy/move/converting assignment, member/free/self swap, make_pair, get<I> through the four reference "
        "qualifications, get<T> through lvalue / const lvalue / rvalue, structured binding) x all 36 combinations of element kinds "
        "{int, instrumented copy+move class, move-only, copy-only, int&, int const}; (pair with reference-to-class elements) the "
        "same 23 operations x 16 combinations of the element kinds {instrumented&, instrumented const&} with each other and with "
        "{int, instrumented class, int&} - construction binds the reference (no copy, nothing moved), assignment assigns through "
        "it, and forward<T&> of a source element is an lvalue (1 counted copy, the referent keeps its value); (pair converting "
        "assignment between different element kinds) xassign `a = as_const(b)` and xmassign `a = move(b)` for 10 (destination "
        "kinds, source kinds) combinations: pair<Trk,Trk> from pair<Trk&,Trk&> / pair<Trk const&,Trk const&> / pair<Trk,Trk&>, "
        "pair<Trk&,Trk&> from pair<Trk,Trk> / pair<Trk const&,..>, per-element mixed forms, pair<int,int&> from pair<int&,int>, and "
        "one non-assignable destination (n/a), plus 600 (thorough 6000) random lines over these; (tuple) equality of every pair of tuples over "
        "{0,1,2} with arity 0..3, and of tuples of KP elements (arity 1, 2 over 4 values, arity 3 over 3 values: equivalent-but-unequal "
        "elements must compare unequal); 31 value operations (the pair's, plus make_from_tuple, forward_as_tuple, tie, tie(...) = t, "
        "construction from a pair; converting constructors / assignments widen / narrow the int elements and keep the others) x 56 "
        "element-kind lists: every list of length 1 and 2 (all 36 combinations), the 6 uniform triples and 8 mixed triples in "
        "which every kind occurs at every position; apply through the four tuple categories x the four callee categories and with "
        "a pointer to member function / data whose object is the first element; tuple_cat of 0..3 tuples of arity 1..2 of every "
        "uniform kind and of 7 mixed-kind combinations, handed over as lvalues, const lvalues, rvalues and const rvalues; (invoke) "
        "function / function pointer / lambda / function object in four categories with 0..2 forwarded arguments in all category "
        "combinations / member function and member data pointers through object, derived object, reference_wrapper, pointer, "
        "pointer to derived; (function_ref<R(Args...)> and <R(Args...) noexcept> incl. const-rvalue arguments, called directly, "
        "through a copy, after an assignment; reference_wrapper call / copy / rebind / ref(reference_wrapper), "
        "cref(reference_wrapper); bind_front with 0..2 bound arguments - each a plain object bound from an lvalue or an rvalue, or a "
        "reference_wrapper - and 0..2 call arguments, the wrapper called directly, through a copy and through a move-constructed "
        "wrapper, and bind_front of a pointer to member with the object / a pointer / a pointer to const / a reference_wrapper "
        "bound; not_fn called directly, through a copy, through a moved wrapper, around a pointer to member, and the stateless "
        "not_fn<ConstFn>() around a function, a member function and a data member; inplace_function around a pointer to member "
        "function / data) every wrapper qualification x every argument category combination; (mft) make_from_tuple<T> for 8 target "
        "kinds that tell T(x...) from T{x...} (constructors only; + initializer_list<int>; + initializer_list<long>; + a non-viable "
        "initializer_list<Tag>; an aggregate; explicit constructors; an aggregate of ints from long elements and short parameters "
        "from int elements, i.e. narrowing) x arity 0..3 x the four tuple categories, from a tuple and from a pair, observed: which "
        "constructor ran and what it received; and the list-initialisation T{x...} itself compiled directly (form=brace) to validate "
        "Spec.listInit against the compiler.  Observed per line: values, what a "
        "move leaves in the source (-1 for instrumented elements), the number of copies, the call log (target, category of the "
        "target object, per argument the category seen by a forwarding parameter, whether it arrived as a reference_wrapper, and "
        "its value) and the result.  Histories on inplace_function: 6 named objects of three specialisations (0..2 capacity 32, 3..4 "
        "capacity 16, 5 capacity 24 / alignment 8), closures of 5 sizes up to the capacity, trivially and non-trivially copyable; "
        "conversion matrix: (destination, source) over every pair of specialisations that compiles (same type 0<-1, 3<-4; smaller "
        "source 0<-3, 0<-5, ...; a larger source capacity is a static_assert failure) x source {empty, holding one of 3 closure "
        "types} x destination {empty, holding} x source expression {non-const lvalue, const lvalue, rvalue, const rvalue} x "
        "{construction, assignment}, then operator bool / == nullptr / != nullptr and calls of both objects; self-assignment "
        "through the four categories; exhaustive: every sequence of 3 (thorough: 4) operations from an "
        "alphabet of 21 (construct from closure / empty / copy / move, copy/move/self assignment, reset, member swap, free swap, "
        "self-swap, call), each followed by a call of every object, operator bool, == nullptr and != nullptr; random (VERIF_SEED): "
        "histories of 10-40 operations over all operations (source categories included), objects and closure types.  Observed per line: result or "
        "bad_function_call, emptiness of every object, number of live closure objects (lifetime registry), the call log.  A case is "
        "non-trivial when its expected output is not `n/a` and, for a history, when it contains a call of a non-empty object; "
        "distinct = distinct case text.")
ASSUMPTIONS = ["libstdc++ 12 std::pair / std::tuple / std::invoke / std::reference_wrapper / std::bind_front / std::not_fn / std::function "
               "are the reference for spec validation (R2); std::function stands in for the owning wrapper: a moved-from std::function "
               "is empty in libstdc++ (the standard leaves it unspecified), as the spec requires of inplace_function",
               "function_ref has no std counterpart in C++20: the reference is the direct call P0792 prescribes; the stateless "
               "not_fn<ConstFn>() (C++26) has none in libstdc++ 12: the reference is !std::invoke(ConstFn, args...)",
               "for element types with unordered values (double with NaN) the pair relations are claimed only outside the input class "
               "Spec.unorderedPair (known finding F-C20-pair-rel-unordered; the class is exact: pair_rels_dbl_iff)",
               "an object is not copy- or move-constructed from itself (precondition `Spec.valid`)",
               "inplace_function: construction / assignment from a specialisation of LARGER capacity or stricter alignment is a "
               "static_assert failure of the header (is_valid_inplace_destination), i.e. not a program: not generated",
               "make_from_tuple target kinds: at most three tuple elements (the constructors the target types of the harness have)"]
TRUSTED = ["hand model Tetl/C20/Model.lean tied to the source by the correspondence run (R1) on every run",
           "spec Tetl/C20/Spec.lean validated against libstdc++ (R2) on every run",
           "the instrumented element and callable types of harness/c20.cpp (copy counter, moved-from marker, call log, lifetime registry)",
           "value categories as TYPES (decltype of get/invoke/apply/... results) are checked only by the static_assert matrix of "
           "harness/c20.cpp against libstdc++ at harness compile time; no Lean statement covers them",
           "the models of invoke / reference_wrapper / function_ref / bind_front / not_fn / apply are transcriptions of one-line headers: "
           "their theorems are immediate, so for these wrappers the evidence is the correspondence run (impl = model, spec = libstdc++), "
           "not the proof"]
SEARCH_CAP = 400000

KINDS = [0, 1, 2, 3, 4, 5]
PAIR_OPS = ["dflt", "ctor", "ctorr", "copy", "move", "assign", "massign", "swap", "fswap", "selfswap", "make", "maker",
            "get", "getc", "getr", "getcr", "sb", "conv", "convr", "cassign", "cmassign", "gett", "gettr"]
# pair lines only: element kinds 6 (reference to the instrumented class) and 7 (const reference to it); harness/c20.cpp pair_k2 /
# pairx_line instantiate them with each other and with the partner kinds {int, instrumented class, int&}
PAIR_REF_KINDS = [6, 7]
PAIR_REF_PARTNERS = [0, 1, 4]
PAIR_REF_COMBOS = ([[k1, k2] for k1 in PAIR_REF_KINDS for k2 in PAIR_REF_KINDS]
                   + [c for r in PAIR_REF_KINDS for q in PAIR_REF_PARTNERS for c in ([r, q], [q, r])])
# converting assignment between pairs of different element kinds (harness/c20.cpp pair_xline): (destination kinds, source kinds)
XOPS = ["xassign", "xmassign"]
XKINDS = [([1, 1], [6, 6]), ([6, 6], [1, 1]), ([1, 1], [7, 7]), ([6, 6], [7, 7]), ([6, 1], [1, 6]), ([1, 6], [6, 6]),
          ([1, 6], [1, 7]), ([0, 4], [4, 0]), ([7, 1], [1, 1]), ([1, 1], [1, 6])]
TUPLE_OPS = ["dflt", "ctor", "ctorr", "copy", "move", "assign", "massign", "swap", "fswap", "selfswap", "make", "maker",
             "get", "getc", "getr", "getcr", "sb", "gett", "gettr", "mft", "mftr", "fwd", "tie", "tieassign", "tiemassign",
             "conv", "convr", "cassign", "cmassign", "convp", "convpr"]
# element-kind lists of the tuples (the lists harness/c20.cpp tuple_kinds instantiates): every list of length 1 and 2, the
# uniform triples and eight mixed triples in which every kind occurs at every position
TUPLE_KINDS = ([[k] for k in KINDS] + [[k1, k2] for k1 in KINDS for k2 in KINDS] + [[k, k, k] for k in KINDS]
               + [[0, 2, 4], [1, 3, 5], [4, 1, 2], [5, 0, 3], [2, 5, 1], [3, 4, 0], [1, 2, 3], [0, 4, 5]])
# tuple_cat of tuples of different kinds (harness/c20.cpp tcat_line): (kinds of the flattened elements, arities)
TCAT_MIXED = [([0, 2, 4, 3, 5], [2, 1, 2]), ([1, 2, 1], [1, 2]), ([5, 4, 1, 3, 0], [2, 2, 1]), ([3, 1, 4, 5], [2, 2]),
              ([4, 4, 1], [1, 2]), ([5, 0, 5, 2], [1, 2, 1]), ([1, 0, 3], [2, 1])]
TYPEQ = ["make_pair_unwraps_refwrap", "make_tuple_unwraps_refwrap", "tuple_cat_value_types", "tuple_cat_keeps_ref",
         "tuple_cat_keeps_nested", "tuple_copy_assignable", "tuple_move_assignable", "tuple_get_by_type",
         "tuple_structured_binding", "pair_ref_copy_assignable", "pair_get_by_type", "tuple_converting_ctor", "tuple_cat_no_args",
         "tuple_cat_pair_elements"]
TYPE_FINDINGS = {}
NAN = 9


def cat_lists(n):
    return [list(t) for t in itertools.product(range(4), repeat=n)]


def ifn_alphabet():
    ops = []
    ops += ["ifn op=ctor_fn i=0 ty=5 id=4", "ifn op=ctor_fn i=1 ty=8 id=7", "ifn op=ctor_empty i=0"]
    ops += ["ifn op=ctor_copy i=0 j=1", "ifn op=ctor_copy i=1 j=0", "ifn op=ctor_move i=0 j=1", "ifn op=ctor_move i=1 j=0"]
    ops += ["ifn op=assign i=0 j=1", "ifn op=assign i=1 j=0", "ifn op=assign i=0 j=0"]
    ops += ["ifn op=massign i=0 j=1", "ifn op=massign i=1 j=0", "ifn op=massign i=0 j=0"]
    ops += ["ifn op=assign_null i=0", "ifn op=assign_fn i=1 ty=3 id=2", "ifn op=swap i=0 j=1", "ifn op=swap i=0 j=0", "ifn op=fswap i=1 j=1",
            "ifn op=fswap i=1 j=0"]
    ops += ["ifn op=call i=0 x=1", "ifn op=call i=1 x=2"]
    return ops


TAIL = ["ifn op=call i=0 x=5", "ifn op=call i=1 x=6", "ifn op=bool i=0", "ifn op=eqnull i=1", "ifn op=nenull i=0"]


# the named inplace_function objects of a history: class 0 = capacity 32 (objects 0..2), class 1 = capacity 16 (3..4),
# class 2 = capacity 24 / alignment 8 (5); closure types ty = 2*sizeIndex + nontrivial, sizes 8, 12, 16, 24, 32
IFN_OBJS = 6
IFN_CLS = [0, 0, 0, 1, 1, 2]
IFN_NTY = {0: 10, 1: 6, 2: 8}            # closure types that fit the capacity of the class


def ifn_from_ok(i, j):
    """object i can be constructed / assigned from object j: same specialisation, or capacity 32 from a smaller one"""
    return IFN_CLS[i] == IFN_CLS[j] or IFN_CLS[i] == 0


def ifn_from_line(rnd, assign, i, j):
    r = rnd.random()
    if r < 0.2:
        return "ifn op=%s i=%d j=%d" % ("assign" if assign else "ctor_copy", i, j)
    if r < 0.4:
        return "ifn op=%s i=%d j=%d" % ("massign" if assign else "ctor_move", i, j)
    return "ifn op=%s i=%d j=%d q=%d" % ("assign_from" if assign else "ctor_from", i, j, rnd.randrange(4))


def random_history(rnd):
    lines = ["new"]
    for _ in range(rnd.randint(10, 40)):
        r = rnd.random()
        i = rnd.randrange(IFN_OBJS)
        j = rnd.randrange(IFN_OBJS)
        ty = rnd.randrange(IFN_NTY[IFN_CLS[i]])
        ident = rnd.randint(1, 9)
        if r < 0.14:
            lines.append("ifn op=ctor_fn i=%d ty=%d id=%d" % (i, ty, ident))
        elif r < 0.18:
            lines.append("ifn op=%s i=%d" % (rnd.choice(["ctor_empty", "ctor_null"]), i))
        elif r < 0.30:
            while j == i or not ifn_from_ok(i, j):
                i = rnd.randrange(IFN_OBJS)
                j = rnd.randrange(IFN_OBJS)
            lines.append(ifn_from_line(rnd, False, i, j))
        elif r < 0.46:
            while not ifn_from_ok(i, j):
                j = rnd.randrange(IFN_OBJS)
            lines.append(ifn_from_line(rnd, True, i, j))
        elif r < 0.52:
            lines.append("ifn op=assign_fn i=%d ty=%d id=%d" % (i, ty, ident))
        elif r < 0.56:
            lines.append("ifn op=assign_null i=%d" % i)
        elif r < 0.70:
            while IFN_CLS[i] != IFN_CLS[j]:
                j = rnd.randrange(IFN_OBJS)
            if rnd.random() < 0.25:
                j = i
            lines.append("ifn op=%s i=%d j=%d" % (rnd.choice(["swap", "fswap"]), i, j))
        elif r < 0.94:
            lines.append("ifn op=call i=%d x=%d" % (i, rnd.randint(0, 9)))
        else:
            lines.append("ifn op=%s i=%d" % (rnd.choice(["bool", "eqnull", "nenull"]), i))
    for k in range(IFN_OBJS):
        lines.append("ifn op=call i=%d x=%d" % (k, k))
    return lines


def ifn_conversion_matrix():
    """construction / assignment of one inplace_function from another: (destination, source) over every pair of
    specialisations that compiles - equal capacity (same type: 0<-1, 3<-4), smaller source capacity (0<-3, 0<-5; a LARGER source
    capacity is a static_assert failure, not a program) - x source state {empty, holding a closure of 3 types} x destination
    state {empty, holding} x source category {non-const lvalue, const lvalue, rvalue, const rvalue} x {construction,
    assignment}; afterwards emptiness of both (operator bool, == nullptr, != nullptr) and a call of both, twice for the
    destination (the copy has its own call counter)"""
    out = []
    for i, j in ((0, 1), (0, 3), (0, 5), (3, 4), (1, 4), (2, 5)):
        nty = IFN_NTY[IFN_CLS[j]]
        for sty in (None, 0, 3, nty - 1):
            for dst_holds in (False, True):
                for q in range(4):
                    for op in ("ctor_from", "assign_from"):
                        h = ["new"]
                        if sty is not None:
                            h += ["ifn op=ctor_fn i=%d ty=%d id=%d" % (j, sty, 4 + q), "ifn op=call i=%d x=1" % j]
                        if dst_holds:
                            h += ["ifn op=ctor_fn i=%d ty=%d id=%d" % (i, 5, 9)]
                        h += ["ifn op=%s i=%d j=%d q=%d" % (op, i, j, q)]
                        for k in (i, j):
                            h += ["ifn op=bool i=%d" % k, "ifn op=eqnull i=%d" % k, "ifn op=nenull i=%d" % k]
                        h += ["ifn op=call i=%d x=2" % i, "ifn op=call i=%d x=3" % j, "ifn op=call i=%d x=4" % i]
                        out.append(h)
    # self-assignment through the four categories (same object on both sides), every class
    for i in (0, 3, 5):
        for sty in (None, 1, 4):
            for q in range(4):
                h = ["new"]
                if sty is not None:
                    h += ["ifn op=ctor_fn i=%d ty=%d id=%d" % (i, sty, 3), "ifn op=call i=%d x=1" % i]
                h += ["ifn op=assign_from i=%d j=%d q=%d" % (i, i, q), "ifn op=bool i=%d" % i, "ifn op=eqnull i=%d" % i,
                      "ifn op=call i=%d x=2" % i]
                out.append(h)
    return out


def generate(tier, seed):
    rnd = random.Random(seed)
    thorough = tier == "thorough"
    cases = []
    dist = {}

    def add(lines, tag):
        cases.append(Case(lines, tag))
        dist[tag] = dist.get(tag, 0) + 1

    V = [0, 1, 2]
    # ---- pair relations
    for a in itertools.product(V, repeat=2):
        for b in itertools.product(V, repeat=2):
            add("pair op=cmp e=int a=%s b=%s" % (fmt_list(a), fmt_list(b)), "pair/cmp")
    for a in itertools.product([0, 1, NAN], repeat=2):
        for b in itertools.product([0, 1, NAN], repeat=2):
            add("pair op=cmp e=dbl a=%s b=%s" % (fmt_list(a), fmt_list(b)), "pair/cmp-dbl")
    for _ in range(20000 if thorough else 1500):
        a = [rnd.randint(-5, 5), rnd.randint(-5, 5)]
        b = [rnd.choice([a[0], rnd.randint(-5, 5)]), rnd.randint(-5, 5)]
        add("pair op=cmp e=int a=%s b=%s" % (fmt_list(a), fmt_list(b)), "pair/cmp-random")
    # ---- pair relations over key + payload elements (harness KP: value v = key v/2, payload v%2; `<` on the key, `==` on key and
    # payload, no <=>): every pair of pairs with firsts / seconds from {0,1,2,3} (KP: keys 0,1 x payloads 0,1 - 0~1 and 2~3 are
    # equivalent and unequal) resp. {0,1,2} (int).  A separate generator keeps the other random streams unchanged.
    KPV = {"k": [0, 1, 2, 3], "i": [0, 1, 2]}
    for e, (d1, d2) in (("kp", "kk"), ("kpi", "ki"), ("ikp", "ik")):
        for a in itertools.product(KPV[d1], KPV[d2]):
            for b in itertools.product(KPV[d1], KPV[d2]):
                add("pair op=cmp e=%s a=%s b=%s" % (e, fmt_list(a), fmt_list(b)), "pair/cmp-kp")
    rnd3 = random.Random("C20-pair-kp-%s" % seed)
    for _ in range(4000 if thorough else 400):
        e = rnd3.choice(["kp", "kpi", "ikp"])
        a = [rnd3.randint(0, 11), rnd3.randint(0, 11)]
        b = [rnd3.randint(0, 11), rnd3.randint(0, 11)]
        r = rnd3.random()
        if r < 0.5:         # equivalent firsts (same key), equal or not
            b[0] = a[0] ^ rnd3.randint(0, 1) if e != "ikp" else a[0]
        if r < 0.25:        # and equivalent seconds
            b[1] = a[1] ^ rnd3.randint(0, 1) if e != "kpi" else a[1]
        add("pair op=cmp e=%s a=%s b=%s" % (e, fmt_list(a), fmt_list(b)), "pair/cmp-kp-random")
    # ---- pair value operations: every op x every kind combination
    samples = [([1, 2], [3, 4]), ([0, 0], [2, 1]), ([2, 2], [2, 2])] + ([([5, 7], [7, 5]), ([1, 0], [0, 1])] if thorough else [])
    for op in PAIR_OPS:
        for k1 in KINDS:
            for k2 in KINDS:
                for a, b in samples:
                    add("pair op=%s t=%s a=%s b=%s" % (op, fmt_list([k1, k2]), fmt_list(a), fmt_list(b)), "pair/" + op)
    for _ in range(20000 if thorough else 1500):
        a = [rnd.randint(0, 99), rnd.randint(0, 99)]
        b = [rnd.randint(0, 99), rnd.randint(0, 99)]
        add("pair op=%s t=%s a=%s b=%s" % (rnd.choice(PAIR_OPS), fmt_list([rnd.choice(KINDS), rnd.choice(KINDS)]), fmt_list(a), fmt_list(b)),
            "pair/random")
    # ---- pair with reference-to-instrumented elements (kinds 6, 7): every op x the instantiated kind combinations; converting
    # assignments between pairs of different kinds.  A separate generator (same seed) keeps the other random streams unchanged.
    rnd2 = random.Random("C20-pair-ref-%s" % seed)

    def ref_tag(ks):
        return "-tref" if 6 in ks else "-tcref"
    for op in PAIR_OPS:
        for ks in PAIR_REF_COMBOS:
            for a, b in samples:
                add("pair op=%s t=%s a=%s b=%s" % (op, fmt_list(ks), fmt_list(a), fmt_list(b)), "pair/" + op + ref_tag(ks))
    for op in XOPS:
        for kd, ks in XKINDS:
            for a, b in samples:
                add("pair op=%s t=%s u=%s a=%s b=%s" % (op, fmt_list(kd), fmt_list(ks), fmt_list(a), fmt_list(b)), "pair/" + op)
    for _ in range(6000 if thorough else 600):
        a = [rnd2.randint(0, 99), rnd2.randint(0, 99)]
        b = [rnd2.randint(0, 99), rnd2.randint(0, 99)]
        if rnd2.random() < 0.3:
            kd, ks = rnd2.choice(XKINDS)
            add("pair op=%s t=%s u=%s a=%s b=%s" % (rnd2.choice(XOPS), fmt_list(kd), fmt_list(ks), fmt_list(a), fmt_list(b)),
                "pair/random-x")
        else:
            add("pair op=%s t=%s a=%s b=%s" % (rnd2.choice(PAIR_OPS), fmt_list(rnd2.choice(PAIR_REF_COMBOS)), fmt_list(a), fmt_list(b)),
                "pair/random-ref")
    # ---- tuple equality: all pairs of tuples over the domain, arity 0..3 (arity 0: the one empty tuple)
    for n in (0, 1, 2, 3):
        for a in itertools.product(V, repeat=n):
            for b in itertools.product(V, repeat=n):
                add("tuple op=eq a=%s b=%s" % (fmt_list(a), fmt_list(b)), "tuple/eq")
    # the same over key + payload elements (== on key and payload): arity 1, 2 over {0,1,2,3}, arity 3 over {0,1,2}
    for n, dom in ((1, [0, 1, 2, 3]), (2, [0, 1, 2, 3]), (3, [0, 1, 2])):
        for a in itertools.product(dom, repeat=n):
            for b in itertools.product(dom, repeat=n):
                add("tuple op=eq e=kp a=%s b=%s" % (fmt_list(a), fmt_list(b)), "tuple/eq-kp")
    # ---- tuple value operations
    for op in TUPLE_OPS:
        for ks in TUPLE_KINDS:
            n = len(ks)
            if op in ("convp", "convpr") and n != 2:
                continue
            for base in ([1, 2, 3], [0, 2, 0]) + (([7, 7, 1],) if thorough else ()):
                a = base[:n]
                b = [x + 3 for x in a]
                add("tuple op=%s t=%s a=%s b=%s" % (op, fmt_list(ks), fmt_list(a), fmt_list(b)),
                    "tuple/" + op + ("" if len(set(ks)) == 1 else "-mixed"))
    for _ in range(10000 if thorough else 1000):
        ks = rnd.choice(TUPLE_KINDS)
        op = rnd.choice(TUPLE_OPS)
        if op in ("convp", "convpr") and len(ks) != 2:
            continue
        add("tuple op=%s t=%s a=%s b=%s" % (op, fmt_list(ks), fmt_list([rnd.randint(0, 99) for _ in ks]),
                                            fmt_list([rnd.randint(0, 99) for _ in ks])), "tuple/random")
    for q in range(4):          # apply(pointer to member, tuple): the object is the first element
        add("tuple op=apply f=memfn q=%d a=[%d]" % (q, 3 + q), "tuple/apply-memptr")
        add("tuple op=apply f=memdata q=%d v=%d" % (q, 7 + q), "tuple/apply-memptr")
    for n in (1, 2, 3):
        for q in range(4):          # category of the tuple
            for c in range(4):      # category of the callee (forward<F>(f))
                for base in ([1, 2, 3], [0, 0, 9]):
                    add("tuple op=apply q=%d c=%d a=%s" % (q, c, fmt_list(base[:n])), "tuple/apply")
    # ---- tuple_cat
    shapes = [list(t) for m in (1, 2, 3) for t in itertools.product((1, 2), repeat=m)]
    for t in KINDS:
        for q in range(4):      # the tuples are handed over as lvalues, const lvalues, rvalues, const rvalues
            for ts in shapes:
                v = list(range(1, sum(ts) + 1))
                add("tcat k=%s q=%d ts=%s v=%s" % (fmt_list([t] * sum(ts)), q, fmt_list(ts), fmt_list(v)), "tcat")
    for q in range(4):
        add("tcat k=[] q=%d ts=[] v=[]" % q, "tcat/none")     # tuple_cat() with no argument
    for ks, ts in TCAT_MIXED:
        for q in range(4):
            add("tcat k=%s q=%d ts=%s v=%s" % (fmt_list(ks), q, fmt_list(ts), fmt_list(list(range(1, len(ks) + 1)))), "tcat/mixed")
    for _ in range(3000 if thorough else 300):
        if rnd.random() < 0.3:
            ks, ts = rnd.choice(TCAT_MIXED)
        else:
            ts = rnd.choice(shapes)
            ks = [rnd.choice(KINDS)] * sum(ts)
        add("tcat k=%s q=%d ts=%s v=%s" % (fmt_list(ks), rnd.randrange(4), fmt_list(ts), fmt_list([rnd.randint(0, 99) for _ in ks])),
            "tcat/random")
    # ---- invoke
    for f in ("fn", "fptr", "lam"):
        for x in ([1, 2], [0, 9]):
            add("invoke f=%s c=0 x=%s" % (f, fmt_list(x)), "invoke/" + f)
    for c in range(4):
        for n in (0, 1, 2):
            for xc in cat_lists(n):
                add("invoke f=fob c=%d x=%s xc=%s" % (c, fmt_list([3, 5][:n]), fmt_list(xc)), "invoke/fob")
    for md in (False, True):
        for o, cs in (("obj", range(4)), ("der", range(4)), ("refw", (0, 1)), ("ptr", (0, 1)), ("dptr", (0, 1))):
            for c in cs:
                if md:
                    add("invoke f=memdata c=%d o=%s x=[] v=%d" % (c, o, 7 + c), "invoke/memdata")
                else:
                    add("invoke f=memfn c=%d o=%s x=[%d]" % (c, o, 3 + c), "invoke/memfn")
    # ---- function_ref, inplace_function argument forwarding
    for c in (0, 1):
        for act in ("call", "copy", "rebind"):
            for xc in (0, 1, 2, 3):
                add("fref f=fob c=%d act=%s x=[1,2,3] xc=[%d]" % (c, act, xc), "fref/fob")
                add("fref f=fob c=%d act=%s ne=1 x=[1,2,3] xc=[%d]" % (c, act, xc), "fref/fob-noexcept")
    for f in ("fn", "fptr", "lam"):
        for act in ("call", "copy"):
            add("fref f=%s c=0 act=%s x=[4,2] xc=[]" % (f, act), "fref/" + f)
    for xc in (0, 1, 2, 3):
        add("ifn2 x=[1,2,3] xc=[%d]" % xc, "ifn2")
    for v in (3, 8):
        add("ifn2 f=memfn x=[%d]" % v, "ifn2/memptr")
        add("ifn2 f=memdata x=[] v=%d" % v, "ifn2/memptr")
    # ---- reference_wrapper, bind_front, not_fn
    for cst in (0, 1):
        for act in ("call", "copy", "rebind", "reref"):
            for n in (0, 1, 2):
                for xc in cat_lists(n):
                    add("rw cst=%d act=%s x=%s xc=%s" % (cst, act, fmt_list([3, 5][:n]), fmt_list(xc)), "rw" if act != "reref" else "rw/reref")
    for q in range(4):
        for bl in (0, 1):
            for nb in (0, 1, 2):
                # br: which bound arguments are handed over as ref(object); act: call the wrapper, a copy of it, or one moved from it
                for br in itertools.product((0, 1), repeat=nb):
                    for act in ("call", "copy", "move"):
                        plain = act == "call" and not any(br)
                        if all(br) and nb > 0 and bl == 1:
                            continue          # bl only concerns plain arguments
                        for n in ((0, 1, 2) if plain else (0, 1)):
                            for xc in cat_lists(n):
                                add("bf f=fob q=%d bl=%d b=%s br=%s act=%s x=%s xc=%s"
                                    % (q, bl, fmt_list([1, 2][:nb]), fmt_list(br), act, fmt_list([3, 5][:n]), fmt_list(xc)),
                                    "bf/fob" if plain else ("bf/fob-ref" if any(br) else "bf/fob-" + act))
        for nb in (0, 1, 2):
            add("bf f=fn q=%d bl=0 b=%s x=%s" % (q, fmt_list([1, 2][:nb]), fmt_list([3, 5][:2 - nb])), "bf/fn")
        for o in ("obj", "ptr", "cptr", "refw"):     # bind_front(pointer to member, object | pointer | reference_wrapper)
            add("bf f=memfn q=%d bl=0 b=[] o=%s x=[%d]" % (q, o, 3 + q), "bf/memptr")
            add("bf f=memdata q=%d bl=0 b=[] o=%s x=[] v=%d" % (q, o, 6 + q), "bf/memptr")
        for c in range(4):                           # not_fn(pointer to member)(object of category c, ...)
            for p in (0, 1):
                add("nf f=memfn c=%d q=%d p=%d x=[%d]" % (c, q, p, 2 + c), "nf/memptr")
            for v in (0, 5):
                add("nf f=memdata c=%d q=%d v=%d" % (c, q, v), "nf/memptr")
        for p in (0, 1):
            for act in ("call", "copy", "move"):
                for n in ((0, 1, 2) if act == "call" else (0, 1)):
                    for xc in cat_lists(n):
                        add("nf q=%d p=%d act=%s x=%s xc=%s" % (q, p, act, fmt_list([3, 5][:n]), fmt_list(xc)),
                            "nf" if act == "call" else "nf/" + act)
    for p in (0, 1):                                 # the stateless not_fn<ConstFn>()
        for x in ([3, 4], [0, 9]):
            add("nfc f=fn p=%d x=%s" % (p, fmt_list(x)), "nfc")
        for c in range(4):
            add("nfc f=memfn c=%d p=%d x=[%d]" % (c, p, 4 + c), "nfc")
    for c in range(4):
        for v in (0, 7):
            add("nfc f=memdata c=%d v=%d" % (c, v), "nfc")
    # ---- make_from_tuple into target types that tell T(x...) from T{x...}: 8 target kinds x arity 0..3 x the four tuple
    # categories, from a tuple and (arity 2) from a pair; `form=brace`: the list-initialisation itself, compiled directly
    for tg in range(8):
        for n in range(4):
            for base in ([3, 7, 2], [1, 1, 1], [0, 5, 9]):
                a = base[:n]
                for q in range(4):
                    add("mft tg=%d q=%d a=%s" % (tg, q, fmt_list(a)), "mft/paren")
                    if n == 2:
                        add("mft tg=%d q=%d a=%s src=pair" % (tg, q, fmt_list(a)), "mft/paren-pair")
                add("mft tg=%d q=0 a=%s form=brace" % (tg, fmt_list(a)), "mft/brace")
                if n == 0:
                    break
    for _ in range(2000 if thorough else 200):
        n = rnd.randrange(4)
        add("mft tg=%d q=%d a=%s%s" % (rnd.randrange(8), rnd.randrange(4), fmt_list([rnd.randint(0, 99) for _ in range(n)]),
                                       " src=pair" if n == 2 and rnd.random() < 0.3 else ""), "mft/random")
    for q in TYPEQ:
        add("typeq q=%s" % q, "typeq")
    # ---- inplace_function histories: every sequence of `depth` operations of the alphabet
    alpha = ifn_alphabet()
    depth = 4 if thorough else 3
    for seq in itertools.product(alpha, repeat=depth):
        add(["new"] + list(seq) + TAIL, "ifn/seq%d" % depth)
    # single operations on the small-capacity object and conversions from it
    for ty in range(6):
        for op2 in ("ctor_copy i=0 j=3", "ctor_move i=1 j=3", "assign i=2 j=3", "massign i=0 j=3", "assign i=3 j=3",
                    "massign i=3 j=3", "swap i=3 j=3", "fswap i=3 j=3", "assign_null i=3"):
            add(["new", "ifn op=ctor_fn i=3 ty=%d id=%d" % (ty, ty + 1), "ifn op=call i=3 x=1", "ifn op=" + op2,
                 "ifn op=call i=3 x=2", "ifn op=call i=0 x=3", "ifn op=call i=1 x=4", "ifn op=call i=2 x=5"], "ifn/small")
    for h in ifn_conversion_matrix():
        add(h, "ifn/conv-matrix")
    # swap / copy / move between the two capacity-16 objects and on the capacity-24 object
    for ty in range(6):
        for op2 in ("swap i=3 j=4", "fswap i=4 j=3", "ctor_copy i=4 j=3", "ctor_move i=4 j=3", "assign i=4 j=3", "massign i=4 j=3"):
            add(["new", "ifn op=ctor_fn i=3 ty=%d id=%d" % (ty, ty + 1), "ifn op=call i=3 x=1", "ifn op=" + op2,
                 "ifn op=call i=3 x=2", "ifn op=call i=4 x=3", "ifn op=bool i=3", "ifn op=bool i=4"], "ifn/small2")
    for ty in range(8):
        for op2 in ("ctor_copy i=1 j=5", "ctor_move i=1 j=5", "assign i=2 j=5", "massign i=0 j=5", "assign i=5 j=5", "massign i=5 j=5",
                    "swap i=5 j=5", "fswap i=5 j=5", "assign_null i=5"):
            add(["new", "ifn op=ctor_fn i=5 ty=%d id=%d" % (ty, ty + 1), "ifn op=call i=5 x=1", "ifn op=" + op2,
                 "ifn op=call i=5 x=2", "ifn op=call i=0 x=3", "ifn op=call i=1 x=4", "ifn op=call i=2 x=5"], "ifn/cap24")
    for ty in range(10):
        for i in range(3):
            add(["new", "ifn op=ctor_fn i=%d ty=%d id=%d" % (i, ty, ty), "ifn op=call i=%d x=1" % i,
                 "ifn op=swap i=%d j=%d" % (i, i), "ifn op=call i=%d x=2" % i,
                 "ifn op=ctor_copy i=%d j=%d" % ((i + 1) % 3, i), "ifn op=call i=%d x=3" % ((i + 1) % 3), "ifn op=call i=%d x=4" % i,
                 "ifn op=ctor_move i=%d j=%d" % ((i + 2) % 3, i), "ifn op=call i=%d x=5" % ((i + 2) % 3), "ifn op=call i=%d x=6" % i],
                "ifn/types")
    nonempty_calls = 0
    for _ in range(30000 if thorough else 3000):
        h = random_history(rnd)
        nonempty_calls += sum(1 for ln in h if "op=call" in ln)
        add(h, "ifn/random")
    dist["ifn/random:call-lines"] = nonempty_calls
    return cases, False, dist


def nontrivial(case, rows):
    if case.lines[0] == "new":
        return any(r.spec.startswith("r=") for r in rows)
    return rows[0].spec != "n/a"


def _vals(line, key):
    for tok in line.split():
        if tok.startswith(key + "=["):
            inner = tok[len(key) + 2:-1]
            return [int(x) for x in inner.split(",")] if inner else []
    return []


def classify(case, k, row):
    ln = case.lines[k]
    if ln.startswith("pair op=cmp e=dbl"):
        a, b = _vals(ln, "a"), _vals(ln, "b")
        # class: the three-way comparison of the pairs is unordered
        if a[0] == NAN or b[0] == NAN or (a[0] == b[0] and (a[1] == NAN or b[1] == NAN)):
            return "F-C20-pair-rel-unordered"
    if ln.startswith("typeq q="):
        return TYPE_FINDINGS.get(ln.split("q=")[1].strip())
    return None


def group_of(case):
    return case.tag


CLAIMED = True
TECHNIQUE = ("Lean 4 proofs about a hand model + differential testing.  Proved without bounds: the lexicographic pair relations (through < only, for arbitrary "
             "element < and == with nothing assumed between them), tuple equality, tuple_cat, the inplace_function vtable-thunk machine (with object lifetimes, construction / assignment from a "
             "source of any value category and of another specialisation, free swap and nullptr comparison) "
             "refining an owner semantics for all histories, and reference_wrapper / function_ref as objects (pointer members executed "
             "forwards = target resolved backwards, for all histories of construction, copy and assignment).  The forwarding wrappers "
             "(invoke, reference_wrapper, function_ref, bind_front, not_fn, apply - also around pointers to members) are one-line "
             "headers whose model is a transcription: their call-once theorems are immediate and the evidence for them is the "
             "exhaustive small-scope correspondence run against the code and against libstdc++.  Value categories as types (decltype) "
             "are NOT proved in Lean: they are compared with libstdc++ by a compile-time static_assert matrix; their run-time "
             "projection (which overload / parameter category the instrumented target sees) is data of the model and compared on "
             "every line.")
LEVEL_TEXT = ("pair and tuple members are modelled as the member-wise expansion the headers write (construction, copy/move, assignment "
              "- tuple assignment, get<T>, the converting constructors and structured bindings exist since the fix commits of this "
              "round -, swap, get, the relational operators as written through operator< only, the tuple equality fold with its "
              "arity-0 branch, tuple_cat as the left fold of pairwise concatenation, apply / make_from_tuple as index-sequence "
              "expansions with checked element reads); invoke as its three-way member-pointer dispatch; reference_wrapper and "
              "function_ref as objects holding one pointer (copy and assignment copy it) whose call forwards to the designated "
              "target; bind_front (bound arguments stored decayed, a reference_wrapper kept as a wrapper, a bound object of a pointer "
              "to member handed over with the wrapper's qualification), not_fn and not_fn<ConstFn>() as the calls they forward to; "
              "inplace_function as its vtable thunks (copy, relocate, destroy, invoke) acting on storage cells that hold a live "
              "callable or nothing, where reading a destroyed object or constructing over a live one is an error.  Lean 4 proves "
              "without bounds: (a) the six pair relations equal the lexicographic three-way comparison for every element order "
              "synthesised from an asymmetric < - with NO assumption that links the elements' == to their <: the model computes <, <=, "
              ">, >= through < only, as [pairs.spec] does, and ==, != through == only; pair_rels_kp instantiates this for the key + "
              "payload element whose == is finer than the equivalence of its <, pair_lt_via_eq_differs exhibits the input on which a "
              "tie decided by == differs from [pairs.spec] and pair_lt_via_eq_same_of_total shows that no strictly totally ordered "
              "element type (int) can exhibit one -, form a strict total order with its derived relations for strict total element "
              "orders, and for double elements equal std::pair's exactly on the inputs outside the NaN class of the known finding "
              "(and differ on every input inside it); (b) tuple == never fails and is list equality for every arity including 0, and "
              "for an arbitrary element == (nothing assumed) the conjunction of the element comparisons (tuple_eq_by); etl::tuple has "
              "no <, <=, >, >= (the property claims equality only), so there is no lexicographic tuple order to model; (c) "
              "tuple_cat of any number of tuples (none included) is their concatenation and never reads out of range; (d) for every history of "
              "construct/copy/move/assign/member swap/free swap/reset/call/compare-with-nullptr on inplace_function (any length, any "
              "number of objects, including self-assignment and self-swap; construction and assignment from a source expression of "
              "each of the four value categories, of the same or of another specialisation: the model selects the constructor by "
              "the category - only a non-const rvalue relocates, the closure constructor is never viable for an inplace_function "
              "source -; from_empty_is_empty: whatever the category, a wrapper made or assigned from an empty one reports empty and "
              "never calls) the thunk machine never fails (no use of a destroyed "
              "closure, no construction over a live one), keeps vtable and storage consistent, leaves no temporary alive, and refines "
              "the abstract owner semantics: copies call an equivalent target, a move empties the source, swap (member or free) "
              "exchanges, an empty object reports bad_function_call, compares equal to nullptr and logs nothing, a call logs exactly "
              "one entry; (d') for every history of construction, copy and assignment of reference_wrapper / function_ref objects the "
              "pointer member the model computes forwards is the target the specification resolves backwards from the most recent "
              "operation (refPtrs_designates), a copy designates the source's target, an assignment rebinds only the assigned wrapper, "
              "and a call through any wrapper is exactly one call of the designated target.  Also stated and proved, but with little "
              "proof content because model and specification are the same few lines: (e) the member-wise pair/tuple operations (pair move assignment is modelled as "
              "`first = forward<first_type>(p.first)` and the converting move assignment as `first = forward<U1>(p.first)`, after "
              "the fix commits of this round: for a reference element the forwarded expression is an lvalue, so the model "
              "copy-assigns the referent (counted) and leaves it unchanged; construction cost - copyCost / moveCost: a reference is "
              "bound - and assignment cost - assignCost / moveAssignCost: assigned through - are separate functions of the kind; "
              "convAssignAll_eq / convMoveAssignAll_eq: the converting assignments, a two-step model - value category of "
              "forward<U>(p.first), then the assignment operator of the class -, equal the map/sum form of [pairs.pair] over the SOURCE "
              "kinds; convAssignAll_same / convMoveAssignAll_same: with equal kinds on both sides they are assignAll / moveAssignAll; "
              "convMoveAssign_keeps_referents: a source whose elements are all of reference kind is left unchanged by a move "
              "assignment) "
              "(default/copy/move construction, assignment, swap, get, make_from_tuple - for target kinds with an "
              "initializer_list constructor, aggregates, explicit constructors and narrowing parameters the model initialises with "
              "parentheses as the header does and equals the direct-non-list-initialisation of [tuple.apply] (makeFromTupleT_eq); "
              "listInit_differs / listInit_same state exactly for which kinds braces would differ - the converting constructors and "
              "assignments of pair and tuple are the same member-wise expansions, their element conversions int->long / short->int preserve "
              "values) equal their map/sum form for every arity and kind list (bookkeeping identities: the recursion is a map); (f) "
              "the outcome of a call through invoke, reference_wrapper, function_ref, bind_front, not_fn, not_fn<ConstFn>() and apply "
              "- also around a pointer to member - satisfies the predicate Spec.CalledOnce (exactly one log entry, for the wrapped "
              "target, through the prescribed object category, with the given arguments - a bound reference_wrapper still a wrapper "
              "-, result handed back) - a case split on the callee kind.  For (e) and (f) the weight is carried by the correspondence "
              "run: model and implementation are executed on the same lines under ASan/UBSan with instrumented elements and callables "
              "on every run, and the executable spec is validated against libstdc++ on the same lines.")
LEVEL_NOTE = ("Trusted: Lean kernel + propext/Classical.choice/Quot.sound; the hand model's fidelity outside the explored inputs; g++-12/ASan; "
              "libstdc++ as oracle (not_fn<ConstFn>() and function_ref have no libstdc++ 12 counterpart: the oracle is the direct "
              "!INVOKE / call).  Value-category preservation as a type-level fact (decltype) is not carried by the value-level model "
              "and not proved: it is checked by a compile-time static_assert matrix against libstdc++ (coverage.unproved_observed) "
              "and, where the headers are known to differ, reported at run time as KNOWN-FINDING lines.  Not generated (see "
              "coverage.unproved_observed): tuples of arity 3 beyond the 14 instantiated kind lists, "
              "get<T&>(pair&&) (does not compile in libstdc++ 12).")
UNPROVED_OBSERVED = [
    "value-category / element-type preservation (decltype): static_assert matrix in harness/c20.cpp — get<I> on pair and tuple for all 49 "
    "combinations of {int, move-only, copy-only, int&, int const, int&&, instrumented} x four reference qualifications against std::get; "
    "tuple_element / tuple_size; copy/move constructibility and assignability traits of pair and (per instantiated kind list) of tuple "
    "against std; constructibility / convertibility of the converting tuple constructors and assignments against std::tuple; forward and "
    "forward_like against the standard's definition; result types of invoke (member data through object/pointer/reference_wrapper), "
    "apply, reference_wrapper, ref(reference_wrapper), bind_front, not_fn, make_tuple, make_pair, forward_as_tuple, tie, tuple_cat, "
    "make_from_tuple; function_ref<R(Args...) noexcept>::operator() is noexcept — compile-time differential testing, no theorem",
    "the run-time projection of value categories (which ref-qualified operator() overload and which parameter category the instrumented "
    "target sees, whether an argument arrives as a reference_wrapper; moved-from residues; copy counts) is modelled and compared on "
    "every line; the theorems treat it as data",
    "live closure count and lifetime registry of the harness (non-trivially copyable closures only): observed on every history line",
    "aliasing of get<T> / structured bindings / tie / forward_as_tuple (the names designate the elements themselves): address comparisons "
    "in the harness (`!alias`), no model",
    "NOT exercised at all (neither generated nor modelled): tuples of arity 3 outside the 14 instantiated kind lists and of arity > 3; "
    "tuple_cat of more than 3 tuples, of arrays (of pairs: result type only, typeq q=tuple_cat_pair_elements); "
    "get<T>(pair&&) / get<T>(tuple&&) with a reference element (libstdc++ 12 does not compile the pair form); allocator-extended and "
    "piecewise construction (absent from etl)",
]
CORRESPONDENCE_ONLY = [
    "make_pair / make_tuple / forward_as_tuple / tie / structured binding of pair and tuple: value-level identity in the model (copyAll / "
    "moveAll / getAll); the reference binding itself (aliasing) is checked by the harness only",
    "copy and move construction of the bind_front and not_fn wrappers (act=copy|move lines): the new wrapper calls an equivalent target; "
    "modelled as the same call, the extra copies of bound arguments are counted by the driver",
    "inplace_function: closure size and trivial copyability are data of the model (ty) with no effect on it, exercised by the harness "
    "over 10 closure types",
    "inplace_function<R(Args...)> argument forwarding for class-type parameters and around a pointer to member (ifn2 lines): modelled by "
    "functionRefCall with an lvalue target",
    "function_ref<R(Args...) noexcept> (ne=1 lines): the same class template as function_ref<R(Args...)>, no separate model",
    "the number of copies made while binding arguments (bind_front), while copying a wrapper, by tuple_cat (driver: copyAll / moveAll over "
    "the flattened elements, chosen by the category of the argument tuples) and while passing a by-value argument (function_ref, "
    "inplace_function): computed by the driver from the argument categories, no theorem",
    "inplace_function: which constructor overload resolution selects for a source expression of a given category (Model.selectCtor: 4 rows, "
    "transcribed from the constraints of the three competing constructors) and make_from_tuple: which constructor of the target "
    "type parentheses select (Model.parenInit, one row per target kind) are tables about C++ overload resolution; the theorems "
    "relate them to the specification's tables (Spec.gives, Spec.directInit) and the tie to the code is the correspondence run "
    "(conversion matrix, mft lines), which is what catches a changed constraint / a changed initialisation form",
    "Spec.listInit (what T{x...} would do) is not behaviour of the library: it is validated against g++ by the form=brace lines "
    "(both harness columns are the compiler's) and used only by listInit_differs / listInit_same",
    "pair element kinds 6 / 7 (instrumented&, instrumented const&) are instantiated only with each other and with {int, instrumented "
    "class, int&} (16 of the 28 new combinations) and the converting assignments only for the 10 combinations of XKINDS; "
    "is_assignable_v of etl::pair and std::pair for these combinations is compared by static_assert (pair_xop); get<I>(rvalue pair) of "
    "a reference element is observed by binding a reference, not by constructing an object; the destination kind of a converting "
    "assignment has no effect in the model beyond applicability; kinds 6 / 7 are not generated for tuple / tuple_cat (compile time; "
    "tuple move assignment goes through get<I>(move(other)) and was found correct by a probe)",
    "Lemmas.invoke_spec / refWrap_spec / functionRef_spec / bindFront_spec / notFn_spec / apply_spec (model = executable spec): "
    "transcription checks between two copies of the same few lines, deliberately not counted as property theorems",
]
P = "Tetl.C20.Props."
THEOREMS = {
    "pair": [P + n for n in ("pair_rels_eq_synth3", "pair_rels_kp", "kpLt_asymm", "pair_lt_via_eq_differs",
                             "pair_lt_via_eq_same_of_total", "pair_rels_dbl_iff", "pair_rels_dbl_partial", "pair_lt_iff", "pair_trichotomy",
                             "pair_derived", "pair_lt_trans", "defaultAll_eq", "copyAll_eq", "moveAll_eq", "assignAll_eq",
                             "moveAssignAll_eq", "swapAll_eq", "getAll_eq", "convAssignAll_eq", "convMoveAssignAll_eq",
                             "convAssignAll_same", "convMoveAssignAll_same", "convMoveAssign_keeps_referents")],
    "tuple": [P + n for n in ("tuple_eq_iff", "tuple_eq_by", "defaultAll_eq", "copyAll_eq", "moveAll_eq", "assignAll_eq", "moveAssignAll_eq",
                              "swapAll_eq", "getAll_eq", "makeFromTuple_eq", "apply_once", "applyMember_once", "applyMember_data")],
    "tcat": [P + "tuple_cat_eq", P + "copyAll_eq", P + "moveAll_eq"],
    "invoke": [P + "invoke_once", P + "invoke_memdata"],
    "fref": [P + "functionRef_once", P + "functionRef_object_once", P + "refPtrs_designates", P + "ref_copy_equivalent",
             P + "ref_assign_rebinds"],
    "ifn2": [P + "functionRef_once"],
    "rw": [P + "refWrap_once", P + "refWrap_object_once", P + "refPtrs_designates", P + "ref_copy_equivalent", P + "ref_assign_rebinds"],
    "bf": [P + "bindFront_once", P + "bindFrontMember_once"],
    "nf": [P + "notFn_once", P + "notFnOf_once", P + "notFnOf_data"],
    "nfc": [P + "notFnOf_once", P + "notFnOf_data"],
    "ifn": [P + n for n in ("step_refines", "run_refines", "run_never_errors", "empty_never_calls", "call_once", "fswap_exchanges",
                            "null_comparison", "copy_equivalent", "move_transfers", "assign_equivalent", "swap_exchanges",
                            "from_empty_is_empty")],
    "mft": [P + "makeFromTupleT_eq", P + "listInit_differs", P + "listInit_same", P + "getAll_eq"],
    "new": [P + "run_refines"],
}

# defects met while building this check that live in files owned by other properties (not repaired here; the harness works around them)
NOTES_FOR_OTHER_PROPERTIES = [
    "C15: etl::is_nothrow_swappable<T const> is a hard error instead of false (reached through the noexcept specification of pair::swap), "
    "so std::is_swappable_v<etl::pair<int, int const>> does not compile",
    "C15: etl::unwrap_ref_decay has its condition inverted and the primary etl::unwrap_reference is undefined "
    "(bind_front does not use it any more: it stores decay_t<BoundArgs>)",
    "toolchain: g++-12 does not accept `&f != nullptr` as a constant expression when f is an inline (weak) function or an in-class "
    "defined member function, so etl::not_fn<&f>() (static_assert(ConstFn != nullptr)) only compiles for targets with internal "
    "linkage or non-inline definitions; the harness uses targets in an unnamed namespace",
]
