"""C13 — compile-time evaluation and run-time execution give the same answer (DESIGN §4 C13, §6).

Tie T: gen/dispatch.py regenerates lean/Tetl/C13/Dispatch.lean (the inventory of every function with two code
paths) from the current headers on every run; `Tetl.C13.Props.dispatch_consistent` is re-checked against it.

Tie H, three ways: every case line is evaluated
  * by the constant evaluator: the line becomes one row `C13_R(key, ev_<op>(args))` of a generated constexpr table
    (build/c13_tables.hpp), each row on its own source line; a row that is not a constant expression is a compile
    error at that line, which the check maps back to the case (function and argument), marks `cfail` and reports;
  * at run time on volatile-laundered arguments, in three builds of the same source: -O0, -O2 (shared objects with
    hidden visibility) and -O1 with ASan/UBSan (the main harness);
  * by the Lean driver: model of the constant-evaluated path, model of the run-time path, specification.
Columns: impl = `ct/rt ct/rt ct/rt`, std = libstdc++/glibc at run time, model, spec (see harness/c13.cpp and
lean/Tetl/C13/Driver.lean).
"""
import os
import random
import re
import struct
import sys
import types

import lib
from lib import Case, log

sys.path.insert(0, os.path.join(lib.VERIF, "gen"))
import dispatch  # noqa: E402

PROP = "C13"
DRIVER = "drv-c13"
PROOF_MODULES = ["TetlProofs.C13.Props"]
HARNESS = "harness/c13.cpp"
SOURCES = ["include/etl/_type_traits/is_constant_evaluated.hpp", "include/etl/_cmath/floor.hpp", "include/etl/_cmath/ceil.hpp",
           "include/etl/_cmath/trunc.hpp", "include/etl/_cmath/round.hpp", "include/etl/_cmath/rint.hpp",
           "include/etl/_cmath/lrint.hpp", "include/etl/_cmath/copysign.hpp", "include/etl/_cmath/signbit.hpp",
           "include/etl/_cmath/isnan.hpp", "include/etl/_cmath/isinf.hpp", "include/etl/_cmath/isfinite.hpp",
           "include/etl/_cmath/fma.hpp", "include/etl/_cmath/fmod.hpp", "include/etl/_cmath/remainder.hpp",
           "include/etl/_cmath/sqrt.hpp", "include/etl/_bit/popcount.hpp", "include/etl/_bit/byteswap.hpp",
           "include/etl/_bit/bit_cast.hpp", "include/etl/_cstring/strlen.hpp", "include/etl/_cstring/strcmp.hpp",
           "include/etl/_cstring/strncmp.hpp", "include/etl/_cstring/strchr.hpp", "include/etl/_cstring/memchr.hpp",
           "include/etl/_strings/cstr.hpp", "include/etl/_numeric/add_sat.hpp",
           "include/etl/_3rd_party/gcem/gcem_incl/floor.hpp", "include/etl/_3rd_party/gcem/gcem_incl/ceil.hpp",
           "include/etl/_3rd_party/gcem/gcem_incl/trunc.hpp", "include/etl/_3rd_party/gcem/gcem_incl/round.hpp",
           "include/etl/_3rd_party/gcem/gcem_incl/find_whole.hpp"]
RULE = ("every case is evaluated inside a constexpr table (constant evaluator) and at run time from volatile-laundered arguments "
        "at -O0, -O2 and -O1+ASan/UBSan, and by the Lean model/spec. Integer functions: every 8-bit argument (popcount u8, "
        "add_sat i8/u8: all 65536 pairs; add_sat_fallback i8/u8: all 65536 pairs in the thorough tier, in the quick tier the pairs with y in a "
        "boundary set (i8: -128..-126, -65..-63, -2..2, 62..64, 126, 127; u8: 0..2, 63, 64, 127..129, 191, 192, 253..255) or x+y within 2 "
        "of a saturation bound (~6000 pairs per type); the 14 cctype functions: all 257 arguments) plus boundary "
        "(0, 1, 2^k, 2^k +- 1, limits) and seeded random values for 16/32/64 bit; byteswap and its fallback on those; C-string "
        "functions: every pair of strings of length <= 2 over {a, b, 0x80, 0xff} (strncmp with every n <= 3, strchr with every "
        "unit and 0, 256+unit, negative int) plus random longer ones; cmath (floor ceil trunc round rint lrint llrint signbit "
        "isnan isinf isfinite bit_cast sqrt, binary32 and binary64): boundary table of bit patterns (+-0, smallest/largest "
        "subnormals, every 2^k and 2^k +- 1ulp, n + 1/2 and its neighbours for n <= 64, halves and integers around 2^23/2^24/"
        "2^31/2^32/2^52/2^53/2^63/2^64, +-inf, quiet/signalling/negative NaNs, limits, seeded random patterns): ~1500 patterns "
        "per type quick, ~4000 thorough; copysign on a grid of those; fma on double-rounding witnesses (1+a ulp)(1+b ulp) - "
        "RN(product), exact products, cancellations, FLT_MAX*2-FLT_MAX-like triples whose two-step product overflows, 1500 "
        "(thorough 3600) triples with a product in the subnormal range x tiny addends (folded and unfolded by GCC), "
        "overflowing products with infinite/NaN addends, random triples; rows whose fused result is undefined or overflows "
        "(outside the domain, masked) only in the thorough tier plus 6 tagged rows. Non-trivial: the specification is defined for the "
        "input and the result differs from the (first) argument; distinct = distinct case text.")
ASSUMPTIONS = ["libstdc++ 12 / glibc 2.36 at run time validate the Lean specifications (R2)",
               "a compiler builtin on a path is modelled by its specification (trusted, observed on every case)",
               "GCC's constant evaluator is observed, not modelled: `constant evaluation succeeds on the documented domain` and "
               "`the evaluator computes what the abstract machine computes` hold on the explored cases only"]
TRUSTED = ["extractor gen/dispatch.py (regex + brace matching over the headers); every builtin call it cannot attribute is an error",
           "hand models Tetl/C13/Model.lean (gcem floor/ceil/trunc/round, rint/lrint/copysign fallbacks, fold-or-two-step fma, sqrt ladder), "
           "Tetl/C14/Model.lean, Tetl/C18/Model.lean tied to the source by the correspondence run (R1) on every run",
           "bit-level float specification Tetl/C13/Float.lean validated against glibc on every case (R2)",
           "g++ 12 front end (constant evaluator) and code generator at -O0/-O1/-O2"]
UNPROVED_OBSERVED = [
    "GCC's constant evaluator: that it evaluates tetl's constexpr code as the abstract machine would, and that constant evaluation "
    "succeeds for every argument of the documented domain, is observed on every case of the run (a row that does not "
    "constant-evaluate is reported with function and argument), not proved",
    "compiler builtins (__builtin_floorf, __builtin_ceilf, __builtin_popcount, __builtin_bswap*, __builtin_add_overflow, __builtin_signbit, "
    "__builtin_isnan/isinf, __builtin_copysign, __builtin_rint, __builtin_lrint, __builtin_fma, __builtin_bit_cast): assumed to "
    "implement the specification they are bound to in Tetl.C13.Spec.builtinTable; compared with it on every case",
    "the clang branch of the `#if defined(__clang__)` dispatch in the cstring headers (__builtin_strlen ...) is inventoried "
    "and bound to the same specification, but this toolchain compiles the other branch",
    "long double overloads (x87 80-bit format) are not modelled",
    "fmod, remainder (the libm builtin on both paths under GCC since 67c4687 / f0dd916; constant evaluation runs a ladder of "
    "special values first) are inventoried and bound to their specification by the dispatch theorems "
    "(dispatch_ct_builtin), but have no rows in C13's compile-time tables: both paths are evaluated on every pair of the "
    "special-value table harness/c16_ctab.inc by property C16 (ops b/cb fmod, remainder), which also owns their specification",
    "which calls of __builtin_fma / __builtin_sqrt GCC folds in a constant expression (Tetl.C13.Model.gccFoldsFma, "
    "`representable`: finite arguments and a result that is a value of the type after one rounding; sqrt: finite, not "
    "negative) is a model of the compiler read off gcc/fold-const-call.cc, observed on every fma and sqrt row of the run "
    "(a wrong guess shows as impl != model or as a row that does not constant-evaluate), not proved",
    "the approximating functions that became two-path with the C16 review fixes (sinh, cosh, tgamma, lgamma, erf, log1p, atanh, "
    "atan2: libm builtin at run time, gcem in constant evaluation) are inventoried and bound (`approx`); they have no "
    "exactly specified result and are outside the statement (property C16, tolerant part)",
]
SEARCH_CAP = 10 ** 9

RULE += (" Added by the review: the same rows for the other spellings and overloads: floorf ceilf truncf roundf rintf lrintf llrintf "
         "copysignf on a sub-sample of the binary32 table (every 5th pattern quick / every 2nd thorough plus the special values); the long "
         "double overloads and floorl ceill truncl roundl rintl lrintl llrintl copysignl, signbit isnan isinf isfinite of long double: the "
         "argument is a binary64 pattern x converted exactly to long double plus d units in the 11 further low bits of the 64-bit "
         "significand (d = 0 on a sub-sample of the binary64 table; d in {1, 2047, random} on 30 % of it; for every binade 2^52..2^65 "
         "significands 0, 1, all-ones, random with the fraction d at 1/2, 1/2 +- 1 unit, 1, 3/2, 1 unit, 2047 units, both signs), an extra "
         "negation n (negative NaN = -(long double)NaN), results in two exact parts (rounded to binary64, and the rest); lrint family only "
         "where the rounded value fits long long (exact rational arithmetic in the generator); the integral overloads floor ceil trunc "
         "round rint lrint llrint isnan isinf of int32_t/int64_t: 0, +-1, +-2^k, +-2^k +- 1, limits, values beyond 2^53 that the conversion "
         "rounds, random; detail::signbit_fallback<float/double/long double> called directly; copysign with NaN magnitudes (quiet, "
         "signalling, payload; both signs) x sign sources of both signs, the sign of a NaN result printed; llrint/lrint of exactly -2^63; "
         "byteswap of uint8_t/int8_t (all 256) and int16/32/64 (boundary + random). One constant-evaluated script per remaining "
         "category, small box + seeded random (200-400 quick, ~1600 thorough each): static_vector<int, 8> push_back/erase/insert -> "
         "weighted sum; inplace_string<16> build/append/find; string_view substr/find/compare; sort + lower_bound on <= 8 ints; "
         "to_chars/from_chars of int32_t in every base 2..36; year_month_day{sys_days{days{n}}} for |n| <= 1.1e7.")
UNPROVED_OBSERVED = [u for u in UNPROVED_OBSERVED if not u.startswith("long double overloads")] + [
    "long double (x87 extended, 64-bit significand): the overloads and `l` spellings of floor ceil trunc round rint lrint llrint copysign "
    "signbit isnan isinf isfinite are executed in constant evaluation and at run time and compared with the bit-level specification "
    "instantiated at (15 exponent bits, 63 fraction bits) and with glibc, but they are not modelled: the model column repeats the "
    "specification (rint_fallback<long double>, the gcem instantiations) or a driver-local transcription (copysign_fallback, "
    "signbit_fallback<long double>), and no theorem covers them (the gcem theorems need mbits <= 62). Arguments are binary64 values "
    "with up to 11 further significand bits; exponents outside the binary64 range, pseudo-denormals and unnormals are not generated",
    "the `f`-suffixed spellings and the integral overloads call the same detail function as the unsuffixed float/double overload: "
    "compared with its model and specification on a sub-sample, no separate theorem",
    "detail::signbit_fallback<float/double> (code GCC never reaches through etl::signbit) is executed directly and compared with "
    "Model.signbitFallback; the `arg != arg` alternative of etl::isnan is an #else branch that this toolchain does not compile and has "
    "no callable name: Model.isnanFallback is not executable under this toolchain (no R1 tie)",
    "containers, strings, views, algorithms, integer conversion, chrono: one constant-evaluated script per category (ops vec, istr, "
    "sview, sortlb, conv, ymd) compared with run time, libstdc++ and a few lines of Lean (model = specification: single-path code); "
    "the other members of these categories are exercised at run time only, by their own properties (C01-C12)",
]

# ---------------------------------------------------------------- operations
F32 = [("x", "u32")]
F64 = [("x", "u64")]
TABLES = {}
for _n in ("floor", "ceil", "trunc", "round", "rint", "lrint", "llrint", "signbit", "isnan", "isinf", "isfinite", "bit_cast", "sqrt"):
    TABLES[_n + "_f32"] = F32
    TABLES[_n + "_f64"] = F64
TABLES["copysign_f32"] = [("x", "u32"), ("y", "u32")]
TABLES["copysign_f64"] = [("x", "u64"), ("y", "u64")]
TABLES["fma_f32"] = [("x", "u32"), ("y", "u32"), ("z", "u32")]
TABLES["fma_f64"] = [("x", "u64"), ("y", "u64"), ("z", "u64")]
for _t in ("u8", "u16", "u32", "u64"):
    TABLES["popcount_" + _t] = [("x", _t)]
for _t in ("u16", "u32", "u64"):
    TABLES["byteswap_" + _t] = [("x", _t)]
    TABLES["byteswap_fb_" + _t] = [("x", _t)]
for _t in ("i8", "u8", "i16", "u16", "i32", "u32", "i64", "u64"):
    TABLES["add_sat_" + _t] = [("x", _t), ("y", _t)]
    TABLES["add_sat_fb_" + _t] = [("x", _t), ("y", _t)]
TABLES["strlen"] = [("s", "str")]
TABLES["strcmp"] = [("a", "str"), ("b", "str")]
TABLES["strncmp"] = [("a", "str"), ("b", "str"), ("n", "n")]
TABLES["strchr"] = [("s", "str"), ("c", "int")]
CTYPE = ["isalnum", "isalpha", "isblank", "iscntrl", "isdigit", "isgraph", "islower", "isprint", "ispunct", "isspace",
         "isupper", "isxdigit", "tolower", "toupper"]
for _f in CTYPE:
    TABLES["ctype_" + _f] = [("c", "int")]

# ---- review items T1..T5: the other spellings and overloads, the detail fallbacks, the remaining categories
for _n in ("floorf", "ceilf", "truncf", "roundf", "rintf", "lrintf", "llrintf", "signbit_fb"):
    TABLES[_n + "_f32"] = F32
TABLES["signbit_fb_f64"] = F64
TABLES["copysignf_f32"] = [("x", "u32"), ("y", "u32")]
LD_ROUND = ("floorl", "ceill", "truncl", "roundl", "rintl", "floor", "ceil", "trunc", "round", "rint")
LD_LRINT = ("lrintl", "llrintl", "lrint", "llrint")
LD_CLASS = ("signbit", "isnan", "isinf", "isfinite", "signbit_fb", "signbit_fb_negnan")
for _n in LD_ROUND:          # long double argument = binary64 value x plus d low units (see LD() in harness/c13_ops.hpp); p = part
    TABLES[_n + "_ld"] = [("x", "u64"), ("d", "u32"), ("p", "u32")]
for _n in LD_LRINT:
    TABLES[_n + "_ld"] = [("x", "u64"), ("d", "u32")]
for _n in LD_CLASS:
    TABLES[_n + "_ld"] = [("x", "u64"), ("d", "u32"), ("n", "u32")]
for _n in ("copysign", "copysignl"):
    TABLES[_n + "_ld"] = [("x", "u64"), ("y", "u64"), ("n", "u32")]
INT_OVERLOADS = ("floor", "ceil", "trunc", "round", "rint", "lrint", "llrint", "isnan", "isinf")
for _n in INT_OVERLOADS:
    TABLES[_n + "_i32"] = [("x", "i32")]
    TABLES[_n + "_i64"] = [("x", "i64")]
for _t in ("u8", "i8", "i16", "i32", "i64"):
    TABLES["byteswap_" + _t] = [("x", _t)]
TABLES["vec"] = [("a", "ilist"), ("k", "int"), ("j", "int"), ("v", "int")]
TABLES["istr"] = [("a", "ilist"), ("b", "ilist"), ("c", "int")]
TABLES["sview"] = [("a", "ilist"), ("c", "int"), ("i", "int"), ("n", "int")]
TABLES["sortlb"] = [("a", "ilist"), ("v", "int")]
TABLES["conv"] = [("x", "i32"), ("b", "int")]
TABLES["ymd"] = [("n", "i32")]

BITS = {"u8": 8, "u16": 16, "u32": 32, "u64": 64, "i8": 8, "i16": 16, "i32": 32, "i64": 64}


def s64(v):
    """64-bit patterns travel as their signed reading (the line protocol parses with strtoll)"""
    v &= (1 << 64) - 1
    return v - (1 << 64) if v >= (1 << 63) else v


def mk(op, **kw):
    return op + "".join(" %s=%s" % (k, kw[k]) for k in sorted(kw))


def parse(line):
    toks = line.split()
    return toks[0], dict(t.split("=", 1) for t in toks[1:])


def canon(line):
    op, a = parse(line)
    return mk(op, **a)


def table_of(line):
    op, a = parse(line)
    return "ctype_" + a["f"] if op == "ctype" else op


def fnv(s):
    h = 0xcbf29ce484222325
    for c in s.encode():
        h ^= c
        h = (h * 0x100000001b3) & ((1 << 64) - 1)
    return h


def cxx_arg(ty, v):
    if ty == "str":
        units = [int(x) for x in v.strip("[]").split(",") if x]
        return '"' + "".join("\\%03o" % u for u in units) + '"'
    if ty == "ilist":          # a constexpr aggregate: fixed array + size
        items = [int(x) for x in v.strip("[]").split(",") if x]
        if len(items) > 16:
            raise lib.MachineryError("c13: list argument longer than 16")
        return "c13::IL{%d, {%s}}" % (len(items), ", ".join(str(x) for x in items))
    i = int(v)
    if ty in ("u8", "u16", "u32"):
        return "c13::%s(0x%xu)" % (ty, i & ((1 << BITS[ty]) - 1))
    if ty in ("u64", "n"):
        return "0x%016xull" % (i & ((1 << 64) - 1))
    if ty == "i64":
        return "(-9223372036854775807ll - 1)" if i == -(1 << 63) else "%dll" % i
    if ty in ("i8", "i16", "i32", "int"):
        return "%s(%d)" % ({"int": "int", "i8": "c13::i8", "i16": "c13::i16", "i32": "c13::i32"}[ty],
                           i) if i != -(1 << 31) else "(-2147483647 - 1)"
    raise lib.MachineryError("c13: unknown argument type " + ty)


def cxx_expr(line):
    _, a = parse(line)
    t = table_of(line)
    if t not in TABLES:
        raise lib.MachineryError("c13: no table for case line: " + line)
    return "c13::ev_%s(%s)" % (t, ", ".join(cxx_arg(ty, a[k]) for k, ty in TABLES[t]))


# ---------------------------------------------------------------- float boundary tables
def f32bits(x):
    return struct.unpack("<I", struct.pack("<f", x))[0]


def f64bits(x):
    return struct.unpack("<Q", struct.pack("<d", x))[0]


def boundary(fmt, rnd, thorough):
    """bit patterns of the boundary table for binary32 (fmt=32) or binary64 (fmt=64)"""
    ebits, mbits = (8, 23) if fmt == 32 else (11, 52)
    bias = (1 << (ebits - 1)) - 1
    emax = (1 << ebits) - 1
    sign = 1 << (ebits + mbits)
    mm = (1 << mbits) - 1
    pos = set()
    pos.update([0, 1, 2, 3, mm, mm - 1, 1 << (mbits - 1), (1 << mbits), (1 << mbits) + 1])          # zero, subnormals, min normal
    pos.update([(emax << mbits), (emax << mbits) - 1, (emax << mbits) - 2])                          # inf, max, max-1ulp
    pos.update([(emax << mbits) | (1 << (mbits - 1)), (emax << mbits) | 1, (emax << mbits) | mm,      # qNaN, sNaN, all-ones
                (emax << mbits) | (1 << (mbits - 1)) | 5])
    # 2^k and its neighbours
    step = 1 if (fmt == 32 or thorough) else 1
    for e in range(1, emax, step):
        k = e - bias
        near = (-70 <= k <= 70) or fmt == 32 or thorough or e % 16 == 0
        if not near:
            continue
        b = e << mbits
        pos.update([b, b + 1, b - 1])
        if -3 <= k <= mbits + 12:
            pos.update([b | (1 << (mbits - 1)), b | (1 << (mbits - 1)) | 1, (b | (1 << (mbits - 1))) - 1, b | mm])
    conv = f32bits if fmt == 32 else f64bits
    # n + 1/2, n, and their neighbours
    for n in range(0, 65):
        for v in (n + 0.5, float(n), n + 0.25, n + 0.75):
            b = conv(v)
            pos.update([b, b + 1, max(b - 1, 0)])
    for p in (23, 24, 31, 32, 52, 53, 62, 63, 64, 65):
        for d in (-2.0, -1.5, -1.0, -0.5, 0.0, 0.5, 1.0, 1.5, 2.0):
            try:
                b = conv(float(2 ** p) + d)
            except OverflowError:
                continue
            pos.update([b, b + 1, b - 1])
    for v in (0.1, 0.3, 0.49999997, 0.5, 0.50000006, 0.7, 0.99999994, 1e-10, 1e-30, 1e10, 1e20, 1e30, 2.5, 3.5, 1e-45, 8388607.5,
              4503599627370495.5, 9.2e18, 9.3e18, 1.8e19, 2147483647.5, 2147483648.5):
        try:
            pos.add(conv(v))
        except OverflowError:
            pass
    nr = (1500 if thorough else 350)
    for _ in range(nr):
        r = rnd.random()
        if r < 0.5:      # exponents where the fraction bits matter
            e = rnd.randint(bias - 3, bias + mbits + 2)
            pos.add((e << mbits) | rnd.getrandbits(mbits))
        elif r < 0.8:
            pos.add(rnd.getrandbits(ebits + mbits))
        else:            # few significant fraction bits
            e = rnd.randint(bias - 2, bias + 12)
            pos.add((e << mbits) | (rnd.getrandbits(6) << (mbits - 6)))
    pos = {p for p in pos if 0 <= p < sign}
    if not thorough:
        keep = sorted(pos)
        # quick tier: every other pattern of the dense 2^k region for binary64 is enough
        pos = set(keep)
    out = sorted(pos) + sorted(p | sign for p in pos)
    return out


def is_nan(fmt, b):
    ebits, mbits = (8, 23) if fmt == 32 else (11, 52)
    return (b & ((1 << (ebits + mbits)) - 1)) > (((1 << ebits) - 1) << mbits)


def arg_bits(fmt, b):
    return b if fmt == 32 else s64(b)


# ---------------------------------------------------------------- exact arithmetic on patterns (fma classes)
from fractions import Fraction as _Q


def _fmt(fmt):
    return (8, 23) if fmt == 32 else (11, 52)


def is_inf(fmt, b):
    ebits, mbits = _fmt(fmt)
    return (b & ((1 << (ebits + mbits)) - 1)) == (((1 << ebits) - 1) << mbits)


def is_fin(fmt, b):
    return not is_nan(fmt, b) and not is_inf(fmt, b)


def exact(fmt, b):
    """the rational value of a finite pattern"""
    ebits, mbits = _fmt(fmt)
    bias = (1 << (ebits - 1)) - 1
    a = b & ((1 << (ebits + mbits)) - 1)
    e, m = a >> mbits, a & ((1 << mbits) - 1)
    mag = m if e == 0 else ((1 << mbits) + m) << (e - 1)
    v = _Q(mag, 1 << (bias - 1 + mbits))
    return -v if b >> (ebits + mbits) else v


def _ilog2(q):
    """floor(log2 q) of a positive rational"""
    k = q.numerator.bit_length() - q.denominator.bit_length()
    if _Q(2) ** k > q:
        k -= 1
    return k


def _rne(q):
    n = q.numerator // q.denominator
    r = q - n
    return n + 1 if (r > _Q(1, 2) or (r == _Q(1, 2) and n % 2 == 1)) else n


def round_info(fmt, e):
    """(folds, overflows) for the exact rational e: `folds` = e rounded to nearest even at the precision of the format with
    an unbounded exponent range is a finite value of the format (GCC's condition for folding a libm builtin through
    MPFR); `overflows` = the correctly rounded result is infinite"""
    ebits, mbits = _fmt(fmt)
    bias = (1 << (ebits - 1)) - 1
    if e == 0:
        return True, False
    a = abs(e)
    k = _ilog2(a)
    quantum = _Q(2) ** (k - mbits)
    v = _rne(a / quantum) * quantum
    unit = _Q(2) ** (1 - bias - mbits)
    maxfin = (_Q(2) - _Q(2) ** (-mbits)) * _Q(2) ** bias
    if k >= 1 - bias:
        return v <= maxfin, v > maxfin
    return (v / unit).denominator == 1, False


def fma_class(fmt, x, y, z):
    """recomputed from the case alone: (outside_domain, residual).
    outside_domain: the fused result is not defined (inf*0, inf-inf among non-NaN arguments) or overflows;
    residual (finding F-c13-fma-constexpr-unfolded, = Tetl.C13.FmaSqrt.FmaResidual): GCC does not fold the builtin and
    x, y are finite with z finite or the rounded product overflowing, or inf*0 meets a NaN addend"""
    nan = [is_nan(fmt, b) for b in (x, y, z)]
    inf = [is_inf(fmt, b) for b in (x, y, z)]
    fin = [not nan[i] and not inf[i] for i in range(3)]
    zero = [fin[i] and exact(fmt, (x, y, z)[i]) == 0 for i in range(3)]
    prod_invalid = (inf[0] and zero[1]) or (zero[0] and inf[1])
    sgn = lambda b: b >> (fmt - 1)
    outside = False
    if not any(nan):
        if prod_invalid:
            outside = True
        elif (inf[0] or inf[1]) and inf[2] and ((sgn(x) ^ sgn(y)) != sgn(z)):
            outside = True
    folds = False
    prod_over = False
    if fin[0] and fin[1]:
        p = exact(fmt, x) * exact(fmt, y)
        prod_over = round_info(fmt, p)[1]
        if fin[2]:
            folds, over = round_info(fmt, p + exact(fmt, z))
            outside = outside or over
    residual = (not folds) and ((fin[0] and fin[1] and (fin[2] or prod_over)) or (nan[2] and prod_invalid))
    return outside, residual


# ---------------------------------------------------------------- generator
_CACHE = {}


def generate(tier, seed):
    key = (tier, seed)
    if key in _CACHE:
        return _CACHE[key]
    rnd = random.Random(seed)
    thorough = tier == "thorough"
    cases, dist = [], {}

    def add(line, tag):
        cases.append(Case(line, tag))
        dist[tag] = dist.get(tag, 0) + 1

    # --- integers: all 8-bit values
    for x in range(256):
        add(mk("popcount_u8", x=x), "popcount")
    yb_i = {-128, -127, -126, -65, -64, -63, -2, -1, 0, 1, 2, 62, 63, 64, 126, 127}
    yb_u = {0, 1, 2, 63, 64, 127, 128, 129, 191, 192, 253, 254, 255}
    for x in range(-128, 128):
        for y in range(-128, 128):
            add(mk("add_sat_i8", x=x, y=y), "add_sat")
            if thorough or y in yb_i or (x + y) in (-130, -129, -128, -127, 126, 127, 128, 129):
                add(mk("add_sat_fb_i8", x=x, y=y), "add_sat_fb")
    for x in range(256):
        for y in range(256):
            add(mk("add_sat_u8", x=x, y=y), "add_sat")
            if thorough or y in yb_u or (x + y) in (253, 254, 255, 256, 257):
                add(mk("add_sat_fb_u8", x=x, y=y), "add_sat_fb")
    for f in CTYPE:
        for c in range(-1, 256):
            add(mk("ctype", c=c, f=f), "ctype")
    for w in (16, 32, 64):
        vals = {0, 1, 2, (1 << w) - 1, (1 << w) - 2, 1 << (w - 1), (1 << (w - 1)) - 1, (1 << (w - 1)) + 1,
                0x0102030405060708 & ((1 << w) - 1), 0xF0E0D0C0B0A09080 >> (64 - w), 0x00FF00FF00FF00FF & ((1 << w) - 1)}
        for k in range(w):
            vals.update([1 << k, (1 << k) - 1, ((1 << k) + 1) & ((1 << w) - 1), ((1 << w) - 1) ^ (1 << k), 0xFF << k & ((1 << w) - 1)])
        for _ in range(3000 if thorough else 300):
            vals.add(rnd.getrandbits(w))
        if w == 16 and thorough:
            vals.update(range(1 << 16))
        for v in sorted(vals):
            a = v if w < 64 else s64(v)
            add(mk("popcount_u%d" % w, x=a), "popcount")
            add(mk("byteswap_u%d" % w, x=a), "byteswap")
            add(mk("byteswap_fb_u%d" % w, x=a), "byteswap_fb")
        for sg in (True, False):
            t = ("i" if sg else "u") + str(w)
            lo, hi = (-(1 << (w - 1)), (1 << (w - 1)) - 1) if sg else (0, (1 << w) - 1)
            edge = sorted({lo, lo + 1, lo + 2, hi, hi - 1, hi - 2, 0, 1, 2, (lo + hi) // 2, (lo + hi) // 2 + 1} |
                          ({-1, -2} if sg else set()))
            pairs = {(x, y) for x in edge for y in edge}
            for _ in range(4000 if thorough else 400):
                x = rnd.randint(lo, hi)
                r = rnd.random()
                if r < 0.4:      # near the saturation boundary
                    y = (hi - x if x >= 0 else lo - x) + rnd.randint(-2, 2)
                    y = min(max(y, lo), hi)
                else:
                    y = rnd.randint(lo, hi)
                pairs.add((x, y))
            for x, y in sorted(pairs):
                ax, ay = (x, y) if (sg or w < 64) else (s64(x), s64(y))
                add(mk("add_sat_" + t, x=ax, y=ay), "add_sat")
                add(mk("add_sat_fb_" + t, x=ax, y=ay), "add_sat_fb")

    # --- C strings
    A = [97, 98, 0x80, 0xFF]
    strs = [[]] + [[a] for a in A] + [[a, b] for a in A for b in A]
    for s in strs:
        add(mk("strlen", s=lib.fmt_list(s)), "strlen")
        for c in sorted(set(A + [0, 99, 256 + 97, -1, -128, 0x180])):
            add(mk("strchr", c=c, s=lib.fmt_list(s)), "strchr")
        for t in strs:
            add(mk("strcmp", a=lib.fmt_list(s), b=lib.fmt_list(t)), "strcmp")
            for n in range(0, 4):
                add(mk("strncmp", a=lib.fmt_list(s), b=lib.fmt_list(t), n=n), "strncmp")
    for _ in range(3000 if thorough else 400):
        alpha = rnd.choice([[97, 98], [97, 98, 99, 200], [1, 127, 128, 255]])
        n = rnd.randint(0, 24)
        s = [rnd.choice(alpha) for _ in range(n)]
        t = list(s)
        if t and rnd.random() < 0.7:
            t[rnd.randrange(len(t))] = rnd.choice(alpha)
        if rnd.random() < 0.4:
            t = t[: rnd.randint(0, len(t))]
        add(mk("strlen", s=lib.fmt_list(s)), "strlen")
        add(mk("strcmp", a=lib.fmt_list(s), b=lib.fmt_list(t)), "strcmp")
        add(mk("strncmp", a=lib.fmt_list(s), b=lib.fmt_list(t), n=rnd.randint(0, n + 2)), "strncmp")
        add(mk("strchr", c=rnd.choice(alpha + [0, 7]), s=lib.fmt_list(s)), "strchr")

    # --- cmath
    for fmt in (32, 64):
        sfx = "_f%d" % fmt
        tbl = boundary(fmt, rnd, thorough)
        dist["boundary" + sfx] = len(tbl)
        for b in tbl:
            a = arg_bits(fmt, b)
            for fn in ("floor", "ceil", "trunc", "round", "rint", "signbit", "isnan", "isinf", "isfinite", "bit_cast", "sqrt"):
                add(mk(fn + sfx, x=a), fn)
            conv_limit = 2.0 ** 63
            val = struct.unpack("<f", struct.pack("<I", b))[0] if fmt == 32 else struct.unpack("<d", struct.pack("<Q", b))[0]
            if val == val and (abs(val) < conv_limit or val == -conv_limit):          # the domain of lrint: result representable (-2^63 included)
                add(mk("lrint" + sfx, x=a), "lrint")
                add(mk("llrint" + sfx, x=a), "lrint")
        few = [b for b in tbl if rnd.random() < (0.05 if thorough else 0.03)]
        core = [0, 1, (1 << (fmt - 1)), (1 << (fmt - 1)) | 1] + [tbl[i] for i in (len(tbl) // 7, len(tbl) // 3, len(tbl) // 2 + 5, len(tbl) - 3)]
        ebits, mbits = (8, 23) if fmt == 32 else (11, 52)
        specials = [((1 << ebits) - 1) << mbits, (((1 << ebits) - 1) << mbits) | (1 << (fmt - 1)),
                    (((1 << ebits) - 1) << mbits) | (1 << (mbits - 1)), (((1 << ebits) - 1) << mbits) | (1 << (mbits - 1)) | (1 << (fmt - 1)),
                    ((1 << (ebits - 1)) - 1) << mbits, (((1 << (ebits - 1)) - 1) << mbits) | (1 << (fmt - 1))]
        ys = sorted(set(core + specials))
        for x in sorted(set(few + core + specials)):
            for y in ys:
                add(mk("copysign" + sfx, x=arg_bits(fmt, x), y=arg_bits(fmt, y)), "copysign")
        # fma
        one = ((1 << (ebits - 1)) - 1) << mbits
        conv = f32bits if fmt == 32 else f64bits

        def val_of(b):
            return struct.unpack("<f", struct.pack("<I", b))[0] if fmt == 32 else struct.unpack("<d", struct.pack("<Q", b))[0]

        def fma_case(x, y, z, tag):
            # rows outside the domain (fused result undefined or overflowing) are not constant expressions: each of them
            # costs the quick tier a recompilation round, so it keeps only the tagged ones (`fma/outside`)
            if not thorough and tag != "fma/outside" and fma_class(fmt, x, y, z)[0]:
                return
            add(mk("fma" + sfx, x=arg_bits(fmt, x), y=arg_bits(fmt, y), z=arg_bits(fmt, z)), tag)

        sgn = 1 << (fmt - 1)
        nw = 600 if thorough else 120
        for _ in range(nw):          # double-rounding witnesses: x*y - RN(x*y)
            e1, e2 = rnd.randint(-20, 20), rnd.randint(-20, 20)
            x = ((one >> mbits) + e1 << mbits) | rnd.getrandbits(mbits if rnd.random() < 0.5 else 4)
            y = ((one >> mbits) + e2 << mbits) | rnd.getrandbits(mbits if rnd.random() < 0.5 else 4)
            if fmt == 32:
                p = f32bits(val_of(x) * val_of(y))          # one rounding from the exact double product
            else:
                p = f64bits(val_of(x) * val_of(y))
            fma_case(x, y, p ^ sgn, "fma/witness")
            fma_case(x, y, (p ^ sgn) + rnd.choice([-1, 1]), "fma/near")
        for a in range(1, 6):
            for b in range(1, 6):
                x, y = one + a, one + b
                p = conv(val_of(x) * val_of(y))
                fma_case(x, y, p ^ sgn, "fma/witness")
        smalls = [conv(float(v)) for v in (0.0, 1.0, 2.0, 3.0, 0.5, 1.5, 1024.0, 3.0 * 2 ** 20)]
        smalls += [s | sgn for s in smalls]
        for x in smalls:
            for y in smalls[:8]:
                for z in smalls[::2]:
                    fma_case(x, y, z, "fma/exact")
        for sp in specials[:4]:
            for o in (one, 0, sgn, specials[0], specials[2]):
                fma_case(sp, o, one, "fma/special")
                fma_case(o, sp, sp ^ sgn, "fma/special")
                fma_case(one, o, sp, "fma/special")
        for _ in range(3000 if thorough else 500):
            x, y, z = (rnd.choice(tbl) for _ in range(3))
            fma_case(x, y, z, "fma/random")
        # the two-step evaluation x*y+z overflows although the fused result is finite: inside the domain
        mx = (((1 << ebits) - 1) << mbits) - 1
        two, half_ = one + (1 << mbits), one - (1 << mbits)
        for (x, y, z) in ((mx, two, mx ^ sgn), (mx ^ sgn, two, mx), (two, mx, mx ^ sgn), (mx, one + 1, mx ^ sgn),
                          (mx - 5, two, (mx - 9) ^ sgn), (mx, two + 1, mx ^ sgn)):
            fma_case(x, y, z, "fma/cancel-overflow")
        for _ in range(200 if thorough else 40):
            x = mx - rnd.getrandbits(mbits)
            y = one + rnd.getrandbits(mbits)
            z = f32bits(-val_of(x)) if fmt == 32 else f64bits(-val_of(x))
            fma_case(x, y, z, "fma/cancel-overflow")
        # results in the subnormal range (GCC folds the builtin only when the rounded value is exactly a subnormal)
        eh = (((1 << (ebits - 1)) - 1) - (((1 << (ebits - 1)) - 2 + mbits) // 2 + 1))      # x = y = 2^eh: x*y = half a unit or a quarter
        tiny = [0, sgn, 1, 1 | sgn, 2, 3, 3 | sgn, (1 << mbits) - 1, 1 << mbits]
        for de in (-1, 0, 1, 2, 3):
            for mx_, my_ in ((0, 0), (1 << (mbits - 1), 0), (1 << (mbits - 1), 1 << (mbits - 1)), (1, 1), (3 << (mbits - 2), 0)):
                x = ((eh + de) << mbits) | mx_
                y = (eh << mbits) | my_
                for z in tiny:
                    fma_case(x, y, z, "fma/underflow")
                    fma_case(x | sgn, y, z, "fma/underflow")
        for _ in range(1500 if thorough else 300):
            bias_ = (1 << (ebits - 1)) - 1
            tgt = rnd.randint(-(bias_ - 1 + mbits) - 3, -(bias_ - 1) + 3)          # exponent of the product: subnormal range
            ex = rnd.randint(1, bias_)
            ey = min(max(tgt + 2 * bias_ - ex, 1), (1 << ebits) - 2)
            x = (ex << mbits) | rnd.getrandbits(mbits)
            y = (ey << mbits) | rnd.getrandbits(mbits if rnd.random() < 0.5 else 3)
            z = rnd.choice(tiny) if rnd.random() < 0.6 else rnd.getrandbits(mbits + 2) | (sgn if rnd.random() < 0.5 else 0)
            fma_case(x, y, z, "fma/underflow")
        # an overflowing product with an infinite or NaN addend (fused: the addend), inf*0 with a NaN addend
        inf_, qn = specials[0], specials[2]
        big = ((1 << ebits) - 2) << mbits
        for (x, y, z) in ((big, big, inf_), (big, big, inf_ | sgn), (big | sgn, big, inf_), (big, big, qn), (inf_, 0, qn), (0, inf_ | sgn, qn)):
            fma_case(x, y, z, "fma/product-overflow")
        # outside the domain: a few rows only (each is a compile error the check has to map back)
        for (x, y, z) in ((big, big, one), (inf_, 0, one), (inf_, one, inf_ | sgn)):
            fma_case(x, y, z, "fma/outside")
    generate_extra(add, dist, seed, thorough)          # review items T1..T5 (below)
    res = (cases, False, dist)
    _CACHE[key] = res
    return res


# ---------------------------------------------------------------- generator of the operations added by the review (T1..T5)
def _f64val(b):
    return struct.unpack("<d", struct.pack("<Q", b))[0]


def ld_value(x, d):
    """exact value (Fraction) of the long double argument LD(x, d) of harness/c13_ops.hpp; None for inf/NaN"""
    import fractions
    if is_nan(64, x) or (x & ((1 << 63) - 1)) == (0x7ff << 52):
        return None
    a = fractions.Fraction(_f64val(x))
    ef = (x >> 52) & 0x7ff
    if d and 64 <= ef <= 2045:
        u = fractions.Fraction(2) ** (ef - 1023 - 63)
        a = a - d * u if x >> 63 else a + d * u
    return a


def generate_extra(add, dist, seed, thorough):
    rnd = random.Random(seed * 1000003 + 13)          # own stream: the cases of the older operations do not move
    sgn32, sgn64 = 1 << 31, 1 << 63
    t32 = boundary(32, rnd, thorough)
    t64 = boundary(64, rnd, thorough)
    must32 = [f32bits(v) for v in (0.0, 0.5, 1.5, 2.5, 0.25, 0.75, 1.0, 8388607.5, 8388608.0, 4194304.5, 9.223372e18)]
    must32 += [0x7f800000, 0x7fc00000, 0x7f800001, 0x7fc00005, 0x5f000000, 0x5effffff, 1, 0x007fffff, 0x00800000]
    must32 += [b | sgn32 for b in must32]
    must64 = [f64bits(v) for v in (0.0, 0.5, 1.5, 2.5, 0.25, 0.75, 1.0, 4503599627370495.5, 4503599627370496.0,
                                   2251799813685248.5, 9007199254740992.0, 9007199254740994.0, 2.0 ** 62, 2.0 ** 63, 2.0 ** 64,
                                   1e300, 1.7976931348623157e308)]
    must64 += [0x7ff0000000000000, 0x7ff8000000000000, 0x7ff0000000000001, 0x7ff8000000000005, 0x43dfffffffffffff, 1,
               0x000fffffffffffff, 0x0010000000000000]
    must64 += [b | sgn64 for b in must64]
    st = 2 if thorough else 5
    smp32 = sorted(set(t32[rnd.randrange(st)::st] + must32))
    smp64 = sorted(set(t64[rnd.randrange(st)::st] + must64))
    dist["sample_f32"], dist["sample_f64"] = len(smp32), len(smp64)

    # T1(b): the f-suffixed spellings; T2: signbit_fallback<float/double>
    for b in smp32:
        for fn in ("floorf", "ceilf", "truncf", "roundf", "rintf"):
            add(mk(fn + "_f32", x=b), "suffix_f")
        v = struct.unpack("<f", struct.pack("<I", b))[0]
        if v == v and (abs(v) < 2.0 ** 63 or v == -2.0 ** 63):
            add(mk("lrintf_f32", x=b), "suffix_f")
            add(mk("llrintf_f32", x=b), "suffix_f")
    for b in t32[::2] + must32:
        add(mk("signbit_fb_f32", x=b), "signbit_fb")
    for b in t64[::2] + must64:
        add(mk("signbit_fb_f64", x=arg_bits(64, b)), "signbit_fb")
    # T3: copysign with NaN magnitudes of both signs (quiet, signalling, payload) and sign sources of both signs
    for fmt, nans, others in ((32, [0x7fc00000, 0x7f800001, 0x7fc12345, 0x7fffffff], [0, 0x3f800000, 0x7f800000, 0x7fc00000, 1]),
                              (64, [0x7ff8000000000000, 0x7ff0000000000001, 0x7ff8000012345678, 0x7fffffffffffffff],
                               [0, 0x3ff0000000000000, 0x7ff0000000000000, 0x7ff8000000000000, 1])):
        sg = 1 << (fmt - 1)
        xs = nans + [b | sg for b in nans] + others + [b | sg for b in others]
        ys = others + [b | sg for b in others] + [nans[1], nans[1] | sg]
        for x in xs:
            for y in ys:
                add(mk("copysign_f%d" % fmt, x=arg_bits(fmt, x), y=arg_bits(fmt, y)), "copysign/nan")
                if fmt == 32:
                    add(mk("copysignf_f32", x=x, y=y), "suffix_f")
    for x in smp32[::6]:
        for y in (0, sgn32, 0x3f800000, 0xbf800000, 0x7fc00000, 0xffc00000):
            add(mk("copysignf_f32", x=x, y=y), "suffix_f")

    # T1(a): long double.  d = further low units of the 64-bit significand (arguments that are not doubles)
    ldargs = set()
    for b in sorted(set(t64[rnd.randrange(8)::8] + must64)) if thorough else sorted(set(smp64[::2] + must64)):
        ldargs.add((b, 0))
        ef = (b >> 52) & 0x7ff
        if 64 <= ef <= 2045 and rnd.random() < 0.3:
            for d in (1, 2047, rnd.randrange(1, 2048)):
                ldargs.add((b, d))
    for k in range(52, 66):          # 2^k <= |x| < 2^(k+1): D(x) is an integer and d/2^(63-k) its fraction; half = 2^(62-k) units
        half = (1 << (62 - k)) if k <= 62 else 1024          # k >= 63: every value is an integer (2^64 - 1 = LD(2^64 - 2048, 2047))
        for m in [0, 1, (1 << 52) - 1] + [rnd.getrandbits(52) for _ in range(5 if thorough else 1)]:
            for s in (0, sgn64):
                x = ((1023 + k) << 52) | m | s
                for d in sorted({half, half - 1, half + 1, 2 * half, 3 * half, 1, 2047, 2048 - 2 * half, rnd.randrange(1, 2048)}):          # 2048 - 2 half: 2^(k+1) - 1
                    if 0 < d < 2048:
                        ldargs.add((x, d))
    ldargs = sorted(ldargs)
    dist["ld_args"] = len(ldargs)
    for i, (x, d) in enumerate(ldargs):
        for fn in LD_ROUND:
            if not thorough and fn in LD_ROUND[5:] and i % 2 == 1 and not (d == 2047 and (x >> 52) & 0x7ff == 1085):
                continue          # quick tier: the overload spelling (same detail function as the `l` spelling) on every other argument
            for p in (0, 1):
                add(mk(fn + "_ld", x=s64(x), d=d, p=p), "longdouble/round")
        a = ld_value(x, d)
        if a is not None and -(1 << 63) <= round(a) < (1 << 63):          # Fraction.__round__ rounds half to even
            for fn in (LD_LRINT if (thorough or i % 2 == 0) else LD_LRINT[:2]):
                add(mk(fn + "_ld", x=s64(x), d=d), "longdouble/lrint")
    for x, d in ldargs[::3] + [(b, 0) for b in must64]:
        for n in (0, 1):
            for fn in ("signbit", "isnan", "isinf", "isfinite"):
                add(mk(fn + "_ld", x=s64(x), d=d, n=n), "longdouble/class")
            # T2: detail::signbit_fallback<long double>; a negative NaN goes to its own table (finding
            # F-c13-signbit-fallback-longdouble-negative-nan)
            neg_nan = is_nan(64, x) and ((x >> 63) ^ n) == 1
            add(mk("signbit_fb_negnan_ld" if neg_nan else "signbit_fb_ld", x=s64(x), d=d, n=n),
                "signbit_fb/negnan" if neg_nan else "signbit_fb")
    grid = [0, 1, 0x3ff0000000000000, 0x3ff8000000000000, 0x7fefffffffffffff, 0x7ff0000000000000, 0x7ff8000000000000,
            0x7ff0000000000001]
    grid += [b | sgn64 for b in grid]
    for x in grid:
        for y in grid:
            for n in ((0, 1, 2, 3) if (is_nan(64, x) or is_nan(64, y) or thorough) else (0, 3)):
                add(mk("copysign_ld", x=s64(x), y=s64(y), n=n), "longdouble/copysign")
                add(mk("copysignl_ld", x=s64(x), y=s64(y), n=n), "longdouble/copysign")

    # T1(c): the integral overloads
    for w in (32, 64):
        lo, hi = -(1 << (w - 1)), (1 << (w - 1)) - 1
        vals = {0, 1, -1, 2, -2, 3, lo, lo + 1, hi, hi - 1}
        for k in range(1, w - 1):
            vals.update([1 << k, (1 << k) - 1, (1 << k) + 1, -(1 << k), -(1 << k) - 1, -(1 << k) + 1])
        if w == 64:          # the conversion to double rounds beyond 2^53
            for k in (53, 54, 60, 62):
                vals.update([(1 << k) + 1, (1 << k) + 2, (1 << k) + 3, -(1 << k) - 1, -(1 << k) - 3, (1 << k) + (1 << (k - 53)), (1 << k) + 3 * (1 << (k - 53))])
        for _ in range(400 if thorough else 60):
            vals.add(rnd.randint(lo, hi))
            vals.add(rnd.randint(-(1 << 20), 1 << 20))
        for v in sorted(vals):
            for fn in INT_OVERLOADS:
                if fn in ("lrint", "llrint") and not (-(2.0 ** 63) <= float(v) < 2.0 ** 63):
                    continue          # (double)v == 2^63: outside the domain of lrint
                add(mk("%s_i%d" % (fn, w), x=v), "integral")

    # T5: byteswap of one-byte and signed types
    for v in range(256):
        add(mk("byteswap_u8", x=v), "byteswap")
        add(mk("byteswap_i8", x=v - 128), "byteswap")
    for w in (16, 32, 64):
        lo, hi = -(1 << (w - 1)), (1 << (w - 1)) - 1
        vals = {0, 1, -1, 2, -2, lo, lo + 1, hi, hi - 1, 0x0102030405060708 & hi, -(0x0102030405060708 & hi), 0x80, 0xff, 0x7f, -0x80, -0x81}
        for k in range(w - 1):
            vals.update([1 << k, -(1 << k), (0xff << k) & hi])
        for _ in range(1000 if thorough else 100):
            vals.add(rnd.randint(lo, hi))
        for v in sorted(vals):
            add(mk("byteswap_i%d" % w, x=v), "byteswap")

    # T4: one constexpr row per remaining category
    def ilist(n, lo, hi):
        return [rnd.randint(lo, hi) for _ in range(n)]
    # containers: static_vector<int, 8>: push_back all, erase index k (if k < size), insert v at j (if j <= size < 8)
    for n in range(0, 4):          # small box
        a = [7, -3, 5][:n]
        for k in range(-1, n + 1):
            for j in range(-1, n + 2):
                add(mk("vec", a=lib.fmt_list(a), k=k, j=j, v=11), "ev_containers")
    for _ in range(1500 if thorough else 250):
        n = rnd.randint(0, 8)
        add(mk("vec", a=lib.fmt_list(ilist(n, -50, 50)), k=rnd.randint(-1, 9), j=rnd.randint(-1, 9), v=rnd.randint(-50, 50)), "ev_containers")
    # strings: inplace_string<16>: build a, append b, find c
    al = [97, 98, 99]
    small = [[]] + [[x] for x in al[:2]] + [[x, y] for x in al[:2] for y in al[:2]]
    for a in small:
        for b in small:
            for c in (97, 98, 99):
                add(mk("istr", a=lib.fmt_list(a), b=lib.fmt_list(b), c=c), "ev_strings")
    for _ in range(1500 if thorough else 200):
        na = rnd.randint(0, 15)
        nb = rnd.randint(0, 15 - na)
        alpha = rnd.choice([[97, 98], [97, 98, 99, 100], [1, 65, 127]])
        add(mk("istr", a=lib.fmt_list([rnd.choice(alpha) for _ in range(na)]), b=lib.fmt_list([rnd.choice(alpha) for _ in range(nb)]),
               c=rnd.choice(alpha + [122])), "ev_strings")
    # views: string_view substr(i, n) (i <= size), find, compare with the whole
    for a in small:
        for i in range(0, len(a) + 1):
            for n in range(0, 4):
                for c in (97, 98):
                    add(mk("sview", a=lib.fmt_list(a), c=c, i=i, n=n), "ev_views")
    for _ in range(1500 if thorough else 200):
        na = rnd.randint(0, 15)
        alpha = rnd.choice([[97, 98], [97, 98, 99, 100], [1, 65, 127]])
        add(mk("sview", a=lib.fmt_list([rnd.choice(alpha) for _ in range(na)]), c=rnd.choice(alpha + [122]), i=rnd.randint(0, na),
               n=rnd.randint(0, 17)), "ev_views")
    # algorithms: sort + lower_bound
    import itertools
    for n in range(0, 4):
        for a in itertools.product((1, 2, 3), repeat=n):
            for v in (0, 1, 2, 3, 4):
                add(mk("sortlb", a=lib.fmt_list(list(a)), v=v), "ev_algorithms")
    for _ in range(1500 if thorough else 200):
        n = rnd.randint(0, 8)
        r = rnd.choice([3, 10, 1000])
        add(mk("sortlb", a=lib.fmt_list(ilist(n, -r, r)), v=rnd.randint(-r - 1, r + 1)), "ev_algorithms")
    # integer conversion: to_chars / from_chars of an int32_t in base b
    cv = {0, 1, -1, 9, 10, -10, 35, 36, 37, 255, 256, -255, (1 << 31) - 1, -(1 << 31), -(1 << 31) + 1, 1 << 30, 12345, -98765}
    for v in sorted(cv):
        for b in range(2, 37):
            add(mk("conv", x=v, b=b), "ev_charconv")
    for _ in range(1500 if thorough else 150):
        v = rnd.choice([rnd.randint(-(1 << 31), (1 << 31) - 1), rnd.randint(-5000, 5000)])
        add(mk("conv", x=v, b=rnd.choice([2, 8, 10, 16, 36, rnd.randint(2, 36)])), "ev_charconv")
    # chrono: year_month_day{sys_days{days{n}}}
    dv = set(range(-800, 800, 1 if thorough else 7)) | {0, -1, 1, 58, 59, 60, 365, 366, 11016, 11017, 11018, -719468, -719469, 10957, 19782}
    for y in (1900, 2000, 2100, 2400, 1600, 1, 0, -1, -400, 30000, -30000):          # around 28 Feb / 1 Mar and the new year
        base = (y - 1970) * 365 + (y - 1969) // 4 - (y - 1901) // 100 + (y - 1601) // 400
        dv.update(range(base - 2, base + 2))
        dv.update(range(base + 57, base + 62))
    for _ in range(1500 if thorough else 200):
        dv.add(rnd.randint(-11000000, 11000000))
    for n in sorted(dv):
        add(mk("ymd", n=n), "ev_chrono")


# ---------------------------------------------------------------- tables, variants, compile-failure recovery
TBL = os.path.join(lib.BUILD, "c13_tables.hpp")
PLAIN = ["-std=c++20", "-g0", "-fPIC", "-shared", "-fvisibility=hidden", "-Wno-deprecated-declarations"]
CE_FAIL = {}          # canonical line -> first compiler message
PERVAR = set()        # tables emitted with one constexpr variable per row (after a first failure in them)


def write_tables(lines, cfail):
    """one row per distinct case line, sorted by key inside each table; returns {source line number: case line}"""
    per = {t: [] for t in TABLES}
    seen = set()
    for ln in lines:
        c = canon(ln)
        if c in seen:
            continue
        seen.add(c)
        per[table_of(c)].append((fnv(c), c))
    out = ["// GENERATED by checks/props/c13.py from the cases of this run; one row per case line.", ""]
    where = {}
    for t in TABLES:
        rows = sorted(per[t])
        keys = [k for k, _ in rows]
        if len(set(keys)) != len(keys):
            raise lib.MachineryError("c13: key collision in table " + t)
        if t in PERVAR:
            # every row value is its own constexpr variable on its own line: the compiler then reports every row that is
            # not a constant expression (inside one array initialiser it stops at the first one)
            for j, (k, c) in enumerate(rows):
                expr = "c13::CFAIL" if c in cfail else cxx_expr(c)
                out.append("inline constexpr c13::u64 v_%s_%d = %s; // %s" % (t, j, expr, c))
                where[len(out)] = c
            out.append("inline constexpr c13::Row tbl_%s[] = {" % t)
            for j, (k, c) in enumerate(rows):
                out.append("  C13_R(0x%016xull, v_%s_%d)," % (k, t, j))
        else:
            out.append("inline constexpr c13::Row tbl_%s[] = {" % t)
            for k, c in rows:
                expr = "c13::CFAIL" if c in cfail else cxx_expr(c)
                out.append("  C13_R(0x%016xull, %s), // %s" % (k, expr, c))
                where[len(out)] = c
        out.append("  C13_R(0xffffffffffffffffull, 0)};")
        out.append("inline constexpr std::size_t n_%s = %d;" % (t, len(rows)))
    os.makedirs(lib.BUILD, exist_ok=True)
    with open(TBL, "w") as f:
        f.write("\n".join(out) + "\n")
    return where


def build_variant(name, opt):
    out = os.path.join(lib.BUILD, "libc13_%s.so" % name)
    cmd = [lib.CXX] + PLAIN + [opt, "-DC13_VARIANT_FN=c13_eval_" + name, "-I", os.path.join(lib.REPO, "include"),
                               "-I", os.path.join(lib.VERIF, "harness"), "-I", lib.BUILD,
                               os.path.join(lib.VERIF, "harness", "c13_variant.cpp"), "-o", out]
    rc, o, e = lib.sh(cmd, timeout=1800)
    return rc == 0, o + e


ERR_RE = re.compile(r"c13_tables\.hpp:(\d+):\d+:\s+(?:error|in .constexpr. expansion)[^\n]*")


def prepare(lines):
    """tables + the two shared objects; rows that are not constant expressions are found from the compiler's
    diagnostics, recorded in CE_FAIL and replaced by the CFAIL marker (at most 6 rounds)"""
    import concurrent.futures as cf
    cfail = set()
    for rnd_no in range(8):
        where = write_tables(lines, cfail)
        with cf.ThreadPoolExecutor(max_workers=2) as ex:
            f0 = ex.submit(build_variant, "O0", "-O0")
            f2 = ex.submit(build_variant, "O2", "-O2")
            ok, msg = f0.result()
            ok2, msg2 = f2.result()
        if ok:
            break
        new = {}
        mlines = msg.splitlines()
        for i, ml in enumerate(mlines):
            m = ERR_RE.search(ml)
            if m and int(m.group(1)) in where:
                c = where[int(m.group(1))]
                if c not in new:
                    detail = next((x.strip() for x in mlines[i:i + 12] if "error:" in x), ml.strip())
                    new[c] = detail[:300]
        new = {c: d for c, d in new.items() if c not in cfail}
        if not new:
            raise lib.MachineryError("c13: the -O0 build of the operations does not compile:\n" + msg[-1500:])
        for c, d in new.items():
            CE_FAIL[c] = d
            cfail.add(c)
            PERVAR.add(table_of(c))
    else:
        raise lib.MachineryError("c13: constant-evaluation failures did not converge")
    if not ok2:
        raise lib.MachineryError("c13: the -O2 build of the operations does not compile:\n" + msg2[-1500:])
    for c, d in sorted(CE_FAIL.items())[:20]:
        log("not a constant expression: %s   [%s]" % (c, d))
    if len(CE_FAIL) > 20:
        log("  (%d further rows are not constant expressions)" % (len(CE_FAIL) - 20))
    return cfail


HARNESS_FLAGS = ["-I", lib.BUILD, "-L", lib.BUILD, "-Wl,--no-as-needed", "-lc13_O0", "-lc13_O2", "-Wl,-rpath," + lib.BUILD]


def regenerate(ctx):
    out = os.path.join(lib.LEAN, "Tetl", "C13", "Dispatch.lean")
    info = dispatch.generate(lib.REPO, out)
    res = {"generated_file": os.path.relpath(out, lib.VERIF), "hash": info["hash"], "changed": info["changed"],
           "entries": len(info["entries"]), "translator": info["translator"],
           "functions": sorted({e["fn"] for e in info["entries"]}),
           "not_constant_expressions": dict(sorted(CE_FAIL.items())[:50])}
    if info["errors"]:
        res["error"] = "; ".join(info["errors"][:5])
    return res


def run(ctx, replay):
    """the standard flow of check.py, preceded by the generation of the compile-time tables for exactly the cases
    that will be run (generated cases, corpus, known-finding witnesses, or the cases of a replay file)"""
    import json
    import check
    if replay:
        lines = list(json.load(open(replay))["cases"])
    else:
        lines = [ln for c in generate(ctx.tier, ctx.seed)[0] for ln in c.lines]
        for e in lib.load_known(PROP).values():
            lines += e.get("witness") or []
        for c in check.load_corpus(PROP):
            lines += c.lines
    prepare(lines)
    me = sys.modules[__name__]
    view = types.SimpleNamespace(**{k: getattr(me, k) for k in dir(me) if not k.startswith("__") and k != "run"})
    tier0 = ctx.tier

    def gen(tier, seed):
        if tier != tier0:          # the escalated search would need other compile-time tables: not available
            ctx.notes.append("escalated search skipped: the compile-time tables hold the cases of the %s tier" % tier0)
            return [], False, {}
        return generate(tier, seed)
    view.generate = gen
    return check.standard(view, ctx, replay)


# ---------------------------------------------------------------- classification
def nontrivial(case, rows):
    r = rows[0]
    if r.spec == "*":
        return False
    _, a = parse(case.lines[0])
    first = r.spec.split(" ")[0].split("/")[0]
    x = a.get("x")
    if x is None:
        return first not in ("0", "null")
    try:
        xi = int(x)
    except ValueError:
        return True
    op = case.lines[0].split(" ")[0]
    if op.endswith("_f32"):
        return first not in ("%08x" % (xi & 0xFFFFFFFF), "0")
    if op.endswith("_f64"):
        return first not in ("%016x" % (xi & ((1 << 64) - 1)), "0")
    return first != str(xi)


def classify(case, k, row):
    """F-c13-fma-constexpr-unfolded: since the fix 2d96e3e the constant-evaluated path of fma is the fused builtin wherever
    GCC folds it; the remaining arguments run x*y+z (two roundings, each a possible overflow/invalid operation).  The class
    is recomputed from the arguments of the case alone, in exact rational arithmetic (`fma_class`, the Python twin of
    Tetl.C13.FmaSqrt.FmaResidual, the hypothesis of Tetl.C13.Props.fma_paths_partial): no result column is read."""
    op, a = parse(case.lines[k])
    if op not in ("fma_f32", "fma_f64"):
        return None
    fmt = 32 if op.endswith("32") else 64
    m = (1 << fmt) - 1
    outside, residual = fma_class(fmt, int(a["x"]) & m, int(a["y"]) & m, int(a["z"]) & m)
    return "F-c13-fma-constexpr-unfolded" if (residual and not outside) else None


def group_of(case):
    return case.tag.split("/")[0]


CLAIMED = True
TECHNIQUE = ("Lean 4 proof that tetl's own code on one path equals the specification of the compiler builtin on the other, over an "
             "inventory of two-path functions regenerated from the headers on every run; three-way correspondence run "
             "(constant evaluator / run time at -O0, -O2, sanitized / Lean) ties both paths to the specification")
LEVEL_TEXT = ("Every function with a compile-time/run-time switch (is_constant_evaluated, __has_builtin, compiler test) is extracted from "
              "the current headers into a Lean table on every run; Lean re-checks that each entry's builtins and callees are bound to "
              "one specification, that fmod, remainder and sqrt run the same builtin on both paths under GCC, and that fma (on the "
              "arguments for which GCC does not fold the builtin) is the only live pair known to differ. For popcount, byteswap "
              "(16 bit), add_sat, the C-string functions (re-exports of the theorems of C14/C18), copysign, signbit (4/8-byte "
              "types), isnan, the special-value ladder of the constant-evaluated sqrt, the constant-evaluated fma outside the "
              "known class (every format, NaN/inf included) and the constant-evaluated gcem floor/ceil/trunc/round (modelled "
              "operation by operation with IEEE roundings) the model of tetl's own code on one path is proved, for all inputs and every "
              "width/format, to return without undefined behaviour exactly the value specified for the builtin on the other path; for "
              "rint_fallback it is proved that no argument reaches an out-of-range integer conversion (the "
              "model-level face of `constant evaluation succeeds on the whole domain`). Both paths of every operation are then evaluated "
              "on the same inputs by the constant evaluator (constexpr tables, one row per case; a row that does not constant-evaluate is "
              "reported with function and argument) and at run time from volatile arguments at -O0, -O2 and -O1+ASan/UBSan, and compared "
              "with the Lean models and specification and with glibc/libstdc++.")
LEVEL_NOTE = ("Partial by design (DESIGN §6): that GCC's constant evaluator and code generator implement the abstract machine, and that "
              "builtins implement their specification, is trusted and observed on the explored inputs only (coverage.unproved_observed). "
              "The rint/lrint fallbacks are modelled and compared on every run but have no value theorem yet "
              "(coverage.correspondence_only). fmod and remainder are inventoried and bound here and evaluated on both paths by "
              "property C16; sqrt (correctly rounded, hence exact) has its own specification FSpec.sqrt, rows and ladder theorem "
              "here. Known finding: fma for the arguments GCC does not fold (F-c13-fma-constexpr-unfolded: class defined on the "
              "arguments, partial theorem + two counterexamples). Approximating cmath functions are inventoried but have no exactly specified result and "
              "are outside the statement. Trusted: Lean kernel + propext/Classical.choice/Quot.sound, gen/dispatch.py, g++ 12, glibc "
              "as oracle for the specification.")
CORRESPONDENCE_ONLY = [
    "rint_fallback (Model.rintFallback): value by correspondence; totality proved (rintFallback_total)",
    "lrint_fallback / llrint (Model.lrintFallback): correspondence only, on the domain where the result is representable",
    "fma: constant-evaluated path Model.fmaCt = fused where GCC folds the builtin, two-step x*y+z elsewhere; proved equal to the "
    "fused specification outside the argument class FmaResidual (fma_paths_partial); inside it: known finding "
    "F-c13-fma-constexpr-unfolded (two counterexample theorems), compared on every row",
    "sqrt: FSpec.sqrt (integer square root + sticky bit, rounded by roundUnits) is validated against glibc on every row (R2), not "
    "proved against a real-number semantics; the ladder in front of the builtin is proved (sqrt_paths)",
    "byteswap_fallback for uint32_t / uint64_t (C14 model bswap32/bswap64): correspondence only (16 bit proved: byteswap_paths)",
    "signbit, isinf, isfinite, bit_cast, byteswap, add_sat (builtin on both paths): compared with the specification on every case",
    "cctype functions (single path): C18 model and specification, all 257 arguments in constant evaluation and at run time",
    "IEEE operations of Tetl/C13/Float.lean (roundUnits, add, mul, fma) used as the specification of rounding/fma: validated "
    "against glibc on every case (R2), not proved against a rational-number semantics (that is C16's obligation)"]
THEOREMS = {}


# ---------------------------------------------------------------- finding of the long double rows (kept apart from classify() above)
def classify_ld_below_2p63(case, k, row):
    """F-c13-roundl-overflow-below-2p63.  The class is recomputed from the arguments: the long double argument is
    +-(2^63 - 1/2), the only value of the 64-bit significand in [2^63 - 1/2, 2^63): LD(x, d) with |x| = 0x43dfffffffffffff
    (2^63 - 1024) and d = 2047, operation round(long double) / roundl.  gcem round (both paths) converts floor(|x|) + 1 = 2^63 to
    long long: not a constant expression; at run time the out-of-range conversion gives the result the wrong sign.
    (rint/rintl of the same argument failed to constant-evaluate until 21f1c9f: fixed finding
    F-c13-rintl-constexpr-overflow-below-2p63.)"""
    op, a = parse(case.lines[k])
    if op not in ("round_ld", "roundl_ld") or a.get("d") != "2047":
        return None
    x = int(a["x"]) & ((1 << 64) - 1)
    if (x & ((1 << 63) - 1)) != 0x43dfffffffffffff:
        return None
    return "F-c13-roundl-overflow-below-2p63"


_classify_two_path = classify


def classify(case, k, row):          # noqa: F811  (wraps the classifier above; no change to it)
    return classify_ld_below_2p63(case, k, row) or _classify_two_path(case, k, row)


# the tables that hold rows known not to constant-evaluate (findings ...-below-2p63) are emitted with one constexpr variable per
# row from the first compilation on: every failing row is then reported by that compilation (one recovery round instead of two)
PERVAR.update(("round_ld", "roundl_ld"))
