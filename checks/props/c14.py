"""C14 — bit and integer utilities equal their mathematical definition for all values (DESIGN §4 C14)."""
import math
import random

from lib import Case

PROP = "C14"
DRIVER = "drv-c14"
GEN_PROOF_MODULES = ["TetlProofs.C14.GenBits", "TetlProofs.C14.GenMid", "TetlProofs.C14.GenArith", "TetlProofs.C14.GenCmpEq",
                     "TetlProofs.C14.GenCmpLt", "TetlProofs.C14.GenCmpD1", "TetlProofs.C14.GenCmpD2", "TetlProofs.C14.GenRange",
                     "TetlProofs.C14.GenSat", "TetlProofs.C14.GenProps"]
PROOF_MODULES = ["TetlProofs.C14.Props"] + GEN_PROOF_MODULES
HARNESS = "harness/c14.cpp"
SOURCES = ["include/etl/_bit", "include/etl/_numeric/add_sat.hpp", "include/etl/_numeric/div_sat.hpp",
           "include/etl/_numeric/saturate_cast.hpp", "include/etl/_numeric/midpoint.hpp",
           "include/etl/_numeric/gcd.hpp", "include/etl/_numeric/lcm.hpp", "include/etl/_numeric/abs.hpp",
           "include/etl/_math/abs.hpp", "include/etl/_math/idiv.hpp", "include/etl/_math/ipow.hpp",
           "include/etl/_math/ilog2.hpp", "include/etl/_utility/cmp_less.hpp", "include/etl/_utility/cmp_equal.hpp",
           "include/etl/_utility/cmp_greater.hpp", "include/etl/_utility/cmp_less_equal.hpp",
           "include/etl/_utility/cmp_greater_equal.hpp", "include/etl/_utility/cmp_not_equal.hpp",
           "include/etl/_utility/in_range.hpp", "include/etl/experimental/net/byte_order.hpp"]
RULE = ("per function and type: every value of the 8-bit types (every pair for binary functions, every (To,From) / (T,U) "
        "combination of the 8-bit types for saturate_cast, in_range, cmp_*, gcd, lcm); every 16-bit value for unary "
        "functions; for 16-bit binary functions boundary x boundary plus random x boundary (quick) or all 2^16 x a "
        "24-point boundary grid (thorough); for 32/64-bit every single-bit value, every all-ones-below-bit value, their "
        "+-1 neighbours, the limits, their negatives for signed types, and seeded random values / pairs; rotation counts "
        "-130..130 plus INT_MIN/INT_MAX and neighbours; all 100 ordered pairs of the ten builtin types for cmp_*, "
        "in_range, saturate_cast (values: limits of both types +-1); the character types char, wchar_t, char8_t, "
        "char16_t, char32_t for the functions constrained by `integral` (byteswap, abs, ilog2, ipow, ipow<2>, idiv, "
        "midpoint, gcd, lcm: all 8-bit values, boundary/random values of the wider ones); midpoint's pointer overload on "
        "every pair of positions of arrays of 0..33 elements and boundary/random positions of arrays up to 2^20 elements.  "
        "Only arguments inside the documented domain are "
        "generated (the same decidable predicates as the hypotheses of the Lean theorems: bit_ceil x <= 2^(w-1); "
        "bit position < w; divisor != 0 and quotient representable; |m|,|n| (gcd) and the result (lcm, ipow, abs) "
        "representable; both pointers into one array; ilog2: every value, zero and the negative ones included).  "
        "A line carries up to 32 evaluations (list argument).  A line is non-trivial "
        "when its expected results are not all equal to each other, to 0/1 or to the first argument; distinct = "
        "distinct line text.")
ASSUMPTIONS = ["libstdc++ 12 <bit>/<numeric>/<utility> and exact __int128 arithmetic are the reference for spec validation (R2)",
               "an integer type is modelled as (width, signedness); long and long long are both the 64-bit type",
               "compiler builtins (__builtin_popcount*, __builtin_bswap*, __builtin_add_overflow) are assumed to implement "
               "their documentation; the harness observes both the builtin and the portable fallback on every input",
               "host is little-endian (ntoh/hton swap unconditionally in the source)",
               "x86-64 Linux data model: char = signed 8 bit, wchar_t = signed 32 bit, char16_t/char32_t/char8_t = unsigned "
               "16/32/8 bit, ptrdiff_t = signed 64 bit (static_assert in the harness); a pointer into an array is modelled "
               "as its index 0..len",
               "ilog2 of x <= 0 has no independent reference (no std counterpart, no logarithm): the reference column "
               "restates the documented value 0, so R2 is vacuous there while R1/R3 (code = model = theorem value) are not"]
TRUSTED = ["hand model Tetl/C14/Model.lean tied to the source by the correspondence run (R1) on every run; its straight-line "
           "kernels additionally by translation (gen/translate.py job set BITS_JOBS -> Tetl/C14/Gen.lean on every run; "
           "TetlProofs/C14/Gen*.lean: generated = hand model and generated UB obligation = true on the documented domain, for all "
           "values): bit_width, bit_floor, bit_ceil (both branches), has_single_bit, rotl, rotr, test/set/reset/flip_bit, "
           "set_bit(word, pos, value), byteswap_fallback (u8..u64 resp. u16..u64), midpoint<Int>, add_sat, div_sat, abs<T> "
           "(u8..u64, i8..i64), the six cmp_*, in_range, saturate_cast (all 64 ordered pairs of those eight types)",
           "loops stay hand-modelled and tie H only: countl_zero, popcount / popcount_fallback (the generated bit_width / "
           "has_single_bit call the hand model's through Tetl/C14/GenExt.lean), countl_one, countr_zero, countr_one, gcd, lcm, "
           "ipow, ilog2; also hand-modelled only: add_sat_fallback (etl::clamp with a comparator object), idiv, ipow<2>, "
           "byteswap / ntoh / hton dispatch, midpoint(Ptr, Ptr), abs(int|long|long long) of _math/abs.hpp (C10 translates it), "
           "and every function on ull / ll / the character types (same bodies, other type names)",
           "gen/translate.py v3, clang-16's AST (-Wno-c++11-narrowing: clang rejects the `UInt{x - 1U}` of bit_ceil for "
           "8/16-bit types, g++ only warns), Tetl/CSemBits.lean (C++20 shift / bit-operator semantics) and "
           "__builtin_add_overflow modelled as documented in the GCC manual (CSemBits.addOverflowVal / addOverflowFlag)",
           "spec Tetl/C14/Spec.lean validated against libstdc++/__int128 (R2) on every run"]
SEARCH_CAP = 400000

UT = {"u8": 8, "u16": 16, "u32": 32, "u64": 64, "ull": 64}
ST = {"i8": 8, "i16": 16, "i32": 32, "i64": 64, "ll": 64}
ALL = dict(UT)
ALL.update(ST)
# character types (x86-64 Linux: char and wchar_t signed): accepted only by the `integral` functions
CT = {"ch": (8, True), "wch": (32, True), "ch8": (8, False), "ch16": (16, False), "ch32": (32, False)}
WIDTH = dict(ALL)
WIDTH.update({k: v[0] for k, v in CT.items()})
CHAR_UNARY = ["byteswap", "abs", "ilog2"]
CHAR_BINARY = ["midpoint", "idiv", "ipow"]
CHUNK = 32
BINARY1 = ["add_sat", "add_sat_fb", "div_sat", "midpoint", "idiv", "ipow"]
BINARY2 = ["gcd", "lcm", "cmp"]


def signed(t):
    return t in ST or (t in CT and CT[t][1])


def tmin(t):
    return -(1 << (WIDTH[t] - 1)) if signed(t) else 0


def tmax(t):
    return (1 << (WIDTH[t] - 1)) - 1 if signed(t) else (1 << WIDTH[t]) - 1


def in_t(t, v):
    return tmin(t) <= v <= tmax(t)


def promote(t):
    return "i32" if WIDTH[t] < 32 else t


def common(a, b):
    """common_type_t<a, b> as (width, signed)."""
    if (WIDTH[a], signed(a)) == (WIDTH[b], signed(b)):
        return (WIDTH[a], signed(a))
    a, b = promote(a), promote(b)
    wa, sa, wb, sb = WIDTH[a], signed(a), WIDTH[b], signed(b)
    if sa == sb:
        return (max(wa, wb), sa)
    ws, wu = (wa, wb) if sa else (wb, wa)
    return (wu, False) if wu >= ws else (ws, True)


def rmax(ws):
    w, s = ws
    return (1 << (w - 1)) - 1 if s else (1 << w) - 1


def interesting(t, rnd=None, nrand=0):
    """single bits, all-ones-below, +-1 neighbours, limits (and negatives for signed types) + seeded random."""
    w = WIDTH[t]
    vs = {0, 1, 2, 3, tmin(t), tmax(t), tmin(t) + 1, tmax(t) - 1}
    for k in range(w + 1):
        for d in (-2, -1, 0, 1):
            vs.add((1 << k) + d)
            vs.add(-((1 << k) + d))
    for k in range(0, w, 8):
        vs.add(0xA5 << k)
        vs.add(0x0102030405060708 >> k)
    if rnd is not None:
        for _ in range(nrand):
            bits = rnd.randint(1, w)
            v = rnd.getrandbits(bits)
            vs.add(v)
            vs.add(-v)
            vs.add(tmax(t) - v)
    return sorted(v for v in vs if in_t(t, v))


def chunks(xs, n=CHUNK):
    for i in range(0, len(xs), n):
        yield xs[i:i + n]


def lst(xs):
    return "[" + ",".join(str(x) for x in xs) + "]"


GRID16 = None


def grid(t):
    """boundary grid for binary functions of a 16/32/64-bit type (about 24 points)."""
    w = WIDTH[t]
    vs = {0, 1, 2, 3, 7, tmax(t), tmax(t) - 1, tmin(t), tmin(t) + 1, tmax(t) // 2, tmax(t) // 2 + 1,
          1 << (w - 2), (1 << (w - 2)) - 1, 255, 256, 0x55 << (w - 8)}
    if signed(t):
        vs |= {-1, -2, -3, -7, -255, -256, tmin(t) // 2, tmin(t) // 2 - 1, -(1 << (w - 2)), tmin(t) + 2}
    else:
        vs |= {tmax(t) - 2, tmax(t) - 255, 1 << (w - 1), (1 << (w - 1)) - 1, (1 << (w - 1)) + 1}
    return sorted(v for v in vs if in_t(t, v))


# ---- domain predicates (identical to the hypotheses of the theorems in TetlProofs/C14/Props.lean)

def dom_unary(op, t, a):
    w = WIDTH[t]
    if op == "bit_ceil":
        return a <= (1 << (w - 1))
    if op in ("abs", "mabs"):
        return not signed(t) or a != tmin(t)
    # ilog2: no restriction (ilog2_eq has no hypothesis: zero and the negative values give 0)
    if op == "ipow2":
        return 0 <= a and in_t(t, 1 << a) and a < max(w, 32)
    return True


def dom_binary(op, t, u, a, b):
    if op in BINARY1 + BINARY2 and not in_t(u or t, b):
        return False                      # the second argument is a value of the (second) type
    if op == "midpoint_ptr":
        return True                       # both indices are generated inside 0..n
    if op in ("div_sat",):
        return b != 0
    if op == "idiv":
        return b != 0 and in_t(t, abs(a) // abs(b) * (1 if (a < 0) == (b < 0) else -1))
    if op == "ipow":
        if b < 0 or b > 200:
            return False
        if abs(a) >= 2 and b > 64:
            return False
        return in_t(t, a ** b)
    if op == "gcd":
        m = rmax(common(t, u))
        return abs(a) <= m and abs(b) <= m
    if op == "lcm":
        m = rmax(common(t, u))
        if abs(a) > m or abs(b) > m:
            return False
        if a == 0 or b == 0:
            return True
        return abs(a) // math.gcd(a, b) * abs(b) <= m
    return True


UNARY_BIT = ["popcount", "popcount_fb", "countl_zero", "countl_one", "countr_zero", "countr_one", "bit_width",
             "bit_ceil", "bit_floor", "has_single_bit"]
BITPOS = ["test_bit", "set_bit", "reset_bit", "flip_bit", "set_bit_1", "set_bit_0"]
BINARY1 = ["add_sat", "add_sat_fb", "div_sat", "midpoint", "idiv", "ipow"]
BINARY2 = ["gcd", "lcm", "cmp"]
ROT_COUNTS = list(range(-130, 131)) + [-2147483648, -2147483647, 2147483647, 2147483646, 1 << 16, -(1 << 16),
                                       (1 << 16) + 3, -(1 << 16) - 3, 1000003, -1000003]


def generate(tier, seed):
    rnd = random.Random(seed)
    thorough = tier == "thorough"
    cases = []
    dist = {}

    def add(line, tag, n=1):
        cases.append(Case(line, tag))
        dist[tag] = dist.get(tag, 0) + n

    def unary(op, t, vals, u=None):
        vals = [v for v in vals if dom_unary(op, t if u is None else t, v)]
        us = "" if u is None else " u=%s" % u
        for ch in chunks(vals):
            add("%s t=%s%s as=%s" % (op, t, us, lst(ch)), "%s/%s%s" % (op, t, "" if u is None else "," + u), len(ch))

    def binary(op, t, avals, bvals, u=None):
        us = "" if u is None else " u=%s" % u
        tag = "%s/%s%s" % (op, t, "" if u is None else "," + u)
        for a in avals:
            bs = [b for b in bvals if dom_binary(op, t, u, a, b)]
            for ch in chunks(bs):
                add("%s t=%s%s a=%d bs=%s" % (op, t, us, a, lst(ch)), tag, len(ch))

    nr = 4000 if thorough else 400
    vals = {}
    for t in ALL:
        w = ALL[t]
        if w <= 16:
            vals[t] = list(range(tmin(t), tmax(t) + 1))
        else:
            vals[t] = interesting(t, rnd, nr)
    small = {t: interesting(t, rnd, 40) for t in ALL}

    def small_of(t):
        return interesting(t, rnd, 40)

    # ---- <bit> unary
    for t in UT:
        for op in UNARY_BIT:
            unary(op, t, vals[t])
        if t in ("u16", "u32", "u64"):
            unary("byteswap_fb", t, vals[t])
        if t in ("u8", "u16", "u32"):
            unary("ntoh", t, vals[t])
            unary("hton", t, vals[t])
    for t in ALL:
        unary("byteswap", t, vals[t])
        unary("abs", t, vals[t])
        unary("ilog2", t, vals[t])
        unary("ipow2", t, list(range(0, 70)))
    for t in ("i32", "i64", "ll"):
        unary("mabs", t, vals[t])

    # ---- rotations: all 8-bit values, boundary values of the others, every count in [-130,130] + extremes
    for t in UT:
        w = UT[t]
        xs = vals[t] if w == 8 else (small[t] if not thorough else interesting(t, rnd, 300))
        for op in ("rotl", "rotr"):
            binary(op, t, xs, ROT_COUNTS)

    # ---- single-bit functions: all words x all positions (8 bit), sampled words x all positions above
    for t in UT:
        w = UT[t]
        if w == 8 or (w == 16 and thorough):
            ws_ = vals[t]
        else:
            ws_ = small[t] if not thorough else interesting(t, rnd, 600)
        for op in BITPOS:
            binary(op, t, ws_, list(range(w)))

    # ---- binary functions
    for t in ALL:
        w = ALL[t]
        g = grid(t)
        if w == 8:
            av, bv = vals[t], vals[t]
            for op in BINARY1:
                binary(op, t, av, bv)
        else:
            if w == 16:
                av = vals[t] if thorough else sorted(set(small[t]) | set(rnd.sample(vals[t], 600)))
            else:
                av = small[t] if not thorough else interesting(t, rnd, 1500)
            for op in BINARY1:
                binary(op, t, av, g)
                binary(op, t, g, small[t])
            # seeded random pairs
            npairs = 20000 if thorough else 1500
            for op in BINARY1:
                for _ in range(npairs // CHUNK):
                    a = rnd.choice(av)
                    bs = [rnd.choice(small[t]) if rnd.random() < 0.5 else rnd.randint(tmin(t), tmax(t))
                          for _ in range(CHUNK)]
                    if op == "ipow":
                        a = rnd.randint(-9, 9) if signed(t) else rnd.randint(0, 9)
                        bs = list(range(0, 40))
                    binary(op, t, [a], bs)
        # small bases, every exponent: ipow
        lo = -12 if signed(t) else 0
        binary("ipow", t, list(range(lo, 13)), list(range(0, 70)) + [100, 199, 200])

    # ---- two-type functions: every ordered pair of the ten types
    for t in ALL:
        for u in ALL:
            both8 = ALL[t] == 8 and ALL[u] == 8
            lim = sorted({x + d for x in (tmin(t), tmax(t), tmin(u), tmax(u), 0) for d in (-1, 0, 1)})
            if both8:
                av, bv = vals[t], vals[u]
            else:
                av = sorted(set(v for v in lim if in_t(t, v)) | set(grid(t)) | set(rnd.sample(small[t], 12)))
                bv = sorted(set(v for v in lim if in_t(u, v)) | set(grid(u)) | set(rnd.sample(small[u], 12)))
            for op in BINARY2:
                binary(op, t, av, bv, u=u)
            # saturate_cast<t>(u value), in_range<t>(u value)
            if ALL[u] <= 16 and (ALL[u] == 8 or thorough or ALL[t] <= 16):
                fv = vals[u]
            else:
                fv = sorted(set(v for v in lim if in_t(u, v)) | set(small[u]))
            unary("saturate_cast", t, fv, u=u)
            unary("in_range", t, fv, u=u)
    # gcd/lcm: Fibonacci neighbours (longest Euclid runs) and multiples
    fib = [1, 1]
    while fib[-1] < (1 << 64):
        fib.append(fib[-1] + fib[-2])
    for t in ALL:
        fs = [f for f in fib if in_t(t, f)]
        pairs_a = fs[-6:] + [-f for f in fs[-6:] if in_t(t, -f)]
        for op in ("gcd", "lcm"):
            binary(op, t, pairs_a, fs + [-f for f in fs if in_t(t, -f)], u=t)
            av = [rnd.choice(small[t]) for _ in range(60 if not thorough else 600)]
            binary(op, t, av, small[t][:: 3 if not thorough else 1], u=t)
    # ---- character types: the functions constrained by `integral` / `is_integral_v` only
    for t in CT:
        w = WIDTH[t]
        cv = list(range(tmin(t), tmax(t) + 1)) if w == 8 else interesting(t, rnd, 200)
        for op in CHAR_UNARY:
            unary(op, t, cv)
        unary("ipow2", t, list(range(0, 40)))
        g = grid(t)
        if w == 8:
            av, bv = cv[::3] + [tmin(t), tmax(t)], cv
        else:
            av, bv = g, sorted(set(g) | set(small_of(t)))
        for op in CHAR_BINARY:
            binary(op, t, av, bv)
        lo = -6 if signed(t) else 0
        binary("ipow", t, list(range(lo, 7)), list(range(0, 34)))
        for op in ("gcd", "lcm"):
            binary(op, t, g, bv if w > 8 else cv, u=t)

    # ---- midpoint(Ptr, Ptr): every pair of positions of small arrays (one past the end included), boundary
    #      positions of larger ones; indices are ptrdiff_t values, the model type is i64
    for n in (0, 1, 2, 3, 8, 33):
        for ia in range(n + 1):
            for ch in chunks(list(range(n + 1))):
                add("midpoint_ptr t=i64 n=%d a=%d bs=%s" % (n, ia, lst(ch)), "midpoint_ptr/i64", len(ch))
    for n in (1000, 65537, 1 << 20):
        pts = sorted({0, 1, 2, n // 2 - 1, n // 2, n // 2 + 1, n - 2, n - 1, n} | {rnd.randint(0, n) for _ in range(20)})
        for ia in pts:
            for ch in chunks(pts):
                add("midpoint_ptr t=i64 n=%d a=%d bs=%s" % (n, ia, lst(ch)), "midpoint_ptr/i64", len(ch))
    return cases, False, dist


def _items(s):
    return s[1:-1].split(",") if s.startswith("[") else [s]


def nontrivial(case, rows):
    r = rows[0]
    items = set(_items(r.spec))
    if len(items) > 1:
        return True
    ln = case.lines[0]
    a = [tok[2:] for tok in ln.split(" ") if tok.startswith("a=")]
    return not (items <= {"0", "1"} or (a and items == {a[0]}))


def classify(case, k, row):
    return None


def group_of(case):
    return case.tag.split("/")[0]          # one replay per function


def _scalar_lines(line):
    """Split a list-argument line into one scalar line per element."""
    toks = line.split(" ")
    out = []
    for key, skey in (("as=", "a="), ("bs=", "b=")):
        for i, tk in enumerate(toks):
            if tk.startswith(key):
                for v in tk[len(key) + 1:-1].split(","):
                    out.append(" ".join(toks[:i] + [skey + v] + toks[i + 1:]))
                return out
    return [line]


def run(ctx, replay=None):
    """Standard flow, then every replay whose case is a list line is reduced to the first single
    evaluation that still fails (re-executed on all four sides)."""
    import json
    import os
    import __main__ as chk
    import lib
    mod = __import__("props.c14", fromlist=["c14"])
    rc = chk.standard(mod, ctx, replay)
    if replay or not ctx.violations:
        return rc
    exe = os.path.join(lib.BUILD, "c14_harness")
    for path in ctx.violations:
        try:
            rp = json.load(open(path))
            if len(rp.get("cases", [])) != 1:
                continue
            singles = _scalar_lines(rp["cases"][0])
            if len(singles) <= 1:
                continue
            cs = [Case(ln, "shrunk") for ln in singles]
            rows = lib.run_batch(ctx, cs, exe, DRIVER, jobs=1)
            for c, r in zip(cs, rows):
                r = r[0]
                if not lib.eq(r.impl, r.spec) or not lib.eq(r.impl, r.model):
                    rp["unshrunk_case"] = rp["cases"]
                    rp["cases"] = c.lines
                    rp.update(r.as_dict())
                    json.dump(rp, open(path, "w"), indent=1)
                    lib.log("  minimal case for %s: %s  impl=%s model=%s spec=%s std=%s"
                            % (os.path.basename(path), c.lines[0], r.impl, r.model, r.spec, r.std))
                    break
        except (OSError, ValueError, lib.MachineryError) as e:   # shrinking is best effort
            lib.log("  (replay %s not shrunk: %s)" % (path, e))
    return rc


CLAIMED = True
TECHNIQUE = ("Lean 4 proof: hand model (generic in the bit width, C++ promotions/conversions/UB explicit) = arithmetic spec "
             "for all values; model tied to the code by exhaustive 8/16-bit + boundary/random 32/64-bit correspondence run, "
             "and its straight-line kernels by translation from the clang AST (regenerated on every run) with Lean proofs "
             "generated = hand model, no UB, for all values of u8..u64 / i8..i64")
LEVEL_TEXT = ("every modelled function — popcount (fallback), countl_zero, countl_one, countr_zero, countr_one, bit_width, bit_floor, "
              "bit_ceil, has_single_bit, rotl, rotr, test_bit, set_bit (both overloads), reset_bit, flip_bit, byteswap and its "
              "16/32/64-bit fallbacks, ntoh, hton, add_sat (builtin and fallback path), div_sat, saturate_cast, midpoint, gcd, lcm, "
              "(integer and pointer overload), abs (both), idiv, ipow, ipow<2>, ilog2, the six cmp_* and in_range — is proved in Lean 4, "
              "for every bit width of a builtin integer type (8, 16, 32, 64) and beyond that for every width w >= 1 satisfying the "
              "hypothesis of the respective theorem (rotl/rotr: w divides 2^32 — shown sharp by a counterexample; midpoint: "
              "w <= 16 or w >= 32; byteswap/ntoh/hton: the overloads that exist, 8/16/32/64 resp. 8/16/32; all other "
              "theorems, the single-bit functions included: no restriction on w) / for every "
              "pair of integer types, and for every argument of the documented domain, "
              "to return (never an error = never UB, never an overflow-dependent value) exactly the value of its mathematical "
              "definition (byteswap/ntoh/hton: the byte-reversed value; ipow: the exact power whenever it is representable). "
              "ilog2 is proved without hypothesis (0 for zero and for negative values). "
              "add_sat: both the __builtin_add_overflow path and detail::add_sat_fallback are proved equal to the clamp, "
              "but under GCC/clang add_sat always takes the builtin path (the fallback is the `#else` branch, dead code "
              "here): the fallback is tied to the source only because the harness calls etl::detail::add_sat_fallback "
              "directly, and the dispatch of add_sat to it is never exercised in any run. "
              "Tie T: the straight-line kernels (everything except the loops countl_zero, popcount, countl_one, countr_*, gcd, lcm, "
              "ipow, ilog2 and the dead add_sat_fallback) are translated from the clang AST of the current headers on every run "
              "for u8/u16/u32/u64 and i8/i16/i32/i64 (cmp_*, in_range, saturate_cast: all 64 ordered pairs) and proved, "
              "symbolically for all values, equal to the hand model with every shift-count / signed-overflow / division "
              "obligation of the translated body true on the documented domain; the driver also compares generated and hand "
              "model on every case line. "
              "The model is tied "
              "to the current source on every run by running model and implementation (builtin and portable-fallback paths) on "
              "the same inputs under ASan/UBSan: all 8-bit values and pairs, all 16-bit values, boundary/random 32/64-bit "
              "values, rotation counts -130..130, all 100 type pairs for the mixed-type functions, the character types "
              "(char, wchar_t, char8_t, char16_t, char32_t) for the `integral` functions, pointer pairs for midpoint; "
              "the spec is validated "
              "against libstdc++ and __int128 arithmetic on the same inputs.")
LEVEL_NOTE = ("Trusted: Lean kernel + propext/Classical.choice/Quot.sound; the hand model's fidelity outside the explored inputs "
              "(for the translated kernels: gen/translate.py + clang-16 + CSemBits instead; the loops and the ull / ll / character "
              "type instantiations remain tie H only); "
              "g++-12/ASan/UBSan; compiler builtins; libstdc++ as oracle for spec validation. coverage.correspondence_only is empty: "
              "every modelled function has a theorem. Not driven here: (1) failing preconditions — the harness is built "
              "without TETL_ENABLE_CONTRACT_CHECKS, so TETL_PRECONDITION(pos < static_cast<UInt>(digits)) of "
              "test/set/reset/flip_bit is an empty macro and a position >= digits (in particular >= 2^31 for the 32/64-bit "
              "types) would only run into the undefined shift; the model mirrors the check as written "
              "(Props.bitPos_pre_iff, bitPos_pre_fails) and the failing side is executed by C05; (2) the dispatch of add_sat "
              "to add_sat_fallback (dead `#else` branch under GCC/clang; the fallback itself is run by a direct call); "
              "(3) bool as argument type (ilog2<bool> does not compile, midpoint/lcm exclude it, and conversion to bool "
              "is not the modular conversion of the model); (4) ilog2(x <= 0) has no independent oracle (reference "
              "column = the documented 0).")
# functions modelled and compared on every run but without a Lean theorem yet (none left)
CORRESPONDENCE_ONLY = []
THEOREMS = {
    "popcount": ["C14.Props.popcount_eq"], "popcount_fb": ["C14.Props.popcountFallback_eq"],
    "countl_zero": ["C14.Props.countlZero_eq"], "bit_width": ["C14.Props.bitWidth_eq"],
    "bit_floor": ["C14.Props.bitFloor_eq"], "bit_ceil": ["C14.Props.bitCeil_eq"],
    "rotl": ["C14.Props.rotl_eq"], "rotr": ["C14.Props.rotr_eq"],
    "add_sat": ["C14.Props.addSat_eq"], "add_sat_fb": ["C14.Props.addSatFallback_eq"],
    "midpoint": ["C14.Props.midpoint_eq"], "midpoint_ptr": ["C14.Props.midpointPtr_eq"], "div_sat": ["C14.Props.divSat_eq"], "idiv": ["C14.Props.idiv_eq"], "gcd": ["C14.Props.gcd_eq"], "lcm": ["C14.Props.lcm_eq"],
    "abs": ["C14.Props.absT_eq"], "mabs": ["C14.Props.absM_eq"], "ilog2": ["C14.Props.ilog2_eq"],
    "cmp": ["C14.Props.cmpEqual_eq", "C14.Props.cmpNotEqual_eq", "C14.Props.cmpLess_eq", "C14.Props.cmpGreater_eq",
            "C14.Props.cmpLessEqual_eq", "C14.Props.cmpGreaterEqual_eq"],
    "test_bit": ["C14.Props.testBit_eq_anyw"], "ipow2": ["C14.Props.ipow2_eq"],
    "in_range": ["C14.Props.inRange_eq"], "saturate_cast": ["C14.Props.saturateCast_eq"],
    "countl_one": ["C14.Props.countlOne_eq"], "countr_zero": ["C14.Props.countrZero_eq_anyw"],
    "countr_one": ["C14.Props.countrOne_eq_anyw"], "has_single_bit": ["C14.Props.hasSingleBit_eq"],
    "set_bit": ["C14.Props.setBit_eq_anyw"], "set_bit_1": ["C14.Props.setBitTo_eq_anyw"], "set_bit_0": ["C14.Props.setBitTo_eq_anyw"],
    "reset_bit": ["C14.Props.resetBit_eq_anyw"], "flip_bit": ["C14.Props.flipBit_eq_anyw"],
    "byteswap": ["C14.Props.byteswap_eq"], "byteswap_fb": ["C14.Props.byteswapFallback_eq"],
    "ntoh": ["C14.Props.ntoh_eq"], "hton": ["C14.Props.hton_eq"], "ipow": ["C14.Props.ipow_eq"],
}


_T8 = ["u8", "u16", "u32", "u64", "i8", "i16", "i32", "i64"]
_G = "C14.GenProps.gen_"
for _op, _fs, _tys in (("bit_width", ["bit_width"], _T8[:4]), ("bit_floor", ["bit_floor"], _T8[:4]), ("bit_ceil", ["bit_ceil"], _T8[:4]),
                       ("has_single_bit", ["has_single_bit"], _T8[:4]), ("rotl", ["rotl"], _T8[:4]), ("rotr", ["rotr"], _T8[:4]),
                       ("test_bit", ["test_bit"], _T8[:4]), ("set_bit", ["set_bit"], _T8[:4]), ("reset_bit", ["reset_bit"], _T8[:4]),
                       ("flip_bit", ["flip_bit"], _T8[:4]), ("set_bit_1", ["set_bit_to"], _T8[:4]), ("set_bit_0", ["set_bit_to"], _T8[:4]),
                       ("byteswap_fb", ["byteswap_fallback"], _T8[1:4]), ("midpoint", ["midpoint"], _T8), ("add_sat", ["add_sat"], _T8),
                       ("div_sat", ["div_sat"], _T8), ("abs", ["abs"], _T8)):
    THEOREMS[_op] = THEOREMS[_op] + [_G + "%s_%s" % (_f, _t) for _f in _fs for _t in _tys]
THEOREMS["cmp"] = THEOREMS["cmp"] + [_G + "%s_%s_%s" % (_f, _t, _u) for _f in ("cmp_equal", "cmp_not_equal", "cmp_less", "cmp_greater",
                                     "cmp_less_equal", "cmp_greater_equal") for _t in _T8 for _u in _T8]
THEOREMS["in_range"] = THEOREMS["in_range"] + [_G + "in_range_%s_%s" % (_t, _u) for _t in _T8 for _u in _T8]
THEOREMS["saturate_cast"] = THEOREMS["saturate_cast"] + [_G + "saturate_cast_%s_%s" % (_t, _u) for _t in _T8 for _u in _T8]

# ---- tie T for the straight-line kernels: regenerated from the clang AST on every run (gen/translate.py, job set
# BITS_JOBS); TetlProofs/C14/Gen*.lean are re-checked against the regenerated Tetl/C14/Gen.lean, and the driver compares
# the generated functions with the hand model on every case line (`!gen=`).
def regenerate(ctx):
    import os
    import sys
    import lib
    sys.path.insert(0, os.path.join(lib.VERIF, "gen"))
    import translate
    out = os.path.join(lib.LEAN, "Tetl", "C14", "Gen.lean")
    try:
        info = translate.translate_bits(lib.REPO, out)
    except translate.Unsupported as e:      # the translation unit itself is refused by clang
        return {"generated_files": [os.path.relpath(out, lib.VERIF)], "hash": [], "changed": False, "functions": [],
                "translator": translate.VERSION3, "error": str(e)}
    res = {"generated_files": [os.path.relpath(out, lib.VERIF)], "hash": [lib.file_hash(out)], "changed": info["changed"],
           "functions": info["functions"], "translator": info["translator"]}
    if info["errors"]:
        res["error"] = "; ".join(info["errors"])
    return res
