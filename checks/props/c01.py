"""C01 — fixed-capacity vectors behave exactly like std::vector within capacity (DESIGN §4 C01).

`<op>_mv x=v` lines call the member as `T t(v); c.<op>(std::move(t));` and append ` arg=<what t shows afterwards>` to the
result: "try_push_back on a full inplace_vector changes nothing" includes the argument.

Histories: a `new ty=sv|ipv|stk cap=N kind=int|nt` line, then operation lines on up to four live
objects (`obj=k`, `other=j`).  After every line all four objects are observed through the public API
(size, empty, full, elements in order, front/back, operator[], data(), reverse and const iteration, storage inside the
object) and compared
with the Lean model (R1), with the Lean spec (R3) and the spec with libstdc++ (R2).  A line is valid when its
documented precondition holds in the *spec* state (Tetl.C01.Spec.valid, the hypothesis of history_refines): an object
the standard leaves unspecified (moved-from) only takes operations without a precondition on its contents."""
import itertools
import os
import random
import sys

import lib
from lib import Case, fmt_list

sys.path.insert(0, os.path.join(lib.VERIF, "gen"))
import sizetype  # noqa: E402

PROP = "C01"
DRIVER = "drv-c01"
PROOF_MODULES = ["TetlProofs.C01.Props"]
HARNESS = "harness/c01.cpp"
HARNESS_FLAGS = ["-O0", "-g1"]
SOURCES = ["include/etl/_vector/static_vector.hpp", "include/etl/_inplace_vector/inplace_vector.hpp",
           "include/etl/_stack/stack.hpp", "include/etl/_array/uninitialized_array.hpp",
           "include/etl/_algorithm/rotate.hpp", "include/etl/_algorithm/move.hpp",
           "include/etl/_algorithm/remove_if.hpp", "include/etl/_algorithm/find_if.hpp",
           "include/etl/_algorithm/equal.hpp", "include/etl/_algorithm/lexicographical_compare.hpp",
           "include/etl/_type_traits/smallest_size_t.hpp"]
RULE = ("exhaustive one-step box: static_vector of capacity 0..3 (int, a non-trivial class, and a handle class whose move "
        "assignment empties its source and has no self test), every content state over "
        "the values {0,1,2}, every member with every position / count / value / overload, and every member that takes its "
        "argument by reference (push_back, emplace_back, insert(pos,x), emplace(pos,x), insert(pos,n,x), resize(n,x), "
        "push_back(back())) called with every element i of the vector itself at every position / count (these also at capacity 4 "
        "from every state of length 2); every member that takes T&& or forwards an rvalue (push_back, emplace_back, "
        "insert(pos, T&&), emplace; stack push / emplace; inplace_vector try_push_back, try_emplace_back, unchecked_push_back, "
        "unchecked_emplace_back) called as f(std::move(t)) with a named object t whose state is printed after the call "
        "(`_mv` lines, ` arg=`: moved from iff an element was constructed from it; observable for the non-trivial class and "
        "the handle class), from every content state at every position, the try_ members also on every FULL state and at "
        "capacity 0; every ordered pair of "
        "content states for copy/move construction and assignment, swap (member, free, self) and the six relational operators, each "
        "copy followed by two rounds of changes of the source and of the copy; a key/payload element kind (kp: operator< on the "
        "key only, operator== on key and payload; the values 0 and 1 are equivalent and not equal, 2 is greater) for "
        "static_vector at capacity 0..3 and stack at capacity 1 and 3: every ordered pair of content states (and every state "
        "with itself) for the six relational operators, erase(c, value), the aliasing members (quick: that subset of the "
        "single-object members; thorough: all); inplace_vector (the members it has) and stack "
        "(incl. push(top()) / emplace(top()); inplace_vector: try_/unchecked_ push and emplace with element i of the vector itself) likewise at capacity 0..3 (int and the non-trivial class); the member inventory (api_member) of all three types at "
        "capacity 0 and 4; the size type at both sides of every threshold of the smallest_size_t chain (api_width: 254/255/256, "
        "65534/65535/65536, 2^32-2/2^32-1/2^32, 2^63-1) and the widths of the types it names (api_abi); deterministic walks across "
        "the size-type boundary at capacities 254/255/256 (fill to capacity-1, to capacity, one more try, back, insert/erase at "
        "both ends, copy, compare, swap, then aliasing inserts / resize / push_back(back()) at capacity-1, push_back / insert / "
        "try_push_back / try_emplace_back of a named rvalue on the full and the nearly full vector); plus seeded random histories of up to 40 operations on four live objects at "
        "capacities {0,1,2,3,4,7} (the aliasing members and the named-rvalue calls among the candidates; element kind kp where the harness instantiates it: "
        "static_vector at capacity <= 4, stack at 1 and 3), random interleaved histories (object 0 := copy of object 1, then 2..16 single-object "
        "operations addressed to the source or the copy at random: the hypothesis shape of copy_independent) at capacities "
        "1..7, and histories of up to 10 operations from a nearly full vector at {254,255,256}.  Beyond capacity 3 "
        "nothing is exhaustive.  A line is generated only if it is valid by Tetl.C01.Spec.valid (precondition in the spec "
        "state; moved-from objects only take operations without a precondition on their contents).  A history is "
        "non-trivial when some object is non-empty after some step; distinct = distinct case text.")
ASSUMPTIONS = ["assign(n, t) with t a reference into the vector, assign(i, j) / insert(p, i, j) with iterators into the vector and "
               "rvalue arguments that alias an element (insert(p, std::move(v[i]))) are outside the property: [sequence.reqmts] "
               "/ [res.on.arguments] exclude them; every other member that takes a reference is run with an aliasing argument",
               "std::vector / std::stack of libstdc++ 12 are the reference for spec validation (R2); libstdc++ 12 has no "
               "std::inplace_vector, its reference is std::vector plus the capacity test",
               "element types are modelled at the value level (naturals); the two storage implementations are exercised "
               "by the harness with int and with a class that has user-provided special members",
               "values the standard leaves unspecified (moved-from vectors, self-move-assignment) are masked on the spec "
               "side; the model still has to predict the implementation exactly; while any of the four objects is in such a "
               "state the spec column of the whole line is masked (R2/R3 resume once the object is re-specified)",
               "std::inplace_vector's member list is taken from the synopsis [inplace.vector] (libstdc++ 12 does not ship it): "
               "Spec.offers .ipv = every operation of the property's list"]
TRUSTED = ["hand model Tetl/C01/Model.lean + Step.lean + Observe.lean tied to the source by the correspondence run (R1) on every run",
           "gen/sizetype.py (text-level extractor of the smallest_size_t chain, the storage selection and the size-type "
           "aliases; anything it cannot parse is an error; its result is cross-checked on every run: api_bits / api_width "
           "compare the generated chain with sizeof of the real type, api_abi the assumed widths of the named types)",
           "spec Tetl/C01/Spec.lean validated against libstdc++ (R2) on every run"]
_P = "Tetl.C01.Props."
_STEP = [_P + "step_refines", _P + "step_refines_spec", _P + "history_refines"]
THEOREMS = {
    "push": _STEP, "push_rv": _STEP, "emplace_back": _STEP, "pop": _STEP,
    "insert": _STEP + [_P + "insertFill_refines", _P + "rotate_eq"],
    "insert_rv": _STEP + [_P + "insertRange_refines", _P + "rotate_eq"],
    "emplace": _STEP + [_P + "insertRange_refines", _P + "rotate_eq"],
    "insert_fill": _STEP + [_P + "insertFill_refines", _P + "rotate_eq"],
    "insert_range": _STEP + [_P + "insertRange_refines", _P + "rotate_eq"],
    "move_insert": _STEP + [_P + "insertRange_refines", _P + "rotate_eq"],
    "erase": _STEP + [_P + "eraseRange_refines"], "erase_range": _STEP + [_P + "eraseRange_refines"],
    "resize": _STEP, "resize_val": _STEP,
    # assign(n, v[i]) is excluded by [sequence.reqmts] ("t is not a reference into a"): the theorem says why it has to be
    "assign_fill": _STEP + [_P + "assign_alias_reads_destroyed"], "assign_range": _STEP, "clear": _STEP,
    "ctor_n": _STEP, "ctor_n_val": _STEP, "ctor_range": _STEP,
    "erase_if": _STEP + [_P + "eraseIf_refines", _P + "eraseIf_keeps_handles"],
    "erase_val": _STEP + [_P + "eraseIf_refines", _P + "eraseIf_keeps_handles"],
    "cmp": _STEP + [_P + "relOps_refines", _P + "relOps_refines_strict_weak", _P + "kinds_strict_weak",
                    _P + "relOps_refines_kinds", _P + "relOps_total_order", _P + "relOps_refines_nat"], "swap": _STEP + [_P + "swap_refines"], "swap_free": _STEP + [_P + "swap_refines"],
    "copy_ctor": _STEP + [_P + "copy_independent", _P + "interleave_projection", _P + "interleave_ok"],
    "copy_assign": _STEP + [_P + "interleave_projection", _P + "interleave_ok"],
    "move_ctor": _STEP + [_P + "moved_from_static_vector", _P + "moved_from_inplace_vector", _P + "moved_from_usable"],
    "move_assign": _STEP + [_P + "moved_from_static_vector", _P + "moved_from_self", _P + "moved_from_usable"],
    "push_alias": _STEP + [_P + "push_alias_eq", _P + "alias_spec", _P + "alias_members_generalise"],
    "emplace_back_alias": _STEP + [_P + "push_alias_eq", _P + "alias_spec", _P + "alias_members_generalise"],
    "push_top": _STEP + [_P + "push_alias_eq", _P + "alias_spec"],
    "emplace_top": _STEP + [_P + "push_alias_eq", _P + "alias_spec"],
    "insert_alias": _STEP + [_P + "insert_alias_eq", _P + "alias_spec", _P + "alias_members_generalise", _P + "rotate_eq"],
    "emplace_alias": _STEP + [_P + "insert_alias_eq", _P + "alias_spec", _P + "alias_members_generalise", _P + "rotate_eq"],
    "insert_fill_alias": _STEP + [_P + "insertFill_alias_eq", _P + "alias_spec", _P + "alias_members_generalise",
                                  _P + "rotate_eq"],
    "resize_val_alias": _STEP + [_P + "resize_alias_eq", _P + "alias_spec", _P + "alias_members_generalise"],
    "try_push_alias": _STEP + [_P + "ipv_push_alias_eq", _P + "alias_spec", _P + "tryPush_full"],
    "try_emplace_alias": _STEP + [_P + "ipv_push_alias_eq", _P + "alias_spec", _P + "tryPush_full"],
    "unchecked_push_alias": _STEP + [_P + "ipv_push_alias_eq", _P + "alias_spec"],
    "unchecked_emplace_alias": _STEP + [_P + "ipv_push_alias_eq", _P + "alias_spec"],
    "push_mv": _STEP + [_P + "rvalue_argument_moved_iff_constructed", _P + "rvalue_members_generalise", _P + "rvalue_members_present"],
    "emplace_back_mv": _STEP + [_P + "rvalue_argument_moved_iff_constructed", _P + "rvalue_members_generalise",
                                _P + "rvalue_members_present"],
    "insert_mv": _STEP + [_P + "rvalue_argument_moved_iff_constructed", _P + "rvalue_members_generalise",
                          _P + "rvalue_members_present", _P + "rotate_eq"],
    "emplace_mv": _STEP + [_P + "rvalue_argument_moved_iff_constructed", _P + "rvalue_members_generalise",
                           _P + "rvalue_members_present", _P + "rotate_eq"],
    "try_push_mv": _STEP + [_P + "tryPush_full_keeps_argument", _P + "tryPush_room_consumes_argument",
                            _P + "rvalue_argument_moved_iff_constructed", _P + "rvalue_members_generalise",
                            _P + "rvalue_members_present", _P + "tryPush_full"],
    "try_emplace_mv": _STEP + [_P + "tryPush_full_keeps_argument", _P + "tryPush_room_consumes_argument",
                               _P + "rvalue_argument_moved_iff_constructed", _P + "rvalue_members_generalise",
                               _P + "rvalue_members_present", _P + "tryPush_full"],
    "unchecked_push_mv": _STEP + [_P + "rvalue_argument_moved_iff_constructed", _P + "rvalue_members_generalise",
                                  _P + "rvalue_members_present"],
    "unchecked_emplace_mv": _STEP + [_P + "rvalue_argument_moved_iff_constructed", _P + "rvalue_members_generalise",
                                     _P + "rvalue_members_present"],
    "dump": [_P + "observers_refine", _P + "observers_refine_ipv_stk", _P + "observers_zero_capacity"],
    "try_push": _STEP + [_P + "tryPush_full"], "try_push_rv": _STEP + [_P + "tryPush_full"],
    "try_emplace": _STEP + [_P + "tryPush_full"], "unchecked_push": _STEP, "unchecked_push_rv": _STEP,
    "unchecked_emplace": _STEP,
    "api_bits": [_P + "size_fits", _P + "setSize_never_truncates", _P + "size_type_chain_sound", _P + "size_type_closed",
                 _P + "size_type_minimal_partial", _P + "size_type_minimal_counterexample", _P + "minBits_spec",
                 _P + "storage_selection_as_modelled"],
    "api_width": [_P + "size_fits", _P + "size_type_chain_sound", _P + "size_type_closed", _P + "size_type_minimal_partial",
                  _P + "size_type_minimal_counterexample", _P + "minBits_spec"],
    "api_abi": [_P + "size_type_chain_sound"],
    "new": [_P + "initSize_partial", _P + "initSize_counterexample", _P + "history_refines_init"],
    "api_assign": [_P + "ipv_assign_unsupported"],
    "api_member": [_P + "ipv_step_partial", _P + "ipv_missing_counterexample", _P + "ipv_missing_members",
                   _P + "ipv_present_members"],
    # building blocks of copy_independent / interleave_projection (frame facts of the system model)
    "structural": [_P + "unary_frame_structural", _P + "copy_value_frame_structural"],
}
_STEP += [_P + "history_refines_modelstate", _P + "validHist_validRun"]
SEARCH_CAP = 300000
MOVED = 9999
EMPTIED = 9998
GENSIZE_LEAN = os.path.join(lib.LEAN, "Tetl", "C01", "GenSize.lean")
# capacities at which the harness instantiates static_vector<HD, N> (C01_HD_CAPS in harness/c01.cpp)
HD_CAPS = (0, 1, 2, 3, 4, 7)
# capacities at which the harness instantiates static_vector<KP, N> / stack<KP, static_vector<KP, N>> (C01_KP_CAPS, C01_KP_STK_CAPS)
KP_CAPS = (0, 1, 2, 3, 4)
KP_STK_CAPS = (1, 3)
# the thresholds of the smallest_size_t chain: the selected type is not the smallest one there (known finding)
WIDTH_CAPS = [0, 1, 254, 255, 256, 65534, 65535, 65536, 4294967294, 4294967295, 4294967296, 9223372036854775807]
THRESHOLDS = {255, 65535, 4294967295}


def regenerate(ctx):
    """tie T: the conditional_t chain of smallest_size_t<N>, the storage selection of static_vector and the aliases of the
    size type are re-extracted from the headers of the tree under check into lean/Tetl/C01/GenSize.lean"""
    try:
        info = sizetype.extract(lib.REPO)
    except (sizetype.ParseError, OSError, ValueError) as e:
        return {"error": "gen/sizetype.py: %s" % e}
    changed = sizetype.emit(info, GENSIZE_LEAN)
    return {"generated_file": os.path.relpath(GENSIZE_LEAN, lib.VERIF), "hash": lib.file_hash(GENSIZE_LEAN),
            "changed": changed, "size_type_chain": [l["src"] + " -> " + l["type_text"] for l in info["chain"]]
            + ["else -> " + info["fallback_text"]],
            "storage_selection": ["%s -> %s" % ct for ct in info["storage"]] + ["else -> " + info["storage_else"]]}

ALL_CAPS = [0, 1, 2, 3, 4, 7, 254, 255, 256]
STK_CAPS = [0, 1, 3, 4]


ALL_MEMBERS = ["push", "push_rv", "emplace_back", "pop", "insert", "insert_rv", "emplace", "insert_fill", "insert_range",
               "move_insert", "erase", "erase_range", "resize", "resize_val", "assign_fill", "assign_range", "clear", "ctor_n",
               "ctor_n_val", "ctor_range", "copy_ctor", "move_ctor", "copy_assign", "move_assign", "swap", "swap_free",
               "erase_val", "erase_if", "cmp", "try_push", "try_push_rv", "try_emplace", "unchecked_push",
               "unchecked_push_rv", "unchecked_emplace", "try_push_cref_sig", "try_push_rv_sig", "unchecked_push_cref_sig",
               "unchecked_push_rv_sig", "dump"]
# `…_sig`: api_member only - the T const& / T&& overloads of try_push_back / unchecked_push_back exist as functions of their own
SIG_MEMBERS = {"try_push_cref_sig", "try_push_rv_sig", "unchecked_push_cref_sig", "unchecked_push_rv_sig"}
# mirror of Tetl.C01.supports .ipv (theorems ipv_present_members / ipv_missing_members)
IPV_MEMBERS = {"try_push", "try_push_rv", "try_emplace", "unchecked_push", "unchecked_push_rv", "unchecked_emplace", "pop",
               "clear", "copy_ctor", "move_ctor", "dump"} | SIG_MEMBERS
# mirror of Tetl.C01.Spec.stateFree: the precondition does not mention the current contents
STATE_FREE = {"resize", "resize_val", "assign_fill", "assign_range", "clear", "ctor_n", "ctor_n_val", "ctor_range",
              "erase_val", "erase_if", "try_push", "try_push_rv", "try_emplace", "try_push_mv", "try_emplace_mv", "dump"}
BINARY_OPS = {"copy_ctor", "move_ctor", "copy_assign", "move_assign", "swap", "swap_free", "cmp"}
MEMBER_ARGS = "pos=0 n=0 x=0 xs=[] other=1 f=0 l=0 m=1 r=0"


def lists(alpha, maxlen):
    for n in range(maxlen + 1):
        for t in itertools.product(alpha, repeat=n):
            yield list(t)


# ---------------------------------------------------------------- validity-aware op generation

def unary_ops_exhaustive(ty, cap, d):
    """every single-object operation instance that is valid on content `d` (mirrors Tetl.C01.valid1)"""
    n = len(d)
    ops = []
    room = cap - n
    if ty == "sv":
        if room > 0:
            for x in (1, 2):
                ops += ["push x=%d" % x, "push_rv x=%d" % x, "emplace_back x=%d" % x]
            for p in range(n + 1):
                ops += ["insert pos=%d x=5" % p, "insert_rv pos=%d x=6" % p, "emplace pos=%d x=7" % p]
            # the argument is std::move(t) of an object the caller looks at afterwards (` arg=`)
            ops += ["push_mv x=1", "emplace_back_mv x=2"]
            for p in range(n + 1):
                ops += ["insert_mv pos=%d x=6" % p, "emplace_mv pos=%d x=7" % p]
        if n > 0:
            ops.append("pop")
        for p in range(n + 1):
            for k in range(room + 1):
                ops.append("insert_fill pos=%d n=%d x=8" % (p, k))
            for xs in lists([5, 6], min(room, 3)):
                ops.append("insert_range pos=%d xs=%s" % (p, fmt_list(xs)))
                ops.append("move_insert pos=%d xs=%s" % (p, fmt_list(xs)))
        for p in range(n):
            ops.append("erase pos=%d" % p)
        for f in range(n + 1):
            for l in range(f, n + 1):
                ops.append("erase_range f=%d l=%d" % (f, l))
        for k in range(cap + 1):
            ops += ["resize n=%d" % k, "resize_val n=%d x=4" % k, "assign_fill n=%d x=3" % k, "ctor_n n=%d" % k,
                    "ctor_n_val n=%d x=3" % k]
        for xs in lists([1, 2], min(cap, 3)):
            ops += ["assign_range xs=%s" % fmt_list(xs), "ctor_range xs=%s" % fmt_list(xs)]
        ops.append("clear")
        for x in (0, 1, 2):
            ops.append("erase_val x=%d" % x)
        ops += ["erase_if m=2 r=0", "erase_if m=2 r=1", "erase_if m=1 r=0", "erase_if m=3 r=2", "erase_if m=5 r=4"]
        ops += alias_ops_exhaustive(cap, d)
    elif ty == "stk":
        if room > 0:
            for x in (1, 2):
                ops += ["push x=%d" % x, "push_rv x=%d" % x, "emplace_back x=%d" % x]
            if n > 0:
                ops += ["push_top", "emplace_top"]
            ops += ["push_mv x=1", "emplace_back_mv x=2"]
        if n > 0:
            ops.append("pop")
    elif ty == "ipv":
        for x in (1, 2):
            ops += ["try_push x=%d" % x, "try_push_rv x=%d" % x, "try_emplace x=%d" % x]
            if room > 0:
                ops += ["unchecked_push x=%d" % x, "unchecked_push_rv x=%d" % x, "unchecked_emplace x=%d" % x]
        # the argument is std::move(t) of an object the caller looks at afterwards: on a full vector (room == 0; always at
        # capacity 0) try_* must not touch it
        ops += ["try_push_mv x=1", "try_emplace_mv x=2"]
        if room > 0:
            ops += ["unchecked_push_mv x=1", "unchecked_emplace_mv x=2"]
        for i in range(n):
            ops += ["try_push_alias i=%d" % i, "try_emplace_alias i=%d" % i]
            if room > 0:
                ops += ["unchecked_push_alias i=%d" % i, "unchecked_emplace_alias i=%d" % i]
        if n > 0:
            ops.append("pop")
        ops.append("clear")
    return ops


def alias_ops_exhaustive(cap, d):
    """static_vector: every member that takes its argument by reference, called with every element of the vector itself
    (`v.insert(v.begin() + pos, v[i])`), at every position / count (mirrors Tetl.C01.valid1 of the …A operations)"""
    n = len(d)
    room = cap - n
    ops = []
    if n == 0:
        return ops
    if room > 0:
        ops += ["push_top", "emplace_top"]
        for i in range(n):
            ops += ["push_alias i=%d" % i, "emplace_back_alias i=%d" % i]
            for p in range(n + 1):
                ops += ["insert_alias pos=%d i=%d" % (p, i), "emplace_alias pos=%d i=%d" % (p, i)]
    for i in range(n):
        for p in range(n + 1):
            for k in range(room + 1):
                ops.append("insert_fill_alias pos=%d n=%d i=%d" % (p, k, i))
        for k in range(cap + 1):
            ops.append("resize_val_alias n=%d i=%d" % (k, i))
    return ops


# the key/payload kind differs from int only in operator< / operator== (same storage): its single-object box is the
# members that compare elements, the aliasing members and a few plain ones
KP_UNARY = ("erase_val", "push", "insert", "push_mv", "insert_mv", "push_alias", "push_top", "insert_alias", "insert_fill_alias", "resize_val_alias")


def build(ty, d, obj):
    """lines that bring object `obj` (empty) to content d using members of the type"""
    if ty == "sv":
        return ["assign_range obj=%d xs=%s" % (obj, fmt_list(d))] if d else []
    if ty == "stk":
        return ["push obj=%d x=%d" % (obj, x) for x in d]
    return ["unchecked_push obj=%d x=%d" % (obj, x) for x in d]


BINARY = {"sv": ["copy_ctor", "move_ctor", "copy_assign", "move_assign", "swap", "swap_free", "cmp"],
          "stk": ["copy_ctor", "move_ctor", "copy_assign", "move_assign", "swap", "swap_free", "cmp"],
          "ipv": ["copy_ctor", "move_ctor"]}
SELF = {"sv": ["copy_assign", "move_assign", "swap", "swap_free", "cmp"],
        "stk": ["copy_assign", "move_assign", "swap", "swap_free", "cmp"], "ipv": []}


def independence_lines(ty, cap, d1):
    """after `copy obj=0 other=1` (both hold d1): overwrite / shrink / grow the source, then change the copy"""
    push = {"sv": "push", "stk": "push", "ipv": "try_push"}[ty]
    out = []
    n = len(d1)
    if ty == "sv" and n > 0:
        out.append("assign_fill obj=1 n=%d x=7" % n)        # same slots, new values: a shared buffer would show
    if n > 0:
        out.append("pop obj=1")
    if n < cap or n > 0:
        out.append("%s obj=1 x=1" % push)
    # the copy still holds d1
    if n < cap:
        out.append("%s obj=0 x=2" % push)
    elif n > 0:
        out.append("pop obj=0")
    if ty != "ipv":
        out.append("cmp obj=0 other=1")
    # a second round, alternating: source, copy, source, copy (sizes are tracked: every line stays valid)
    ns, nc = (n - 1 if n > 0 else 0) + (1 if (n < cap or n > 0) else 0), (n + 1 if n < cap else (n - 1 if n > 0 else 0))
    if ty == "sv":
        if ns > 0:
            out.append("erase obj=1 pos=0")
            ns -= 1
        if nc < cap:
            out.append("insert obj=0 pos=0 x=6")
            nc += 1
        if ns < cap:
            out.append("insert_fill obj=1 pos=%d n=1 x=4" % ns)
            ns += 1
        out.append("erase_if obj=0 m=2 r=0")
        out.append("dump obj=1")
    else:
        if ns > 0:
            out.append("pop obj=1")
        if nc < cap:
            out.append("%s obj=0 x=3" % push)
    return out


def boundary_histories(add):
    """deterministic walks across the 8/16-bit size-type boundary (capacities 254, 255, 256): fill to the capacity,
    one more attempt, step back, insert/erase at both ends while full-1, copy and compare"""
    for cap in (254, 255, 256):
        for kind in ("int", "nt"):
            xs = [i % 7 for i in range(cap - 1)]
            add([new_line("sv", cap, kind), "assign_range xs=%s" % fmt_list(xs), "push x=9", "pop", "insert pos=0 x=8",
                 "erase pos=0", "insert_fill pos=%d n=1 x=6" % (cap - 1), "copy_ctor obj=1 other=0", "cmp obj=0 other=1",
                 "pop obj=1", "cmp obj=0 other=1", "erase_range f=1 l=%d" % (cap - 1), "resize n=%d" % cap,
                 "resize_val n=%d x=3" % (cap - 2), "erase_if m=2 r=0", "assign_fill n=%d x=1" % cap, "swap obj=0 other=1",
                 "clear obj=1", "insert_range obj=1 pos=0 xs=%s" % fmt_list(xs + [5]), "pop obj=1",
                 "insert_alias obj=1 pos=0 i=%d" % (cap - 2), "pop obj=1", "insert_alias obj=1 pos=3 i=5", "pop obj=1",
                 "push_top obj=1", "resize_val_alias obj=1 n=%d i=1" % (cap - 3), "insert_fill_alias obj=1 pos=1 n=3 i=2",
                 "pop obj=1", "insert_mv obj=1 pos=2 x=9", "pop obj=1", "push_mv obj=1 x=9"],
                "sv/boundary")
            add([new_line("ipv", cap, kind)] + ["unchecked_push x=%d" % (i % 7) for i in range(cap - 1)]
                + ["try_push_mv x=9", "try_push x=4", "try_emplace x=4", "try_push_rv x=4", "try_push_mv x=5", "try_emplace_mv x=6",
                   "copy_ctor obj=1 other=0",
                   "pop obj=0", "try_push obj=1 x=2", "try_emplace obj=0 x=3", "move_ctor obj=2 other=0", "clear obj=0",
                   "try_push obj=0 x=1", "try_push obj=2 x=1", "try_push_alias obj=1 i=3", "pop obj=1",
                   "unchecked_push_alias obj=1 i=2", "try_emplace_alias obj=1 i=0"], "ipv/boundary")


def new_line(ty, cap, kind, init=None):
    """static_vector and stack objects are default-initialised (`T v;`), inplace_vector objects are
    value-initialised (`T v{}`): default-initialising an inplace_vector is known finding F-C01-inplace-vector-default-init"""
    if init is None:
        init = "value" if ty == "ipv" else "default"
    return "new ty=%s cap=%d kind=%s init=%s" % (ty, cap, kind, init)


def exhaustive(add, thorough):
    for ty in ("sv", "stk", "ipv"):
        # the handle kind (move assignment empties its source, no self test) exists for static_vector only
        # and the key/payload kind (operator< on the key only: the values 0 and 1 are equivalent and not equal, 2 is
        # greater than both) for static_vector and the stack over it
        for kind in {"sv": ("int", "nt", "hd", "kp"), "stk": ("int", "nt", "kp"), "ipv": ("int", "nt")}[ty]:
            caps = [0, 1, 2, 3] if ty != "stk" else [0, 1, 3]
            if kind == "kp" and ty == "stk":
                caps = list(KP_STK_CAPS)
            for cap in caps:
                head = new_line(ty, cap, kind)
                states = list(lists([0, 1, 2], cap))
                for d in states:
                    pre = build(ty, d, 0)
                    for op in unary_ops_exhaustive(ty, cap, d):
                        if kind == "kp" and not thorough and op.split(" ")[0] not in KP_UNARY:
                            continue
                        add([head] + pre + [op], "%s/%s" % (ty, op.split(" ")[0]))
                pair_states = states if (cap <= 2 or thorough) else [s for s in states if 0 not in s or len(s) <= 1]
                if kind == "hd" and not thorough:
                    pair_states = [s for s in pair_states if 2 not in s]
                if kind == "kp":
                    pair_states = states        # every ordered pair: equivalent-but-not-equal elements at every index
                for d0 in pair_states:
                    for d1 in pair_states:
                        pre = build(ty, d0, 0) + build(ty, d1, 1)
                        for op in (BINARY[ty] if kind != "kp" else ["cmp"] + (BINARY[ty][:-1] if thorough else [])):
                            lines = [head] + pre + ["%s obj=0 other=1" % op]
                            if op in ("move_ctor", "move_assign"):
                                # the moved-from source: observe it, then give it a specified value again and use it
                                lines += ["clear obj=1"] if ty != "stk" else ["copy_assign obj=1 other=2"]
                                if len(d1) < cap:
                                    lines += ["push obj=1 x=1"] if ty != "ipv" else ["try_push obj=1 x=1"]
                            elif op in ("copy_ctor", "copy_assign"):
                                # independence (observed, not proved): change the source (object 1) after the copy, then
                                # the copy (object 0); all four objects are dumped after every line
                                lines += independence_lines(ty, cap, d1)
                            add(lines, "%s/%s" % (ty, op))
                    for op in (SELF[ty] if kind != "kp" or thorough else ["cmp"]):
                        lines = [head] + build(ty, d0, 0) + ["%s obj=0 other=0" % op]
                        if op == "move_assign":
                            lines += ["clear obj=0"] if ty == "sv" else ["copy_assign obj=0 other=2"]
                        add(lines, "%s/%s-self" % (ty, op))
    # aliasing arguments need two distinct elements AND room for two copies to tell "read once" from "read per copy":
    # capacity 4, every content state of length 2
    for kind in ("int", "nt", "hd"):
        head = new_line("sv", 4, kind)
        for d in lists([0, 1, 2], 2):
            if len(d) == 2:
                for op in alias_ops_exhaustive(4, d):
                    add([head] + build("sv", d, 0) + [op], "sv/%s" % op.split(" ")[0])
    # the other initialisation form of every type
    for kind in ("int", "nt"):
        for cap in (0, 1, 4, 255, 256):
            add([new_line("ipv", cap, kind, "default")], "ipv/default-init")
            add([new_line("sv", cap, kind, "value"), "dump"] + (["push x=1"] if cap else []), "sv/value-init")
        for cap in (0, 1, 4):
            add([new_line("stk", cap, kind, "value"), "dump"] + (["push x=1"] if cap else []), "stk/value-init")
    # static facts
    for ty in ("sv", "ipv", "stk"):
        for cap in (ALL_CAPS if ty != "stk" else STK_CAPS):
            add(["api_bits ty=%s cap=%d kind=int" % (ty, cap)], "%s/api_bits" % ty)
        for kind in ("int", "nt"):
            add(["api_assign ty=%s cap=4 kind=%s" % (ty, kind)], "%s/api_assign" % ty)
            # which members of the property's operation list the type offers at all (capacity 0 is a separate
            # specialisation of inplace_vector and a separate storage of static_vector)
            for cap in (0, 4):
                for m in ALL_MEMBERS:
                    add(["api_member ty=%s cap=%d kind=%s member=%s %s" % (ty, cap, kind, m, MEMBER_ARGS)],
                        "%s/api_member" % ty)
    # the size type alone: both sides of every threshold of the chain, far beyond the capacities that are instantiated
    for n in WIDTH_CAPS:
        add(["api_width cap=%d" % n], "api_width")
    add(["api_abi"], "api_abi")
    boundary_histories(add)


# ---------------------------------------------------------------- random histories (python mirror of the model's contents)

class Mirror:
    """contents of the four objects as the *model* sees them (needed only to generate valid operations)"""

    def __init__(self, ty, cap, kind):
        self.ty, self.cap, self.kind = ty, cap, kind
        self.o = [[], [], [], []]
        self.unspec = [False] * 4

    def mvd(self, d):
        if self.kind == "nt":
            return [MOVED] * len(d)
        if self.kind == "hd":
            return [EMPTIED] * len(d)
        return list(d)


MV_CANDS = {"sv": ["push_mv", "emplace_back_mv", "insert_mv", "emplace_mv"], "stk": ["push_mv", "emplace_back_mv"],
            "ipv": ["try_push_mv", "try_push_mv", "try_emplace_mv", "unchecked_push_mv", "unchecked_emplace_mv"]}
ALIAS_CANDS = ["push_alias", "emplace_back_alias", "push_top", "emplace_top", "insert_alias", "insert_alias", "emplace_alias",
               "insert_fill_alias", "insert_fill_alias", "resize_val_alias"]
UNARY_CANDS = {
    "sv": ["push", "push_rv", "emplace_back", "insert", "insert_rv", "emplace", "insert_fill", "insert_range", "move_insert",
           "pop", "erase", "erase_range", "resize", "resize_val", "assign_fill", "assign_range", "clear", "erase_val",
           "erase_if", "ctor_n", "ctor_n_val", "ctor_range", "dump"] + ALIAS_CANDS + MV_CANDS["sv"],
    "stk": ["push", "push", "push_rv", "emplace_back", "pop", "pop", "dump", "push_top", "emplace_top"] + MV_CANDS["stk"],
    "ipv": ["try_push", "try_push", "try_push_rv", "try_emplace", "unchecked_push", "unchecked_push_rv",
            "unchecked_emplace", "pop", "pop", "clear", "try_push_alias", "try_emplace_alias", "unchecked_push_alias",
            "unchecked_emplace_alias"] + MV_CANDS["ipv"],
}


def rand_history(rnd, ty, cap, kind, length, big, interleave=False):
    """interleave=True: the shape of Tetl.C01.Props.copy_independent — object 1 is given a value, object 0 becomes a copy of
    it (copy construction, or copy assignment where the type has it), then only single-object operations follow, addressed
    to the source or to the copy in random interleaving (Tetl.C01.allUnary)"""
    m = Mirror(ty, cap, kind)
    lines = [new_line(ty, cap, kind, rnd.choice(["default", "value"]) if ty != "ipv" else "value")]
    tags = set()

    def val():
        return rnd.choice([0, 1, 2, 3, 5, 8, 13, 21, 34, 55])

    def emit(s, tag):
        lines.append(s)
        tags.add(tag)

    if big and ty == "sv":
        n0 = rnd.choice([cap, cap - 1, cap - 2, cap - 3, 253, 254]) if cap >= 4 else cap
        n0 = max(0, min(cap, n0))
        how = rnd.randrange(3)
        if how == 0:
            emit("assign_fill n=%d x=1" % n0, "assign_fill")
            m.o[0] = [1] * n0
        elif how == 1:
            emit("ctor_n n=%d" % n0, "ctor_n")
            m.o[0] = [0] * n0
        else:
            xs = [rnd.randrange(10) for _ in range(n0)]
            emit("insert_range pos=0 xs=%s" % fmt_list(xs), "insert_range")
            m.o[0] = xs
    if big and ty == "ipv":
        n0 = max(0, cap - rnd.choice([0, 1, 2, 3]))
        for i in range(n0):
            emit("unchecked_push x=%d" % (i % 10), "unchecked_push")
        m.o[0] = [i % 10 for i in range(n0)]
    nobj = 2 if (big or interleave) else 4
    if interleave:
        n1 = rnd.randint(0, cap)
        d1 = [rnd.choice([0, 1, 2, 3, 5, 8]) for _ in range(n1)]
        for ln in build(ty, d1, 1):
            emit(ln, ln.split(" ")[0])
        m.o[1] = list(d1)
        how = rnd.choice(["copy_ctor", "copy_assign"]) if ty != "ipv" else "copy_ctor"
        emit("%s obj=0 other=1" % how, how)
        m.o[0] = list(d1)
    for _ in range(length):
        k = rnd.randrange(nobj)
        d = m.o[k]
        n = len(d)
        room = cap - n
        # a moved-from object is usually given a specified value again first
        if m.unspec[k] and rnd.random() < 0.85:
            if ty in ("sv", "ipv"):
                emit("clear obj=%d" % k, "clear")
                m.o[k], m.unspec[k] = [], False
            else:
                src = [j for j in range(nobj) if not m.unspec[j]]
                if src:
                    j = rnd.choice(src)
                    emit("copy_assign obj=%d other=%d" % (k, j), "copy_assign")
                    m.o[k], m.unspec[k] = list(m.o[j]), False
            continue
        cands = []
        if ty == "sv":
            cands = ["push", "push_rv", "emplace_back", "insert", "insert_rv", "emplace", "insert_fill", "insert_range",
                     "move_insert", "pop", "erase", "erase_range", "resize", "resize_val", "assign_fill", "assign_range",
                     "clear", "erase_val", "erase_if", "ctor_n", "ctor_n_val", "ctor_range", "copy_ctor", "move_ctor",
                     "copy_assign", "move_assign", "swap", "swap_free", "cmp", "cmp", "dump"] + ALIAS_CANDS + MV_CANDS["sv"]
        elif ty == "stk":
            cands = ["push", "push", "push_rv", "emplace_back", "pop", "copy_ctor", "move_ctor", "copy_assign",
                     "move_assign", "swap", "swap_free", "cmp", "push_top", "emplace_top"] + MV_CANDS["stk"]
        else:
            cands = ["try_push", "try_push", "try_push_rv", "try_emplace", "unchecked_push", "unchecked_push_rv",
                     "unchecked_emplace", "pop", "clear", "copy_ctor", "move_ctor", "try_push_alias", "try_emplace_alias",
                     "unchecked_push_alias", "unchecked_emplace_alias"] + MV_CANDS["ipv"]
        if interleave:
            cands = UNARY_CANDS[ty]
        op = rnd.choice(cands)
        j = rnd.randrange(nobj)
        o = "obj=%d" % k
        if m.unspec[k] and op not in BINARY_OPS and op not in STATE_FREE:
            continue        # the standard does not say what a moved-from object holds: no precondition can be met
        if op in ("push", "push_rv", "emplace_back", "push_mv", "emplace_back_mv"):
            if room <= 0:
                continue
            x = val()
            emit("%s %s x=%d" % (op, o, x), op)
            d.append(x)
        elif op in ("push_alias", "emplace_back_alias"):
            if room <= 0 or n == 0:
                continue
            i = rnd.randrange(n)
            emit("%s %s i=%d" % (op, o, i), op)
            d.append(d[i])
        elif op in ("push_top", "emplace_top"):
            if room <= 0 or n == 0:
                continue
            emit("%s %s" % (op, o), op)
            d.append(d[-1])
        elif op in ("insert_alias", "emplace_alias"):
            if room <= 0 or n == 0:
                continue
            p = rnd.choice([0, n, rnd.randint(0, n)])
            i = rnd.choice([n - 1, rnd.randrange(n), rnd.randrange(n)])
            emit("%s %s pos=%d i=%d" % (op, o, p, i), op)
            d.insert(p, d[i])
        elif op == "insert_fill_alias":
            if n == 0:
                continue
            p = rnd.choice([0, n, rnd.randint(0, n)])
            c = rnd.choice([0, room, rnd.randint(0, room), min(room, 1), min(room, 2)])
            i = rnd.choice([n - 1, rnd.randrange(n), rnd.randrange(n)])
            emit("insert_fill_alias %s pos=%d n=%d i=%d" % (o, p, c, i), op)
            d[p:p] = [d[i]] * c
        elif op == "resize_val_alias":
            if n == 0:
                continue
            c = rnd.choice([0, cap, n, rnd.randint(0, cap), max(n - 1, 0), min(n + 1, cap)])
            i = rnd.randrange(n)
            emit("resize_val_alias %s n=%d i=%d" % (o, c, i), op)
            m.o[k] = d[:c] + [d[i]] * (c - n)
        elif op in ("try_push", "try_push_rv", "try_emplace", "try_push_mv", "try_emplace_mv"):
            x = val()
            emit("%s %s x=%d" % (op, o, x), op + ("/full" if room <= 0 else ""))
            if room > 0:
                d.append(x)
        elif op in ("unchecked_push", "unchecked_push_rv", "unchecked_emplace", "unchecked_push_mv", "unchecked_emplace_mv"):
            if room <= 0:
                continue
            x = val()
            emit("%s %s x=%d" % (op, o, x), op)
            d.append(x)
        elif op in ("try_push_alias", "try_emplace_alias"):
            if n == 0:
                continue
            i = rnd.randrange(n)
            emit("%s %s i=%d" % (op, o, i), op + ("/full" if room <= 0 else ""))
            if room > 0:
                d.append(d[i])
        elif op in ("unchecked_push_alias", "unchecked_emplace_alias"):
            if n == 0 or room <= 0:
                continue
            i = rnd.randrange(n)
            emit("%s %s i=%d" % (op, o, i), op)
            d.append(d[i])
        elif op == "pop":
            if n == 0:
                continue
            emit("pop %s" % o, op)
            d.pop()
        elif op in ("insert", "insert_rv", "emplace", "insert_mv", "emplace_mv"):
            if room <= 0:
                continue
            p = rnd.choice([0, n, rnd.randint(0, n)])
            x = val()
            emit("%s %s pos=%d x=%d" % (op, o, p, x), op)
            d.insert(p, x)
        elif op == "insert_fill":
            p = rnd.choice([0, n, rnd.randint(0, n)])
            c = rnd.choice([0, room, rnd.randint(0, room), min(room, 1), min(room, 2)])
            x = val()
            emit("insert_fill %s pos=%d n=%d x=%d" % (o, p, c, x), op)
            d[p:p] = [x] * c
        elif op in ("insert_range", "move_insert"):
            p = rnd.choice([0, n, rnd.randint(0, n)])
            c = rnd.choice([0, room, rnd.randint(0, room), min(room, 1), min(room, 3)])
            xs = [val() for _ in range(c)]
            emit("%s %s pos=%d xs=%s" % (op, o, p, fmt_list(xs)), op)
            d[p:p] = xs
        elif op == "erase":
            if n == 0:
                continue
            p = rnd.choice([0, n - 1, rnd.randrange(n)])
            emit("erase %s pos=%d" % (o, p), op)
            del d[p]
        elif op == "erase_range":
            f = rnd.randint(0, n)
            l = rnd.choice([f, n, rnd.randint(f, n)])
            emit("erase_range %s f=%d l=%d" % (o, f, l), op)
            del d[f:l]
        elif op in ("resize", "resize_val"):
            c = rnd.choice([0, cap, n, rnd.randint(0, cap), max(n - 1, 0), min(n + 1, cap)])
            x = val() if op == "resize_val" else 0
            emit("%s %s n=%d%s" % (op, o, c, " x=%d" % x if op == "resize_val" else ""), op)
            m.o[k] = d[:c] + [x] * (c - n)
        elif op in ("assign_fill", "ctor_n_val"):
            c = rnd.choice([0, cap, rnd.randint(0, cap)])
            x = val()
            emit("%s %s n=%d x=%d" % (op, o, c, x), op)
            m.o[k], m.unspec[k] = [x] * c, False
        elif op == "ctor_n":
            c = rnd.choice([0, cap, rnd.randint(0, cap)])
            emit("ctor_n %s n=%d" % (o, c), op)
            m.o[k], m.unspec[k] = [0] * c, False
        elif op in ("assign_range", "ctor_range"):
            c = rnd.choice([0, cap, rnd.randint(0, cap)])
            xs = [val() for _ in range(c)]
            emit("%s %s xs=%s" % (op, o, fmt_list(xs)), op)
            m.o[k], m.unspec[k] = xs, False
        elif op == "clear":
            emit("clear %s" % o, op)
            m.o[k], m.unspec[k] = [], False
        elif op == "erase_val":
            x = rnd.choice(d) if d and rnd.random() < 0.8 else val()
            emit("erase_val %s x=%d" % (o, x), op)
            m.o[k] = [v for v in d if v != x]
        elif op == "erase_if":
            mm = rnd.choice([1, 2, 2, 3, 5])
            r = rnd.randrange(mm)
            emit("erase_if %s m=%d r=%d" % (o, mm, r), op)
            m.o[k] = [v for v in d if v % mm != r]
        elif op == "copy_ctor":
            if j == k:
                continue
            emit("copy_ctor %s other=%d" % (o, j), op)
            m.o[k], m.unspec[k] = list(m.o[j]), m.unspec[j]
        elif op == "move_ctor":
            if j == k:
                continue
            emit("move_ctor %s other=%d" % (o, j), op)
            m.o[k], m.unspec[k] = list(m.o[j]), m.unspec[j]
            if ty == "ipv":
                m.o[j] = [] if kind != "int" else m.o[j]
            else:
                m.o[j] = m.mvd(m.o[j])
            m.unspec[j] = True
        elif op == "copy_assign":
            emit("copy_assign %s other=%d" % (o, j), op + ("-self" if j == k else ""))
            if j != k:
                m.o[k], m.unspec[k] = list(m.o[j]), m.unspec[j]
        elif op == "move_assign":
            emit("move_assign %s other=%d" % (o, j), op + ("-self" if j == k else ""))
            if j == k:
                m.o[k], m.unspec[k] = [], True
            else:
                m.o[k], m.unspec[k] = list(m.o[j]), m.unspec[j]
                m.o[j], m.unspec[j] = m.mvd(m.o[j]), True
        elif op in ("swap", "swap_free"):
            emit("%s %s other=%d" % (op, o, j), op + ("-self" if j == k else ""))
            if j != k:
                m.o[k], m.o[j] = m.o[j], m.o[k]
                m.unspec[k], m.unspec[j] = m.unspec[j], m.unspec[k]
        elif op == "cmp":
            emit("cmp %s other=%d" % (o, j), op)
        elif op == "dump":
            emit("dump %s" % o, op)
    return lines, tags


def kinds_for(ty, cap):
    """element kinds the harness instantiates for the type at this capacity"""
    if ty == "sv":
        return ["int", "nt", "hd"] + (["kp"] if cap in KP_CAPS else [])
    if ty == "stk":
        return ["int", "nt"] + (["kp"] if cap in KP_STK_CAPS else [])
    return ["int", "nt"]


def generate(tier, seed):
    rnd = random.Random(seed)
    thorough = tier == "thorough"
    cases, dist = [], {}

    def add(lines, tag):
        cases.append(Case(lines, tag))
        dist[tag] = dist.get(tag, 0) + 1

    exhaustive(add, thorough)
    nrand = 120000 if thorough else 5000
    nbig = 3000 if thorough else 150
    for i in range(nrand):
        ty = rnd.choice(["sv", "sv", "sv", "stk", "ipv"])
        cap = rnd.choice([0, 1, 2, 3, 4, 4, 7, 7] if ty != "stk" else STK_CAPS)
        kind = rnd.choice(kinds_for(ty, cap))
        lines, tags = rand_history(rnd, ty, cap, kind, rnd.randint(1, 40), False)
        add(lines, "%s/rand" % ty)
        for t in tags:
            dist["rand-op/" + t] = dist.get("rand-op/" + t, 0) + 1
    # a copy and its source, changed in random interleaving (the hypothesis shape of copy_independent)
    for i in range(40000 if thorough else 2500):
        ty = rnd.choice(["sv", "sv", "stk", "ipv"])
        cap = rnd.choice([1, 2, 3, 4, 4, 7, 7] if ty != "stk" else [1, 3, 4])
        kind = rnd.choice(kinds_for(ty, cap))
        lines, tags = rand_history(rnd, ty, cap, kind, rnd.randint(2, 16), False, interleave=True)
        add(lines, "%s/interleave" % ty)
        for t in tags:
            dist["interleave-op/" + t] = dist.get("interleave-op/" + t, 0) + 1
    for i in range(nbig):
        ty = rnd.choice(["sv", "sv", "ipv"])
        cap = rnd.choice([254, 255, 256])
        kind = rnd.choice(["int", "nt"])
        lines, tags = rand_history(rnd, ty, cap, kind, rnd.randint(1, 10), True)
        add(lines, "%s/rand-big" % ty)
        for t in tags:
            dist["rand-big-op/" + t] = dist.get("rand-big-op/" + t, 0) + 1
    self_check(cases)
    return cases, False, dist


def self_check(cases):
    """Generator self-check: every generated line must satisfy the Lean predicate `Tetl.C01.valid` (the hypothesis
    of the theorems) in the state the *model* reaches; the compiled driver answers `invalid` otherwise."""
    import os
    import subprocess
    import tempfile
    import lib
    exe = lib.driver_path(DRIVER)
    if not os.path.exists(exe):
        return
    with tempfile.NamedTemporaryFile("w", suffix=".cases", delete=False) as f:
        for c in cases:
            f.write(c.text() + "\n")
        path = f.name
    try:
        with open(path) as fin:
            out = subprocess.run([exe], stdin=fin, stdout=subprocess.PIPE, text=True).stdout.split("\n")
    finally:
        os.unlink(path)
    # `err:pre(size_type truncates the size)` is not a generator defect: the size type of the model is the chain extracted
    # from the header under check (GenSize.lean); for a chain that selects too narrow a type the model reports the truncation
    # on a perfectly valid line (size_fits no longer holds); that line and the rest of its history go on to the comparison
    # with the implementation
    bad, pos = [], 0
    for c in cases:
        truncated = False
        for ln in c.lines:
            o = out[pos] if pos < len(out) else ""
            pos += 1
            if o.startswith("err:") and "size_type truncates the size" in o.split("\t")[0]:
                truncated = True        # from here on model and spec state of this history drift apart
            elif not truncated and (o.startswith("invalid") or o.startswith("bad-op") or o.startswith("err:")):
                bad.append((ln, o))
    if bad:
        raise lib.MachineryError("generator produced %d lines that violate a precondition or make the model fail, "
                                 "first: %r" % (len(bad), bad[0]))


def nontrivial(case, rows):
    if len(case.lines) < 2:
        return False
    return any("d=[" in r.model and r.model.count("d=[]") < 4 for r in rows[1:])


def classify(case, k, row):
    """finding classes, recomputed from the case line (and the model's answer), never from a generator tag"""
    ln = case.lines[k]
    f = dict(t.split("=", 1) for t in ln.split(" ")[1:] if "=" in t)
    if ln.startswith("api_assign ty=ipv"):
        return "F-C01-inplace-vector-not-assignable"
    if ln.startswith("api_member ") and f.get("ty") == "ipv":
        m = f.get("member")
        # class: the operation is not in `supports .ipv` (the model says so too) although std::inplace_vector has it
        # (inplace_vector<T, 0> is an empty class: implicitly assignable, generic etl::swap applies — Tetl.C01.ipvZeroExtra)
        zero_extra = f.get("cap") == "0" and m in ("copy_assign", "move_assign", "swap_free")
        if m in ALL_MEMBERS and m not in IPV_MEMBERS and not zero_extra and row.model == "has=0" and row.spec == "has=1":
            return "F-C01-inplace-vector-not-assignable" if m in ("copy_assign", "move_assign") \
                else "F-C01-inplace-vector-missing-members"
        return None
    if ln.startswith("new ty=ipv") and "init=default" in ln and " cap=0 " not in ln:
        return "F-C01-inplace-vector-default-init"
    if ln.startswith("api_bits ") or ln.startswith("api_width "):
        # class: the capacity is one of the thresholds of the chain (Tetl.C01.Props.size_type_minimal_partial) and the
        # selected width is indeed larger than the smallest one that fits
        try:
            cap = int(f.get("cap", ""))
        except ValueError:
            return None
        min_bits = 8 if cap < 2 ** 8 else 16 if cap < 2 ** 16 else 32 if cap < 2 ** 32 else 64
        if cap in THRESHOLDS and row.model.startswith("bits=") and row.model[5:].isdigit() \
                and int(row.model[5:]) > min_bits and row.spec == "bits=%d" % min_bits:
            return "F-C01-size-type-not-smallest-at-threshold"
    return None


def group_of(case):
    return case.tag


CLAIMED = True
TECHNIQUE = ("Lean 4 proof: every member model of static_vector / inplace_vector / stack (append + swap-cycle rotate, move-down "
             "erase, remove_if, the comparison loops) refines the list semantics of the standard for all capacities, contents "
             "and histories; the model is tied to the code by an exhaustive small-scope + random history correspondence run")
LEVEL_TEXT = ("Proved in Lean 4 (no size bound, all capacities < 2^64, induction over operation histories on four live objects): "
              "for every history whose steps are valid by the standard's own book-keeping (Spec.validHist: positions and "
              "capacity demands judged on the spec state, the model is not consulted; a moved-from object only takes operations "
              "without a precondition on its contents) the model of static_vector and of stack<T, static_vector> returns "
              "without an error at every step "
              "(no access outside the live elements, no capacity overflow, the narrow size type never truncates), keeps "
              "size <= capacity and the capacity itself, and produces exactly the contents, iterator offset, "
              "count, pointer and the six comparison results that the list semantics of std::vector prescribe; "
              "try_push_back on a full inplace_vector returns null and changes nothing. "
              "Rvalue arguments (tryPush_full_keeps_argument, tryPush_room_consumes_argument, "
              "rvalue_argument_moved_iff_constructed, rvalue_members_generalise, rvalue_members_present): a call "
              "f(std::move(t)) is an operation of the model language whose result includes what the caller sees of t "
              "afterwards; the model treats the argument as a slot that a member consumes at the point where the code "
              "constructs an element (or a local) from it; proved for all capacities (0 included), contents and element kinds: "
              "under the documented precondition t is moved from exactly when the vector has grown by one element, and "
              "try_push_back(T&&) / try_emplace_back on a full inplace_vector leave vector AND argument untouched "
              "([inplace.vector.modifiers]: 'Otherwise, there are no effects'); these operations are part of step_refines / "
              "history_refines. Whether 'moved from' is visible depends on the element type: the model maps it to the "
              "moved-from value of the harness classes (mvd: 9999 / 9998; int and the key/payload pair show no difference). "
              "Aliasing arguments (insert_alias_eq, insertFill_alias_eq, push_alias_eq, resize_alias_eq, alias_spec, "
              "alias_members_generalise): v.insert(pos, v[i]), v.insert(pos, n, v[i]), v.emplace(pos, v[i]), v.push_back(v[i]), "
              "v.emplace_back(v[i]), v.resize(n, v[i]), stack push(top()) / emplace(top()) and inplace_vector "
              "try_push_back(c[i]) / unchecked_push_back(c[i]) / the emplace forms (ipv_push_alias_eq) are operations of the model "
              "language and of the history theorem; the model reads the argument through the reference in the buffer state "
              "in which the code reads it, and the theorems say the result is that of the same call with a copy of the "
              "element taken before the call; assign(n, v[i]) is excluded by the standard and the model shows why "
              "(assign_alias_reads_destroyed). "
              "Relational operators (relOps_refines, relOps_refines_strict_weak, kinds_strict_weak, relOps_refines_kinds): for "
              "an element type with any asymmetric operator< (every strict weak order) and any operator==, nothing assumed "
              "between them, == / != as derived from equal (through == alone) and < <= > >= as derived from "
              "lexicographical_compare (through < alone, a <= b := !(b < a)) equal operator== and the operator<=> of "
              "[container.opt.reqmts] with synth-three-way; that a <= b is also a < b || a == b holds only for a total order "
              "consistent with == (relOps_total_order, relOps_refines_nat). "
              "Observers (observers_refine, observers_refine_ipv_stk, observers_zero_capacity): size/empty/full/capacity/max_size, "
              "the begin..end and rbegin..rend walks, data()[i], operator[] / front / back / top through detail::index and its "
              "contract check are model functions of their own and equal length / = [] / length = capacity / the list / its "
              "reverse / list[i] / head / getLast. "
              "'A copy is independent of its source' (copy_independent, interleave_projection, interleave_ok): for every "
              "interleaved history of single-object operations after a copy, the copy ends with the contents and results of its "
              "own operations run alone from the copied value, the source with those of its own operations run from the state "
              "before the copy; this is a theorem about the model's step function (whose objects are separate lists) - that the "
              "C++ objects own their storage is observed on the same interleaved histories (data() lies inside the object, all "
              "four objects dumped after every line, ASan). "
              "erase_if / erase(c, value) (eraseIf_refines for every element kind, eraseIf_keeps_handles): the element move "
              "assignment of remove_if is modelled with its effect on the source and on a self-assignment; kept elements keep "
              "their value, no element is move-assigned to itself (the handle element kind makes that observable). "
              "Moved-from objects (moved_from_static_vector / _inplace_vector / _self / _usable): static_vector keeps the size "
              "with moved-from elements, inplace_vector of a non-trivial type is emptied, of a trivial type untouched; all stay "
              "within capacity and accept every operation without a precondition on the contents. "
              "Size type: the conditional_t chain of smallest_size_t is extracted from the header on every run "
              "(lean/Tetl/C01/GenSize.lean); size_fits is proved about that chain (every capacity < 2^64 fits the selected "
              "type, for any chain whose links are sound); the selected type is the smallest of 8/16/32/64 bits that fits "
              "EXCEPT at capacities 255, 65535, 2^32-1 (size_type_minimal_partial / _counterexample, known finding "
              "F-C01-size-type-not-smallest-at-threshold); the storage selection of static_vector (capacity 0 / trivial / "
              "non-trivial) and the aliases of the size type are pinned by storage_selection_as_modelled. "
              "inplace_vector: the history theorem covers ONLY the members etl::inplace_vector has (try_/unchecked_ push and "
              "emplace, pop_back, clear, copy and move construction); push_back/emplace_back, insert, erase, resize, assign, the "
              "sized and range constructors, assignment, swap, erase/erase_if and the relational operators of "
              "std::inplace_vector do not exist in etl::inplace_vector, so that part of the property's histories is not "
              "covered for this type (known findings F-C01-inplace-vector-missing-members and -not-assignable; the inventory is "
              "re-derived from the headers by compile-time probes on every run). "
              "The model mirrors the C++ loop by "
              "loop (insert = append then the swap-cycle rotate; erase = move down, destroy, shrink; erase_if = remove_if + "
              "erase) and is compared with the implementation on every run under ASan/UBSan: exhaustively for all content "
              "states over three values at capacity 0..3 with every member, position, count and overload and every pair of "
              "states for copy/move/swap/compare, for int, a non-trivial class (both storage implementations), a handle "
              "class (static_vector) and a key/payload pair whose == is finer than its <-equivalence (static_vector, stack: the "
              "relational operators on every ordered pair of states), every reference-taking member with every element of the "
              "vector itself as argument, plus random 40-step histories and interleaved copy/source histories at capacities up to 7, "
              "and deterministic walks plus random 10-step histories at the "
              "254/255/256 size-type boundary; the spec is validated against libstdc++ on the same histories.")
LEVEL_NOTE = ("The state of an rvalue argument is one bit in the model (moved from or not): that the element's move constructor "
              "runs exactly once (not twice through an extra temporary) is not distinguished - emplace(pos, std::move(t)) moves "
              "twice (into its local, then into the vector), std::vector once, both leave t moved from. "
              "Trusted: Lean kernel + propext/Classical.choice/Quot.sound; fidelity of the hand model outside the explored "
              "histories; the extractor gen/sizetype.py and the width table CTy.bits (LP64; compared with sizeof on every run); "
              "element types modelled at the value level (object lifetime is C03's subject); g++-12 with "
              "ASan/UBSan; libstdc++ as oracle for R2 (std::vector + capacity test as stand-in for std::inplace_vector). Values "
              "the standard leaves unspecified (moved-from vectors) are masked on the spec side only, and mask the spec column "
              "of the whole line while they exist; what etl leaves there is stated by the moved_from_* theorems and compared "
              "model vs implementation. history_refines_modelstate additionally covers histories that go on using "
              "a moved-from object with the contents etl leaves in it. copy_independent / interleave_projection are statements "
              "about the model (separate lists per object): sharing of storage is excluded on the C++ side by observation, not "
              "by proof. In erase(first,last) the moved-from state of the sources of etl::move is not modelled (those elements "
              "are destroyed or overwritten before anything can observe them; dst < src by construction). Known: "
              "default-initialised inplace_vector has an indeterminate size (F-C01-inplace-vector-default-init); the size type "
              "is one step too wide at capacities 255 / 65535 / 2^32-1. Members listed in coverage.correspondence_only have "
              "no theorem.")
# members modelled and compared on every run but without a Lean theorem of their own
CORRESPONDENCE_ONLY = [
    "cbegin/cend/crbegin/crend and the const overloads of the observers (same bodies as the non-const ones that are modelled "
    "in Observe.lean; the harness cross-checks them on every line: @cbegin, @cidx)",
    "default- vs value-initialisation of a new object (initSize: compared on `new ... init=` lines)",
    "stack::emplace / static_vector::emplace_back return type (void, std returns a reference): not compared",
    "member inventory (api_member: `supports` of the model against requires-expression probes of the tetl type, Spec.offers "
    "against the std type)",
    "addresses: front()/back() refer to the first/last element, data() == begin(), the storage lies inside the object "
    "(@fbaddr, @data, @inl flags of the harness; the model has no addresses)",
]
# clauses of the property that no theorem carries: checked on the real code on every run, nothing more
UNPROVED_OBSERVED = [
    "'a copy is independent of its source' on the C++ side: copy_independent is proved about the model, whose objects are "
    "separate lists; that a static_vector / inplace_vector / stack object owns its storage (no sharing after a copy) is "
    "observed: data() lies inside the object (@inl), after every copy of the exhaustive box the source is overwritten in place, "
    "shrunk, grown, then the copy is changed, two rounds; random interleaved copy/source histories; all four objects are "
    "dumped through the public API after every line and compared with the model, the spec and std::vector",
    "inplace_vector members that std::inplace_vector has and etl::inplace_vector lacks (insert, erase, resize, assign, swap, "
    "erase_if, relational operators, push_back, sized/range constructors, assignment): nothing to run; their absence is "
    "re-observed on every run (api_member) and reported as known finding",
]
