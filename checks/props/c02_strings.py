"""C02 part 'strings' — boundary stream of VALID operations for

  str.*  etl::inplace_string<N>, N in {1,2,15,16,255,256} (15/16 = tiny/normal layout switch, 255/256 = width of the size
         field), each object default- or value-initialised on an exact-size heap chunk over poison (harness/c02_strings.inc);
         replayed on the C04 model/spec (lean/Tetl/C02/Strings.lean);
  sv.*   etl::basic_string_view<char|char8_t|char16_t> on exact-size heap chunks without terminator; replayed on the C08
         model/spec.

Only operations inside the documented preconditions are generated (the predicate is Tetl.C04.Spec.valid plus the checked
preconditions of the header: push_back needs room, pop_back/front/back a non-empty string, assign a length <= Capacity,
replace pos + count < size() with an equally long replacement — F-C05-replace-pre / F-C04-replace-overwrites-only bound the
valid replace calls; rfind always gets an explicit pos — F-C04-rfind-default-pos).  Appends/inserts/resizes beyond the
capacity are valid for this library (the count is clamped): they are generated and compared as `clamp inv=1`.
"""
import random

from lib import Case, fmt_list

CAPS = (1, 2, 15, 16, 255, 256)
INITS = ("value", "default")
ALPHA = [97, 98, 200, 99, 1]
FAMS = ("find", "rfind", "find_first_of", "find_last_of", "find_first_not_of", "find_last_not_of")


def L(xs):
    return fmt_list(xs)


def content(n, shift=0):
    return [ALPHA[(i + shift) % len(ALPHA)] for i in range(n)]


def dedupe(xs):
    out = []
    for x in xs:
        if x not in out:
            out.append(x)
    return out


class Gen:
    def __init__(self):
        self.cases = []
        self.dist = {}

    def add(self, lines, tag):
        self.cases.append(Case(lines, tag))
        self.dist[tag] = self.dist.get(tag, 0) + 1


# ------------------------------------------------------------------------------------------------ str.*

def new(cap, init):
    return "str.new cap=%d init=%s" % (cap, init)


def setx(x, k=0):
    return "str.assign obj=%d ov=ptrn s=%s n=%d" % (k, L(x), len(x))


def sizes_of(cap):
    return dedupe([0, 1, cap - 1, cap])


def pos_set(n):
    """pos in {0, size-1, size, size+1, npos}"""
    return dedupe([0, max(n - 1, 0), n, n + 1, "npos"])


def sources(y, other_ok=True):
    """overload selections that denote exactly y (obj 1 must hold y for str/strsub/strsubv)"""
    lit = "s=%s" % L(y)
    out = ["ov=ptrn %s n=%d" % (lit, len(y)), "ov=view " + lit, "ov=range " + lit,
           "ov=viewsub %s pos2=0 count2=npos" % lit, "ov=viewsub s=%s pos2=1 count2=%d" % (L([120] + y), len(y))]
    if 0 not in y:
        out.append("ov=cstr " + lit)
    if other_ok:
        out += ["ov=str", "ov=strsub pos2=0", "ov=strsub pos2=0 count2=%d" % len(y), "ov=strsubv pos2=0 count2=npos"]
    if len(y) == 1:
        out.append("ov=ch ch=%d" % y[0])
    return out


def allowed(fam, sel):
    ov = sel.split(" ")[0][3:]
    table = {
        "assign": ("ptrn", "cstr", "range", "view", "viewsub", "str", "strsub", "ch"),
        "opassign": ("cstr", "view", "str", "ch"),
        "append": ("ptrn", "cstr", "range", "view", "viewsub", "str", "strsub", "ch"),
        "pluseq": ("cstr", "view", "str", "ch"),
        "insert": ("ptrn", "cstr", "view", "viewsub", "str", "strsubv"),
    }
    return ov in table[fam]


def fresh_history(g, cap, init, thorough):
    """every member on the untouched object: this is where default- vs value-initialisation shows"""
    t = "str/fresh/c%d" % cap
    q = ["str.state obj=0", "str.info obj=0", "str.c_str obj=0", "str.at obj=0 pos=0", "str.substr obj=0", "str.substr obj=0 pos=0 count=npos",
         "str.copy obj=0 count=0", "str.copy obj=0 count=npos pos=0", "str.compare obj=0 ov=str", "str.compare obj=0 ov=cstr s=[]",
         "str.compare obj=0 ov=view s=[]", "str.compare obj=0 ov=str3 pos=0 count=npos", "str.compare obj=0 ov=str5 pos=0 count=0 pos2=0",
         "str.starts_with obj=0 ov=view s=[]", "str.ends_with obj=0 ov=view s=[]", "str.contains obj=0 ov=view s=[]",
         "str.starts_with obj=0 ov=ch ch=97 s=[97]", "str.ends_with obj=0 ov=cstr s=[97]", "str.contains obj=0 ov=ch ch=0 s=[0]"]
    for fam in FAMS:
        for p in (0, 1, "npos"):
            q.append("str.%s obj=0 ov=%s pos=%s" % (fam, ("str", "ptrn s=[97] n=1", "ch ch=0 s=[0]")[(len(q) + (p == 0)) % 3], p))
    q += ["str.erase obj=0 ov=idx", "str.erase obj=0 ov=range first=0 last=0", "str.resize obj=0 count=0", "str.clear obj=0",
          "str.append obj=0 ov=str", "str.insert obj=0 idx=0 ov=str", "str.swap obj=0 ov=member", "str.state obj=0", "str.c_str obj=1"]
    g.add([new(cap, init)] + q, t)
    # the first write into the fresh object, one per history
    full = content(cap)
    firsts = ["str.push_back obj=0 ch=200", "str.append obj=0 ov=fill count=%d ch=97" % cap, "str.append obj=0 ov=ptrn s=%s n=%d" % (L(full), cap),
              "str.append obj=0 ov=range s=%s" % L(full), "str.insert obj=0 idx=0 ov=view s=%s" % L(full), "str.insert obj=0 idx=0 ov=fill count=%d ch=1" % min(cap, 16),
              "str.resize obj=0 count=%d ch=200" % cap, "str.resize obj=0 count=%d" % cap, "str.assign obj=0 ov=fill count=%d ch=98" % cap,
              "str.assign obj=0 ov=cstr s=%s" % L([97] * cap), "str.opassign obj=0 ov=ch ch=200", "str.pluseq obj=0 ov=ch ch=0",
              "str.append obj=0 ov=fill count=npos ch=97", "str.resize obj=0 count=npos ch=97"]
    for f in firsts:
        g.add([new(cap, init), f, "str.c_str obj=0", "str.info obj=0"] + (["str.swap obj=0 ov=free", "str.info obj=1"] if thorough else []), t)


def access_history(g, cap, init, x):
    n = len(x)
    q = [setx(x), "str.info obj=0", "str.c_str obj=0", "str.state obj=0"]
    for p in dedupe([0, max(n - 1, 0), n]):
        q.append("str.at obj=0 pos=%d" % p)
    if n:
        q += ["str.front obj=0", "str.back obj=0"]
    for p in dedupe([0, max(n - 1, 0), n]):
        for c in dedupe([0, 1, n - p, n - p + 1, "npos"]):
            q.append("str.substr obj=0 pos=%d count=%s" % (p, c))
            q.append("str.copy obj=0 count=%s pos=%d" % (c, p))
        q.append("str.substr obj=0 pos=%d" % p)
    q += ["str.substr obj=0", "str.copy obj=0 count=npos", "str.copy obj=0 count=%d" % n]
    g.add([new(cap, init)] + q, "str/access/c%d" % cap)


def search_history(g, cap, init, x, thorough):
    n = len(x)
    ys = [[], x[-2:], x[:1], [120], x + [97]] if thorough else [[], x[-2:], x + [97]]
    ys = dedupe(ys)
    q = [setx(x)]
    rot = 0
    for y in ys:
        fits = len(y) <= cap
        if fits:
            q.append(setx(y, 1))
        lit = "s=%s" % L(y)
        for fam in FAMS:
            for p in pos_set(n):
                ovs = ["ptrn %s n=%d" % (lit, len(y))]
                if fits:
                    ovs.append("str")
                if 0 not in y:
                    ovs.append("cstr " + lit)
                if len(y) == 1:
                    ovs.append("ch ch=%d %s" % (y[0], lit))
                if fam == "find_first_of":
                    ovs.append("view " + lit)
                rot += 1
                q.append("str.%s obj=0 ov=%s pos=%s" % (fam, ovs[rot % len(ovs)], p))
        for fam in ("starts_with", "ends_with", "contains"):
            q.append("str.%s obj=0 ov=view %s" % (fam, lit))
            if 0 not in y:
                q.append("str.%s obj=0 ov=cstr %s" % (fam, lit))
            if len(y) == 1:
                q.append("str.%s obj=0 ov=ch ch=%d %s" % (fam, y[0], lit))
    # defaults of pos where the header agrees with the standard
    if cap >= 1:
        q.append(setx(x[-1:], 1))
        for fam in FAMS:
            if fam != "rfind":
                q.append("str.%s obj=0 ov=str" % fam)
                q.append("str.%s obj=0 ov=ch ch=97 s=[97]" % fam)
    g.add([new(cap, init)] + q, "str/search/c%d" % cap)


def compare_history(g, cap, init, x, thorough):
    n = len(x)
    ys = dedupe([x, x[:-1], x + [97], [], x[:-1] + [201]])
    q = [setx(x)]
    pcs = dedupe([(0, 0), (0, "npos"), (max(n - 1, 0), 1), (n, 0), (n, "npos"), (0, n + 1), (0, n)])
    rot = 0
    for y in ys:
        fits = len(y) <= cap
        lit = "s=%s" % L(y)
        if fits:
            q += [setx(y, 1), "str.compare obj=0 ov=str"]
        q.append("str.compare obj=0 ov=view " + lit)
        if 0 not in y:
            q.append("str.compare obj=0 ov=cstr " + lit)
        for (p, c) in pcs:
            three = ["view3 " + lit, "ptrn4 %s n=%d" % (lit, len(y))]
            if fits:
                three.append("str3")
            if 0 not in y:
                three.append("cstr3 " + lit)
            rot += 1
            sel = [three[rot % len(three)], three[(rot + 1) % len(three)]] if thorough else [three[rot % len(three)]]
            for s3 in sel:
                q.append("str.compare obj=0 ov=%s pos=%s count=%s" % (s3, p, c))
            for p2 in dedupe([0, len(y)]):
                for c2 in (["npos", 0, None] if thorough else [("npos", 0, None)[rot % 3]]):
                    tail = "pos2=%d" % p2 + ("" if c2 is None else " count2=%s" % c2)
                    rot += 1
                    if fits and rot % 2:
                        q.append("str.compare obj=0 ov=str5 pos=%s count=%s %s" % (p, c, tail))
                    else:
                        q.append("str.compare obj=0 ov=view5 %s pos=%s count=%s %s" % (lit, p, c, tail))
    g.add([new(cap, init)] + q, "str/compare/c%d" % cap)


def mutator_histories(g, cap, init, x, thorough):
    n = len(x)
    room = cap - n
    t = "c%d" % cap
    chk = ["str.state obj=0", "str.c_str obj=0"]

    def hist(tag, ops, other=None):
        """each op runs on the same start state: obj 0 = x (re-assigned before every op), obj 1 = other"""
        if not thorough and len(ops) > 24:
            # quick tier: every fourth operation, the phase depends on (capacity, size) so that all overloads are met
            ops = ops[(cap + n) % 4::4]
        elif not thorough and len(ops) > 12:
            ops = ops[(cap + n) % 2::2]
        q = [new(cap, init)]
        cur_other = None
        for o, y in ops:
            if y is not None and y != cur_other:
                q.append(setx(y, 1))
                cur_other = y
            q.append(setx(x))
            q.append(o)
        q += chk
        g.add(q, "str/%s/%s" % (tag, t))

    # ---- append / += : empty source, exact-fit source, one more than fits (clamped)
    lens = dedupe([0, room, room + 1] + ([1] if room >= 1 else []))
    ops = []
    for fam in ("append", "pluseq"):
        for ln in lens:
            y = content(ln, 2)
            other_ok = ln <= cap
            for sel in sources(y, other_ok):
                if allowed(fam, sel):
                    ops.append(("str.%s obj=0 %s" % (fam, sel), y if other_ok else None))
    for c in dedupe([0, room, room + 1, "npos"]):
        ops.append(("str.append obj=0 ov=fill count=%s ch=200" % c, None))
    hist("append", ops)
    # ---- push_back / pop_back / clear / resize / erase_value
    ops = []
    if room >= 1:
        ops += [("str.push_back obj=0 ch=200", None), ("str.push_back obj=0 ch=0", None), ("str.pluseq obj=0 ov=ch ch=97", None)]
    if n >= 1:
        ops.append(("str.pop_back obj=0", None))
    ops.append(("str.clear obj=0", None))
    for c in dedupe([0, max(n - 1, 0), n, min(n + 1, cap), cap, cap + 1, "npos"]):
        ops.append(("str.resize obj=0 count=%s ch=120" % c, None))
        if c != "npos":
            ops.append(("str.resize obj=0 count=%s" % c, None))
    for v in (97, 200, 120):
        ops.append(("str.erase_value obj=0 ch=%d" % v, None))
    hist("size", ops)
    # ---- insert at 0, size-1, size
    ops = []
    for idx in dedupe([0, max(n - 1, 0), n]):
        for ln in lens:
            y = content(ln, 3)
            other_ok = ln <= cap
            for sel in sources(y, other_ok):
                if allowed("insert", sel):
                    ops.append(("str.insert obj=0 idx=%d %s" % (idx, sel), y if other_ok else None))
        for c in dedupe([0, min(room, 20), min(room + 1, 20)]):
            ops.append(("str.insert obj=0 idx=%d ov=fill count=%d ch=120" % (idx, c), None))
    hist("insert", ops)
    # ---- erase
    ops = [("str.erase obj=0 ov=idx", None)]
    for idx in dedupe([0, max(n - 1, 0), n]):
        ops.append(("str.erase obj=0 ov=idx idx=%d" % idx, None))
        for c in dedupe([0, 1, n - idx, n - idx + 1, "npos"]):
            ops.append(("str.erase obj=0 ov=idx idx=%d count=%s" % (idx, c), None))
    for p in dedupe([0, n - 1]) if n else []:
        ops.append(("str.erase obj=0 ov=it pos=%d" % p, None))
    for f, la in dedupe([(0, 0), (0, n), (n, n), (max(n - 1, 0), n), (0, min(1, n))]):
        ops.append(("str.erase obj=0 ov=range first=%d last=%d" % (f, la), None))
    hist("erase", ops)
    # ---- assign / operator= : empty, one, exactly Capacity
    ops = []
    for fam in ("assign", "opassign"):
        for ln in dedupe([0, 1, cap - 1, cap]):
            y = content(ln, 1)
            for sel in sources(y, True):
                if allowed(fam, sel):
                    ops.append(("str.%s obj=0 %s" % (fam, sel), y))
    for c in dedupe([0, 1, cap]):
        ops.append(("str.assign obj=0 ov=fill count=%d ch=200" % c, None))
    hist("assign", ops)
    # ---- swap with a full / empty / one-shorter other string
    for y in dedupe([content(cap, 1), [], content(cap - 1, 4)] if thorough else [content(cap, 1)]):
        for ov in ("member", "free"):
            g.add([new(cap, init), setx(y, 1), setx(x), "str.swap obj=0 ov=%s" % ov, "str.c_str obj=0", "str.c_str obj=1", "str.info obj=0",
                   "str.info obj=1"] + (["str.push_back obj=1 ch=113"] if n < cap else []) + ["str.swap obj=1 ov=%s" % ov, "str.state obj=0"],
                  "str/swap/" + t)
    # ---- replace inside the checked precondition pos + count < size(), replacement as long as the replaced part
    if n >= 2:
        ops = []
        for p, c in dedupe([(0, 0), (0, 1), (0, n - 1), (n - 2, 1), (n - 1, 0), (1, max(n - 2, 0))]):
            if p < n and p + c < n:
                y = [120] * c
                ops.append(("str.replace obj=0 ov=ptrn pos=%d count=%d s=%s n=%d" % (p, c, L(y + [5]), c), None))
                ops.append(("str.replace obj=0 ov=cstr pos=%d count=%d s=%s" % (p, c, L(y)), None))
                ops.append(("str.replace obj=0 ov=itptrn first=%d last=%d s=%s n=%d" % (p, p + c, L(y), c), None))
                ops.append(("str.replace obj=0 ov=itcstr first=%d last=%d s=%s" % (p, p + c, L(y)), None))
        hist("replace", ops)


class Sim:
    def __init__(self, cap):
        self.cap = cap
        self.s = [[], []]


def random_history(rnd, cap, init, length):
    sim = Sim(cap)
    alpha = rnd.choice([[97, 98], [97, 98, 200, 0], [1, 200, 255], [97, 98, 99, 100, 101]])
    lines = [new(cap, init)]

    def chars(n):
        return [rnd.choice(alpha) for _ in range(n)]

    def some_len(k):
        room = cap - len(sim.s[k])
        r = rnd.random()
        if r < 0.25:
            return rnd.randint(0, 3)
        if r < 0.6:
            return max(0, room + rnd.choice([-1, 0, 0, 1]))
        if r < 0.7:
            return cap
        return rnd.randint(0, min(cap + 1, 40))

    def posn(n):
        return rnd.choice([0, n, max(n - 1, 0), rnd.randint(0, n)])

    def cnt(n):
        return rnd.choice([0, 1, n, rnd.randint(0, n + 1), "npos", n + 1])

    def take(xs, c):
        return list(xs) if c == "npos" else xs[:c]

    def argsel(k, fam, ln):
        """(selection text, denoted characters) — always a defined argument"""
        o = sim.s[1 - k]
        ovs = {"assign": ["ptrn", "cstr", "range", "view", "viewsub", "str", "strsub"],
               "append": ["ptrn", "cstr", "range", "view", "viewsub", "str", "strsub"],
               "insert": ["ptrn", "cstr", "view", "viewsub", "str", "strsubv"],
               "pluseq": ["cstr", "view", "str", "ch"], "opassign": ["cstr", "view", "str", "ch"]}[fam]
        ov = rnd.choice(ovs)
        xs = chars(ln)
        lit = "s=%s" % L(xs)
        if ov == "ptrn":
            m = rnd.choice([len(xs), len(xs), rnd.randint(0, len(xs))])
            return "ov=ptrn %s n=%d" % (lit, m), xs[:m]
        if ov == "cstr":
            return "ov=cstr " + lit, (xs[:xs.index(0)] if 0 in xs else xs)
        if ov in ("view", "range"):
            return "ov=%s %s" % (ov, lit), xs
        if ov == "ch":
            c = rnd.choice(alpha)
            return "ov=ch ch=%d" % c, [c]
        if ov == "viewsub":
            p2 = posn(len(xs))
            if rnd.random() < 0.2:
                return "ov=viewsub %s pos2=%d" % (lit, p2), xs[p2:]
            c2 = cnt(len(xs) - p2)
            return "ov=viewsub %s pos2=%d count2=%s" % (lit, p2, c2), take(xs[p2:], c2)
        if ov == "str":
            return "ov=str", list(o)
        p2 = posn(len(o))
        if rnd.random() < 0.2:
            return "ov=%s pos2=%d" % (ov, p2), o[p2:]
        c2 = cnt(len(o) - p2)
        return "ov=%s pos2=%d count2=%s" % (ov, p2, c2), take(o[p2:], c2)

    for _ in range(length):
        k = 0 if rnd.random() < 0.75 else 1
        s = sim.s[k]
        n = len(s)
        room = cap - n
        r = rnd.random()
        if r < 0.10:
            fam = rnd.choice(["assign", "assign", "opassign"])
            if fam == "assign" and rnd.random() < 0.2:
                c = rnd.choice([0, cap, rnd.randint(0, cap)])
                lines.append("str.assign obj=%d ov=fill count=%d ch=%d" % (k, c, alpha[0]))
                sim.s[k] = [alpha[0]] * c
            else:
                sel, d = argsel(k, fam, min(some_len(k), cap))
                if len(d) <= cap:
                    lines.append("str.%s obj=%d %s" % (fam, k, sel))
                    sim.s[k] = list(d)
        elif r < 0.30:
            fam = rnd.choice(["append", "append", "pluseq"])
            if fam == "append" and rnd.random() < 0.2:
                c = rnd.choice([some_len(k), room, "npos"])
                ch = rnd.choice(alpha)
                lines.append("str.append obj=%d ov=fill count=%s ch=%d" % (k, c, ch))
                sim.s[k] = s + [ch] * (room if c == "npos" else min(c, room))
            else:
                sel, d = argsel(k, fam, some_len(k))
                lines.append("str.%s obj=%d %s" % (fam, k, sel))
                sim.s[k] = s + d[:room]
        elif r < 0.42:
            idx = posn(n)
            if rnd.random() < 0.2:
                c = rnd.choice([rnd.randint(0, 4), min(max(0, room + rnd.choice([-1, 0, 1])), 40)])
                ch = rnd.choice(alpha)
                lines.append("str.insert obj=%d idx=%d ov=fill count=%d ch=%d" % (k, idx, c, ch))
                d = [ch] * min(c, room)
            else:
                sel, d = argsel(k, "insert", some_len(k))
                lines.append("str.insert obj=%d idx=%d %s" % (k, idx, sel))
                d = d[:room]
            sim.s[k] = s[:idx] + d + s[idx:]
        elif r < 0.52:
            v = rnd.random()
            if v < 0.4:
                idx = posn(n)
                c = cnt(n - idx)
                lines.append("str.erase obj=%d ov=idx idx=%d count=%s" % (k, idx, c))
                e = n - idx if c == "npos" else min(c, n - idx)
                sim.s[k] = s[:idx] + s[idx + e:]
            elif v < 0.65 and n > 0:
                p = rnd.randint(0, n - 1)
                lines.append("str.erase obj=%d ov=it pos=%d" % (k, p))
                sim.s[k] = s[:p] + s[p + 1:]
            elif v < 0.9:
                f = rnd.randint(0, n)
                la = rnd.choice([n, f, rnd.randint(f, n)])
                lines.append("str.erase obj=%d ov=range first=%d last=%d" % (k, f, la))
                sim.s[k] = s[:f] + s[la:]
            else:
                c = rnd.choice(alpha)
                lines.append("str.erase_value obj=%d ch=%d" % (k, c))
                sim.s[k] = [u for u in s if u != c]
        elif r < 0.62:
            v = rnd.random()
            if v < 0.35 and room > 0:
                c = rnd.choice(alpha)
                lines.append("str.push_back obj=%d ch=%d" % (k, c))
                sim.s[k] = s + [c]
            elif v < 0.55 and n > 0:
                lines.append("str.pop_back obj=%d" % k)
                sim.s[k] = s[:-1]
            elif v < 0.62:
                lines.append("str.clear obj=%d" % k)
                sim.s[k] = []
            else:
                c = rnd.choice([0, n, max(n - 1, 0), n + 1, cap, cap + 1, rnd.randint(0, cap + 1), "npos"])
                ch = rnd.choice(alpha)
                with_ch = rnd.random() < 0.7
                lines.append("str.resize obj=%d count=%s" % (k, c) + (" ch=%d" % ch if with_ch else ""))
                c = cap if c == "npos" else min(c, cap)
                sim.s[k] = s[:c] if c <= n else s + [ch if with_ch else 0] * (c - n)
        elif r < 0.68:
            lines.append("str.swap obj=%d ov=%s" % (k, rnd.choice(["member", "free"])))
            sim.s[0], sim.s[1] = sim.s[1], sim.s[0]
        elif r < 0.71 and n >= 2:
            p = rnd.randint(0, n - 2)
            c = rnd.randint(0, n - p - 1)
            xs = [u if u else 7 for u in chars(c)]
            form = rnd.choice(["ptrn pos=%d count=%d s=%s n=%d" % (p, c, L(xs), c), "cstr pos=%d count=%d s=%s" % (p, c, L(xs)),
                               "itptrn first=%d last=%d s=%s n=%d" % (p, p + c, L(xs), c), "itcstr first=%d last=%d s=%s" % (p, p + c, L(xs))])
            lines.append("str.replace obj=%d ov=%s" % (k, form))
            sim.s[k] = s[:p] + xs + s[p + c:]
        elif r < 0.83:
            fam = rnd.choice(FAMS)
            if n and rnd.random() < 0.6:
                st = rnd.randint(0, n - 1)
                nd = s[st:st + rnd.randint(0, 4)]
            else:
                nd = chars(rnd.randint(0, 3))
            p = rnd.choice([0, n, max(n - 1, 0), n + 1, rnd.randint(0, n + 2), "npos"])
            ov = rnd.choice(["str", "cstr", "ch", "ptrn"])
            if ov == "str":
                lines.append("str.%s obj=%d ov=str pos=%s" % (fam, k, p))
            elif ov == "cstr":
                lines.append("str.%s obj=%d ov=cstr s=%s pos=%s" % (fam, k, L(nd), p))
            elif ov == "ch":
                c = nd[0] if nd else alpha[0]
                lines.append("str.%s obj=%d ov=ch ch=%d s=[%d] pos=%s" % (fam, k, c, c, p))
            else:
                lines.append("str.%s obj=%d ov=ptrn s=%s n=%d pos=%s" % (fam, k, L(nd), len(nd), p))
        elif r < 0.92:
            v = rnd.random()
            o = sim.s[1 - k]
            if v < 0.2:
                lines.append("str.compare obj=%d ov=%s" % (k, rnd.choice(["str", "cstr s=%s" % L(chars(rnd.randint(0, 3))), "view s=%s" % L(s[: rnd.randint(0, n)])])))
            elif v < 0.4:
                lines.append("str.compare obj=%d ov=%s pos=%d count=%s" % (k, rnd.choice(["str3", "cstr3 s=%s" % L(s[: rnd.randint(0, n)]), "view3 s=%s" % L(chars(2)),
                                                                                        "ptrn4 s=%s n=1" % L(chars(2))]), posn(n), cnt(n)))
            elif v < 0.6:
                lit = s[rnd.randint(0, n):] if n else chars(2)
                sel = rnd.choice(["str5", "view5 s=%s" % L(lit)])
                m = len(o) if sel == "str5" else len(lit)
                lines.append("str.compare obj=%d ov=%s pos=%d count=%s pos2=%d" % (k, sel, posn(n), cnt(n), posn(m)) + rnd.choice(["", " count2=%s" % cnt(m)]))
            else:
                fam = rnd.choice(["starts_with", "ends_with", "contains"])
                nd = rnd.choice([s[: rnd.randint(0, n)], s[rnd.randint(0, n):], chars(2)])
                if nd and rnd.random() < 0.3:
                    lines.append("str.%s obj=%d ov=ch ch=%d s=[%d]" % (fam, k, nd[0], nd[0]))
                else:
                    lines.append("str.%s obj=%d ov=%s s=%s" % (fam, k, rnd.choice(["view", "cstr"]), L(nd)))
        else:
            v = rnd.random()
            if v < 0.25:
                p = posn(n)
                lines.append("str.substr obj=%d pos=%d count=%s" % (k, p, cnt(n - p)))
            elif v < 0.45:
                p = posn(n)
                lines.append("str.copy obj=%d count=%s pos=%d" % (k, cnt(n - p), p))
            elif v < 0.6:
                lines.append("str.at obj=%d pos=%d" % (k, posn(n)))
            elif v < 0.75 and n > 0:
                lines.append(rnd.choice(["str.front", "str.back"]) + " obj=%d" % k)
            elif v < 0.9:
                lines.append(rnd.choice(["str.info", "str.c_str"]) + " obj=%d" % k)
            else:
                lines.append("str.state obj=%d" % k)
    lines += ["str.c_str obj=0", "str.c_str obj=1", "str.state obj=0"]
    return lines


def gen_str(g, rnd, thorough):
    for ci, cap in enumerate(CAPS):
        for init in INITS:
            fresh_history(g, cap, init, thorough)
        for si, n in enumerate(sizes_of(cap)):
            x = content(n)
            # the object is completely rewritten by the first assign: in the quick tier the initialisation alternates
            inits = INITS if thorough else (INITS[(ci + si) % 2],)
            for init in inits:
                access_history(g, cap, init, x)
                if thorough or n == cap or (ci + si) % 2:
                    search_history(g, cap, init, x, thorough)
                if thorough or n == cap or (n == cap - 1 and ci % 2):
                    compare_history(g, cap, init, x, thorough)
                mutator_histories(g, cap, init, x, thorough)
    per = 85 if thorough else 5
    for cap in CAPS:
        for init in INITS:
            for _ in range(per):
                g.add(random_history(rnd, cap, init, rnd.randint(5, 25)), "str/hist/c%d" % cap)


# ------------------------------------------------------------------------------------------------ sv.*

def sv_positions(n):
    """pos in {0, len-1, len, len+1, len+2, npos}"""
    return dedupe([0, max(n - 1, 0), n, n + 1, n + 2, "npos"])


def sv_counts(n, p):
    """count in {0, 1, len-pos, len-pos+1, npos}"""
    return dedupe([0, 1, n - p, n - p + 1, "npos"])


def sv_needles(h, thorough=True):
    if not thorough:
        return dedupe([[], [200], [0], list(h), h[-2:], h + [97]])
    return dedupe([[], [97], [200], [0], list(h), h[-1:], h[-2:], h + [97], [200, 97], h[:1] + [120]])


def gen_sv_box(g, hs, ct, hi, thorough, wide):
    sfx = "" if ct == "char" else " ct=%s" % ct
    tg = "" if ct == "char" else "/" + ct

    def fix(xs):
        return [hi if u == 200 else u for u in xs]

    for h0 in hs:
        h = fix(h0)
        n = len(h)
        needles = [fix(y) for y in sv_needles(h0, thorough)]
        for op in FAMS:
            for y in needles:
                for p in sv_positions(n):
                    g.add("sv.%s h=%s n=%s pos=%s%s" % (op, L(h), L(y), p, sfx), "sv/" + op + tg)
                    if p not in ((0, n, "npos") if wide else (n, "npos")):
                        continue
                    if len(y) == 1:
                        g.add("sv.%s h=%s n=%s pos=%s ov=ch%s" % (op, L(h), L(y), p, sfx), "sv/" + op + "/ch" + tg)
                    if 0 not in y:
                        g.add("sv.%s h=%s n=%s pos=%s ov=cstr%s" % (op, L(h), L(y), p, sfx), "sv/" + op + "/cstr" + tg)
                    g.add("sv.%s h=%s n=%s pos=%s ov=ptrn%s" % (op, L(h), L(y), p, sfx), "sv/" + op + "/ptrn" + tg)
        for y in needles:
            g.add("sv.compare a=%s b=%s%s" % (L(h), L(y), sfx), "sv/compare" + tg)
            g.add("sv.rel a=%s b=%s%s" % (L(h), L(y), sfx), "sv/rel" + tg)
            if 0 not in y:
                g.add("sv.compare a=%s b=%s ov=cstr%s" % (L(h), L(y), sfx), "sv/compare/cstr" + tg)
            for op in ("starts_with", "ends_with", "contains"):
                g.add("sv.%s h=%s n=%s%s" % (op, L(h), L(y), sfx), "sv/" + op + tg)
                if len(y) == 1:
                    g.add("sv.%s h=%s n=%s ov=ch%s" % (op, L(h), L(y), sfx), "sv/" + op + "/ch" + tg)
                if 0 not in y:
                    g.add("sv.%s h=%s n=%s ov=cstr%s" % (op, L(h), L(y), sfx), "sv/" + op + "/cstr" + tg)
        for p in dedupe([0, max(n - 1, 0), n]):
            for c in sv_counts(n, p):
                g.add("sv.substr h=%s pos=%s count=%s%s" % (L(h), p, c, sfx), "sv/substr" + tg)
                g.add("sv.copy h=%s pos=%s count=%s%s" % (L(h), p, c, sfx), "sv/copy" + tg)
                for y in (needles[:6] if thorough else needles[:4]):
                    ovs = ["", " ov=ptrn"] + ([" ov=cstr"] if 0 not in y else [])
                    for ov in (ovs if wide else ovs[:1]):
                        g.add("sv.compare a=%s pos1=%s count1=%s b=%s%s%s" % (L(h), p, c, L(y), ov, sfx), "sv/compare3" + tg)
                    if c in (0, "npos") and (wide or len(y) <= 1):
                        for p2 in dedupe([0, len(y)]):
                            for c2 in ((0, 1, "npos") if wide else (0, "npos")):
                                g.add("sv.compare a=%s pos1=%s count1=%s b=%s pos2=%s count2=%s%s" % (L(h), p, c, L(y), p2, c2, sfx), "sv/compare5" + tg)
        for k in dedupe([0, 1, max(n - 1, 0), n]):
            if k <= n:
                g.add("sv.remove_prefix h=%s n=%d%s" % (L(h), k, sfx), "sv/remove_prefix" + tg)
                g.add("sv.remove_suffix h=%s n=%d%s" % (L(h), k, sfx), "sv/remove_suffix" + tg)


def gen_sv(g, rnd, thorough):
    hs = [[], [97, 200], [97, 0, 200], [97, 98, 97, 98, 200]]
    if thorough:
        hs += [[97], [0], [200], [200, 200], [97, 97], [0, 0], [97, 97, 97], [200, 97, 200], [97, 98, 99, 97, 98, 99, 200, 0]]
    gen_sv_box(g, hs, "char", 200, thorough, thorough)
    small = [[], [200], [97, 200], [200, 0, 97]] if thorough else [[], [200, 0, 97]]
    gen_sv_box(g, small, "c8", 200, thorough, False)
    gen_sv_box(g, small, "c16", 0xFFF0, thorough, False)
    nrand = 6000 if thorough else 600
    for _ in range(nrand):
        ct, hi = rnd.choice([("char", 200), ("char", 200), ("c8", 200), ("c16", 0xFFF0)])
        sfx = "" if ct == "char" else " ct=%s" % ct
        alpha = rnd.choice([[97, 98], [97, 98, 99, 0], [1, hi, hi + 1]])
        hl = rnd.randint(0, 40)
        h = [rnd.choice(alpha) for _ in range(hl)]
        if rnd.random() < 0.6 and hl > 0:
            s = rnd.choice([rnd.randint(0, hl - 1), max(hl - 3, 0)])
            n = h[s:s + rnd.randint(0, 6)]
            if rnd.random() < 0.3 and n:
                n[-1] = rnd.choice(alpha)
        else:
            n = [rnd.choice(alpha) for _ in range(rnd.randint(0, 5))]
        p = rnd.choice([0, rnd.randint(0, hl + 2), "npos", hl, max(hl - 1, 0), hl + 1])
        op = rnd.choice(list(FAMS) + ["compare", "rel", "starts_with", "ends_with", "contains", "substr", "copy"])
        if op in FAMS:
            ovs = ["", " ov=ptrn"] + ([" ov=cstr"] if 0 not in n else []) + ([" ov=ch"] if len(n) == 1 else [])
            g.add("sv.%s h=%s n=%s pos=%s%s%s" % (op, L(h), L(n), p, rnd.choice(ovs), sfx), "sv/" + op + "/rand")
        elif op in ("compare", "rel"):
            b = list(h)
            if b and rnd.random() < 0.7:
                b[rnd.randrange(len(b))] = rnd.choice(alpha)
            if rnd.random() < 0.3:
                b = b[: rnd.randint(0, len(b))]
            if op == "compare" and rnd.random() < 0.5:
                p1 = rnd.randint(0, hl)
                c1 = rnd.choice([0, 1, hl - p1, hl - p1 + 1, "npos"])
                if rnd.random() < 0.5:
                    p2 = rnd.randint(0, len(b))
                    c2 = rnd.choice([0, 1, len(b) - p2, len(b) - p2 + 1, "npos"])
                    g.add("sv.compare a=%s pos1=%s count1=%s b=%s pos2=%s count2=%s%s" % (L(h), p1, c1, L(b), p2, c2, sfx), "sv/compare5/rand")
                else:
                    g.add("sv.compare a=%s pos1=%s count1=%s b=%s%s" % (L(h), p1, c1, L(b), sfx), "sv/compare3/rand")
            else:
                g.add("sv.%s a=%s b=%s%s" % (op, L(h), L(b), sfx), "sv/" + op + "/rand")
        elif op in ("substr", "copy"):
            p1 = rnd.randint(0, hl)
            c1 = rnd.choice([0, 1, hl - p1, hl - p1 + 1, "npos", rnd.randint(0, hl + 1)])
            g.add("sv.%s h=%s pos=%s count=%s%s" % (op, L(h), p1, c1, sfx), "sv/" + op + "/rand")
        else:
            g.add("sv.%s h=%s n=%s%s" % (op, L(h), L(n), sfx), "sv/" + op + "/rand")


# ------------------------------------------------------------------------------------------------ interface

def generate(tier, seed):
    rnd = random.Random(seed)
    thorough = tier == "thorough"
    g = Gen()
    gen_sv(g, rnd, thorough)
    gen_str(g, rnd, thorough)
    return g.cases, g.dist


def nontrivial(case, rows):
    if case.tag.startswith("sv/"):
        ln = case.lines[0]
        r = rows[0]
        if "h=[]" in ln or "a=[]" in ln:
            return False
        return r.spec not in ("npos", "0", "[]", "0:[]") or "n=[]" in ln
    # a history: reaches a non-empty string and executes something besides set-up lines and plain state queries
    nonempty = False
    real = False
    for ln, r in zip(case.lines[1:], rows[1:]):
        if r.spec in ("pre", "*", "skipped"):
            continue
        parts = r.spec.split(" ")
        if r.spec.startswith("clamp") or (len(parts) > 1 and ":[]:" not in parts[1]):
            nonempty = True
        if not ln.startswith(("str.state", "str.assign obj=0 ov=ptrn", "str.assign obj=1 ov=ptrn")):
            real = True
    return nonempty and real
