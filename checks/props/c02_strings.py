"""C02 part 'strings' — stub."""
from lib import Case


def generate(tier, seed):
    return [], {}


def nontrivial(case, rows):
    return False
