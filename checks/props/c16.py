"""C16 — cmath: exact functions equal libm for every float; approximating functions within tolerance (DESIGN §4 C16, §6).

Three instruments, all driven from `generate()` (the standard flow of check.py does the rest):

 1. `harness/c16_sweep.cpp` (C++ only, -O2, threads): etl vs glibc on 2^24 stratified (quick) / all 2^32 (thorough)
    binary32 patterns x 13 unary exact functions, ~1.4e7 / 2.6e8 binary64 patterns, and millions of pairs for the 7
    binary exact functions.  Every mismatch it prints becomes an ordinary case line below.
 2. vector lines (`uv`, `bv`, 64 inputs per line) through harness AND Lean driver: the four-sided comparison
    impl = model, spec = libm, impl = spec on 2^21 (quick) / 2^24 (thorough) binary32 patterns etc.  Lines with a
    disagreeing element are expanded into single-input case lines.
 3. single-input case lines: every special value of harness/c16_ctab.inc x every function on the run-time path
    (`u`, `b`) and on the constant-evaluated path (`cu`, `cb`: constexpr tables compiled into the harness);
    lerp / midpoint / fma against libstdc++ (`s`); approximating and complex functions against libm within the
    tolerances of harness/c16_tol.inc (`a`, `ca`, `c`) — observed only, never counted as proved.
"""
import os
import random
import re
import struct
import subprocess
import time

import lib
from lib import Case

PROP = "C16"
DRIVER = "drv-c16"
PROOF_MODULES = ["TetlProofs.C16.Props"]
HARNESS = "harness/c16.cpp"
SOURCES = ["include/etl/_cmath", "include/etl/_math/abs.hpp", "include/etl/_complex", "include/etl/_numeric/midpoint.hpp",
           "include/etl/_3rd_party/gcem/gcem_incl"]
SEARCH_CAP = 300000

UNARY = ["floor", "ceil", "trunc", "round", "rint", "lrint", "llrint", "fabs", "abs", "signbit", "isnan", "isinf", "isfinite"]
BINARY = ["copysign", "fmin", "fmax", "fdim", "fmod", "remainder", "nextafter"]
CT_SMALL_ONLY = {"lrint", "llrint"}     # the result must fit the integer type: larger values are not constant expressions
UNARY_APPROX = ["sqrt", "exp", "log", "log2", "log10", "log1p", "sin", "cos", "tan", "asin", "acos", "atan", "sinh", "cosh",
                "tanh", "asinh", "acosh", "atanh", "erf", "tgamma", "lgamma"]
BINARY_APPROX = ["pow", "atan2", "hypot", "beta"]
COMPLEX = ["abs", "arg", "norm", "conj", "polar", "sin", "cos", "tan", "sinh", "cosh", "tanh", "log", "log10"]
COMPLEX2 = ["add", "sub", "mul", "div"]

RULE = ("exact functions: C++ sweep etl-vs-glibc over 2^24 stratified binary32 patterns (every sign x exponent x boundary "
        "mantissas x seeded random; thorough: all 2^32) and ~1.4e7 (2.6e8) binary64 patterns for the 13 unary functions, "
        "boundary grid^2 + 3e6 (6e7) seeded pairs per format for the 7 binary functions; four-sided comparison "
        "(impl=model, spec=libm, impl=spec) through the Lean driver on 2^20 (2^24) binary32 and 2^18 (2^22) binary64 "
        "patterns, 2^15 (2^19) pairs per binary function and format; every special value of c16_ctab.inc x every function on "
        "the run-time and on the constant-evaluated path (constexpr tables).  A case is non-trivial when the input is not "
        "already a fixed point of the function (result bits != input bits) or is a NaN/inf/zero/subnormal special case; "
        "distinct = distinct case text.  Approximating/complex functions: ulp distance to glibc on seeded samples of the "
        "domain (observed only).")
ASSUMPTIONS = ["glibc 2.36 libm / libstdc++ 12 on x86-64 in the default rounding mode is the reference (R2 validates the Lean spec against it on every run)",
               "NaN results are compared as `nan` (sign and payload of a NaN result are not compared)",
               "signaling NaN arguments of fmin/fmax and the sign of fmin/fmax(+0,-0) are unspecified by C (C17 F.2.1, 7.12.12) and masked",
               "lrint/llrint of NaN, infinities and out-of-range values is unspecified and masked",
               "the sign of a zero result of remainder(x, y) with x != 0 is not compared (glibc 2.36 deviates from IEC 60559 for some subnormal y)",
               "compiler builtins (__builtin_floorf, ...) are assumed to implement the C function they name (DESIGN §3); observed on every explored input"]
TRUSTED = ["hand model Tetl/C16/Model.lean (dispatch + fallbacks) and, for the constant-evaluated gcem floor/ceil/trunc/round and rint/lrint "
           "fallbacks, Tetl/C13/Model.lean (imported: one model of that code for C13 and C16), tied to the source by the correspondence run (R1) on every run",
           "bit-level spec Tetl/C16/Spec.lean validated against glibc (R2) on every run",
           "g++ constant evaluator for the constexpr tables"]

# no Lean model possible (DESIGN §6): compared with glibc within a measured tolerance, reported as observed only
UNPROVED_OBSERVED = (["%s (run time: ulps vs glibc, tolerance in harness/c16_tol.inc)" % f for f in UNARY_APPROX + BINARY_APPROX]
                     + ["%s (constant evaluation = gcem series, small table)" % f for f in UNARY_APPROX]
                     + ["complex %s (vs std::complex, tolerance relative to the modulus)" % f for f in COMPLEX + COMPLEX2]
                     + ["lerp, midpoint<float/double>, fma (bit-identical to libstdc++/glibc on special-value grid + seeded random)"])
# members with a Lean model/spec compared on every run, but no theorem
CORRESPONDENCE_ONLY = ["lrint, llrint (spec = intMag .halfEven with range check; the theorems are about rint/intMag, the integer conversion itself has none)",
                       "fdim (spec: correctly rounded x-y via rne; no theorem about rne)",
                       "fmod, remainder (spec: mag x % mag y re-encoded by ofMag; no theorem that ofMag decodes back)",
                       "rint_fallback / lrint_fallback on the constant-evaluated path (model = Tetl.C13.Model.rintFallback / lrintFallback, the one model of "
                       "that code; value by correspondence, totality proved by C13: Tetl.C13.Props.rintFallback_total)",
                       "fmod, remainder on the constant-evaluated path (gcem x - trunc(x/y)*y: not modelled, known finding F-C16-gcem-fmod-constexpr)"]

TOLERANCES = "see harness/c16_tol.inc; measured maxima are written to evidence input_distribution by thorough runs"

# ------------------------------------------------------------------ tables shared with the harness

def _ctab():
    inc = open(os.path.join(lib.VERIF, "harness", "c16_ctab.inc")).read()

    def pats(tag):
        return [int(x, 16) for x in re.findall(r"^" + tag + r"\((0x[0-9A-Fa-f]+)\)", inc, flags=re.M)]

    def both(l, w):
        return [v for x in l for v in (x, x | (1 << (w - 1)))]
    return {32: (both(pats("CT32"), 32), both(pats("CB32"), 32)), 64: (both(pats("CT64"), 64), both(pats("CB64"), 64))}


CTAB = _ctab()
FMT = {32: (8, 23), 64: (11, 52)}


def sg(x, w):
    """bit pattern -> the integer that travels in a case line"""
    return x - (1 << 64) if (w == 64 and x >= 1 << 63) else x


def f2b(v, w):
    return struct.unpack("<I", struct.pack("<f", v))[0] if w == 32 else struct.unpack("<Q", struct.pack("<d", v))[0]


def b2f(b, w):
    return struct.unpack("<f", struct.pack("<I", b))[0] if w == 32 else struct.unpack("<d", struct.pack("<Q", b))[0]


def fields(b, w):
    e, m = FMT[w]
    return (b >> (e + m)) & 1, (b >> m) & ((1 << e) - 1), b & ((1 << m) - 1)


def boundary_mantissas(m):
    top = (1 << m) - 1
    v = set()
    for k in range(12):
        v.add(k)
        v.add(top - k)
    for k in range(m):
        p = 1 << k
        v.update([p, p - 1, (p + 1) & top, top ^ p, (top << k) & top, ((top << k) & top) | (p >> 1)])
    return sorted(v)


def stratified(w, per, rnd):
    """every sign x exponent: boundary mantissas + seeded random, `per` patterns each"""
    e, m = FMT[w]
    bm = boundary_mantissas(m)
    out = []
    for se in range(1 << (e + 1)):
        base = se << m
        take = bm if per >= len(bm) else rnd.sample(bm, per)
        out.extend(base | x for x in take)
        for _ in range(per - len(take)):
            out.append(base | rnd.getrandbits(m))
    return out


def grid(w):
    e, m = FMT[w]
    bias = (1 << (e - 1)) - 1
    top = (1 << m) - 1
    pos = []
    for ex in [0, 1, bias - m, bias - 1, bias, bias + 1, bias + m - 1, bias + m, bias + 62, bias + 63, (1 << e) - 2]:
        for mm in [0, 1, top, 1 << (m - 1), (1 << (m - 1)) + 1, 3 << (m - 2)]:
            pos.append((ex << m) | mm)
    pos += [((1 << e) - 1) << m, (((1 << e) - 1) << m) | (1 << (m - 1)), (((1 << e) - 1) << m) | 1]
    return [v for p in pos for v in (p, p | (1 << (e + m)))]


# ------------------------------------------------------------------ stage 1: C++ sweep

def run_sweep(tier, seed, dist):
    os.makedirs(lib.BUILD, exist_ok=True)
    exe = os.path.join(lib.BUILD, "c16_sweep")
    cmd = [lib.CXX, "-std=c++20", "-O2", "-pthread", "-I", os.path.join(lib.REPO, "include"),
           os.path.join(lib.VERIF, "harness", "c16_sweep.cpp"), "-o", exe]
    rc, o, e = lib.sh(cmd, timeout=600)
    if rc != 0:
        raise lib.MachineryError("sweep does not compile against %s:\n%s" % (lib.REPO, (o + e)[-1200:]))
    t0 = time.time()
    rc, o, e = lib.sh([exe, tier, str(seed)], timeout=3000)
    if rc != 0:
        raise lib.MachineryError("sweep failed: " + (o + e)[-400:])
    lines = []
    for ln in o.splitlines():
        if ln.startswith("STATS "):
            for kv in ln.split()[1:]:
                k, _, v = kv.partition("=")
                dist["sweep/" + k] = int(v)
        elif ln.strip():
            lines.append(ln.strip())
    dist["sweep/wall_s"] = round(time.time() - t0, 1)
    return sorted(set(lines))


# ------------------------------------------------------------------ stage 2: vector lines through all four sides

def _split(s):
    return [col.split(",") for col in s.split(";")]


def vector_stage(tier, seed, dist):
    rnd = random.Random(seed * 7919 + 17)
    thorough = tier == "thorough"
    V = 64
    cases = []
    for w, per in ((32, 32768 if thorough else 2048), (64, 1024 if thorough else 64)):
        ps = stratified(w, per, rnd)
        rnd.shuffle(ps)
        dist["lean/unary%d_patterns" % w] = len(ps)
        for i in range(0, len(ps), V):
            cases.append(Case("uv t=%d xs=[%s]" % (w, ",".join(str(sg(x, w)) for x in ps[i:i + V])), "uv"))
    npairs = (1 << 19) if thorough else (1 << 15)
    for w in (32, 64):
        e, m = FMT[w]
        g = grid(w)
        for f in BINARY:
            xs, ys = [], []
            for _ in range(npairs):
                x = rnd.getrandbits(w)
                y = rnd.getrandbits(w)
                c = rnd.randrange(4)
                if c == 1:      # nearby exponents: long division in fmod/remainder, cancellation in fdim
                    ex = max(0, ((x >> m) & ((1 << e) - 1)) - rnd.randrange(2 * m))
                    y = (y & ~(((1 << e) - 1) << m)) | (ex << m)
                elif c == 2:
                    y = rnd.choice(g)
                elif c == 3:
                    x = rnd.choice(g)
                xs.append(x)
                ys.append(y)
            dist["lean/%s%d_pairs" % (f, w)] = npairs
            for i in range(0, npairs, V):
                cases.append(Case("bv t=%d f=%s xs=[%s] ys=[%s]" % (w, f, ",".join(str(sg(x, w)) for x in xs[i:i + V]),
                                                                   ",".join(str(sg(y, w)) for y in ys[i:i + V])), "bv"))
    ctx = lib.Ctx(PROP, tier, seed)
    ctx.run_id += "v"
    exe = os.path.join(lib.BUILD, "c16_harness")
    t0 = time.time()
    singles = set()
    nelem = 0
    BATCH = 16384                      # bounded memory: a vector line carries ~30 kB of results
    for b0 in range(0, len(cases), BATCH):
        batch = cases[b0:b0 + BATCH]
        results = lib.run_batch(ctx, batch, exe, DRIVER)
        for c, rows in zip(batch, results):
            r = rows[0]
            if "bad-op" in (r.impl, r.model):
                raise lib.MachineryError("bad-op on vector line: %s" % c.lines[0][:120])
            line = c.lines[0]
            unary = line.startswith("uv")
            nelem += 64 * (len(UNARY) if unary else 1)
            if r.impl == r.std == r.model == r.spec:
                continue
            toks = dict(t.split("=", 1) for t in line.split()[1:])
            w = int(toks["t"])
            xs = toks["xs"][1:-1].split(",")
            if unary:
                cols = [v.split(";") for v in (r.impl, r.std, r.model, r.spec)]
                for fi, f in enumerate(UNARY):
                    ci, cs, cm, cp = (cols[q][fi] for q in range(4))
                    if ci == cs == cm == cp:
                        continue
                    ei, es, em, ep = ci.split(","), cs.split(","), cm.split(","), cp.split(",")
                    for k, x in enumerate(xs):
                        i_, s_, m_, p_ = ei[k], es[k], em[k], ep[k]
                        if not (lib.eq(p_, s_) and lib.eq(i_, p_) and lib.eq(i_, m_)):
                            singles.add("u t=%d f=%s x=%s" % (w, f, x))
            else:
                ys = toks["ys"][1:-1].split(",")
                ei, es, em, ep = (v.split(",") for v in (r.impl, r.std, r.model, r.spec))
                for k, (x, y) in enumerate(zip(xs, ys)):
                    i_, s_, m_, p_ = ei[k], es[k], em[k], ep[k]
                    if not (lib.eq(p_, s_) and lib.eq(i_, p_) and lib.eq(i_, m_)):
                        singles.add("b t=%d f=%s x=%s y=%s" % (w, toks["f"], x, y))
        del results
    dist["lean/vector_wall_s"] = round(time.time() - t0, 1)
    dist["lean/vector_lines"] = len(cases)
    dist["lean/vector_evaluations"] = nelem
    dist["lean/vector_disagreements"] = len(singles)
    return sorted(singles)


# ------------------------------------------------------------------ stage 3: single-input case lines

def special_cases(tier, seed, dist):
    rnd = random.Random(seed * 104729 + 5)
    thorough = tier == "thorough"
    cases = []

    def add(line, tag):
        cases.append(Case(line, tag))
        dist[tag] = dist.get(tag, 0) + 1

    for w in (32, 64):
        small, big = CTAB[w]
        for f in UNARY:
            for x in small + big:
                add("u t=%d f=%s x=%d" % (w, f, sg(x, w)), "u/" + f)
            for x in small + ([] if f in CT_SMALL_ONLY else big):
                add("cu t=%d f=%s x=%d" % (w, f, sg(x, w)), "cu/" + f)
        for f in BINARY:
            for x in small:
                for y in small:
                    add("b t=%d f=%s x=%d y=%d" % (w, f, sg(x, w), sg(y, w)), "b/" + f)
                    add("cb t=%d f=%s x=%d y=%d" % (w, f, sg(x, w), sg(y, w)), "cb/" + f)
        # lerp / midpoint / fma: special-value grid + random (exact against libstdc++ / glibc)
        vals = [v for v in small if rnd.random() < 0.5] + big
        g = grid(w)
        n3 = 6000 if thorough else 1500
        for _ in range(n3):
            pick = lambda: rnd.choice(vals) if rnd.random() < 0.4 else (rnd.choice(g) if rnd.random() < 0.3 else f2b(rnd.uniform(-8, 8), w))
            x, y, z = pick(), pick(), pick()
            add("s t=%d f=midpoint x=%d y=%d" % (w, sg(x, w), sg(y, w)), "s/midpoint")
            add("s t=%d f=fma x=%d y=%d z=%d" % (w, sg(x, w), sg(y, w), sg(z, w)), "s/fma")
            # lerp: t in and around [0,1] and the exact special cases t=0, t=1, a==b
            t = rnd.choice([f2b(0.0, w), f2b(1.0, w), f2b(0.5, w), f2b(rnd.uniform(-1, 2), w), z])
            if rnd.random() < 0.2:
                y = x
            add("s t=%d f=lerp x=%d y=%d z=%d" % (w, sg(x, w), sg(y, w), sg(t, w)), "s/lerp")
    return cases


APPROX_SPECIALS = [0.0, -0.0, 1.0, -1.0, 0.5, -0.5, 2.0, 10.0, float("inf"), float("-inf"), float("nan"), 1e-30, -1e-30, 1e30, 3.0, 171.0]
# the domain on which gcem's series are meant to be used (outside: libm builtin paths are still compared everywhere)
GCEM_RT = {"log1p": (-0.999, 1e6), "erf": (-6.0, 6.0), "tgamma": (0.05, 30.0), "lgamma": (0.05, 1e3),
           "sinh": (-50.0, 50.0), "cosh": (-50.0, 50.0), "atanh": (-0.999, 0.999)}
CA_IN = [0.0, 0.1, 0.25, 0.5, 0.75, 1.0, 1.5, 2.0, 3.0, 10.0, -0.1, -0.5, -1.0, -2.0, 0.001, 7.25, 100.0]


def approx_cases(tier, seed, dist):
    rnd = random.Random(seed * 15485863 + 11)
    thorough = tier == "thorough"
    n = 2000 if thorough else 250
    cases = []

    def add(line, tag):
        cases.append(Case(line, tag))
        dist[tag] = dist.get(tag, 0) + 1

    def sample(w, f):
        if f in GCEM_RT:
            lo, hi = GCEM_RT[f]
            c = rnd.random()
            if c < 0.5:
                return f2b(rnd.uniform(max(lo, -10), min(hi, 10)), w)
            if lo >= 0:         # log-uniform over the positive part of the domain
                import math
                a = math.log(max(lo, 1e-30 if w == 32 else 1e-300))
                b = math.log(min(hi, 3e38 if w == 32 else 1e300))
                return f2b(math.exp(rnd.uniform(a, b)), w)
            return f2b(rnd.uniform(lo, hi), w)
        c = rnd.random()
        if c < 0.4:
            return rnd.getrandbits(w)
        if c < 0.8:
            return f2b(rnd.uniform(-10, 10), w)
        return f2b(rnd.uniform(-1, 1), w)

    for w in (32, 64):
        for f in UNARY_APPROX:
            for v in APPROX_SPECIALS:
                if f in ("tgamma", "lgamma") and v < 0:
                    continue          # gcem's gamma recursion does not terminate for large negative arguments: known finding
                add("a t=%d f=%s x=%d" % (w, f, sg(f2b(v, w), w)), "a/" + f)
            for _ in range(n):
                add("a t=%d f=%s x=%d" % (w, f, sg(sample(w, f), w)), "a/" + f)
            for v in CA_IN:
                add("ca t=%d f=%s x=%d" % (w, f, sg(f2b(v, w), w)), "ca/" + f)
        for f in BINARY_APPROX:
            for _ in range(n):
                if f == "pow":
                    x = f2b(rnd.uniform(0, 20), w) if rnd.random() < 0.7 else rnd.getrandbits(w)
                    y = f2b(rnd.uniform(-8, 8), w) if rnd.random() < 0.7 else f2b(float(rnd.randint(-5, 5)), w)
                elif f == "beta":
                    x, y = f2b(rnd.uniform(0.1, 10), w), f2b(rnd.uniform(0.1, 10), w)
                elif f == "hypot":
                    x, y = f2b(rnd.uniform(-1e3, 1e3), w), f2b(rnd.uniform(-1e3, 1e3), w)
                else:
                    x, y = f2b(rnd.uniform(-10, 10), w), f2b(rnd.uniform(-10, 10), w)
                add("a t=%d f=%s x=%d y=%d" % (w, f, sg(x, w), sg(y, w)), "a/" + f)
        # hypot: documented special cases (inf wins over NaN, NaN otherwise)
        sp = [f2b(v, w) for v in (float("inf"), float("-inf"), float("nan"), 0.0, -0.0, 3.0, -4.0)]
        for x in sp:
            for y in sp:
                add("a t=%d f=hypot x=%d y=%d" % (w, sg(x, w), sg(y, w)), "a/hypot-special")
                if all(b2f(v, w) == b2f(v, w) and abs(b2f(v, w)) != float("inf") for v in (x, y)):
                    # libstdc++ 12's three-argument hypot returns NaN for infinite arguments (its own defect): finite only
                    add("a t=%d f=hypot3 x=%d y=%d z=%d" % (w, sg(x, w), sg(y, w), sg(sp[5], w)), "a/hypot-special")
        for v in (0.0, -0.0):
            for u in (0.0, -0.0, 1.0, -1.0):
                add("a t=%d f=atan2 x=%d y=%d" % (w, sg(f2b(v, w), w), sg(f2b(u, w), w)), "a/atan2-special")
        # complex
        nc = 600 if thorough else 80
        for f in COMPLEX:
            for _ in range(nc):
                if f == "polar":
                    re_, im_ = rnd.uniform(0, 10), rnd.uniform(-6.3, 6.3)
                elif f in ("log", "log10", "arg", "abs", "norm", "conj"):
                    re_, im_ = rnd.uniform(-100, 100), rnd.uniform(-100, 100)
                else:
                    re_, im_ = rnd.uniform(-3, 3), rnd.uniform(-3, 3)
                add("c t=%d f=%s re=%d im=%d" % (w, f, sg(f2b(re_, w), w), sg(f2b(im_, w), w)), "c/" + f)
        for f in COMPLEX2:
            for _ in range(nc):
                a, b, c, d = (rnd.uniform(-100, 100) for _ in range(4))
                add("c t=%d f=%s re=%d im=%d re2=%d im2=%d" % (w, f, sg(f2b(a, w), w), sg(f2b(b, w), w), sg(f2b(c, w), w),
                                                             sg(f2b(d, w), w)), "c/" + f)
    return cases


def generate(tier, seed):
    dist = {}
    cases = []
    for ln in run_sweep(tier, seed, dist):
        cases.append(Case(ln, "sweep/" + ln.split()[2][2:]))
    for ln in vector_stage(tier, seed, dist):
        cases.append(Case(ln, "vector/" + ln.split()[2][2:]))
    cases += special_cases(tier, seed, dist)
    cases += approx_cases(tier, seed, dist)
    # keep the first occurrence of a line (a sweep mismatch may also be a table value)
    seen, out = set(), []
    for c in cases:
        t = c.text()
        if t not in seen:
            seen.add(t)
            out.append(c)
    return out, False, dist


# ------------------------------------------------------------------ classification

def _args(line):
    toks = line.split()
    d = dict(t.split("=", 1) for t in toks[1:])
    w = int(d.get("t", "32"))
    return toks[0], d, w


def nontrivial(case, rows):
    op, d, w = _args(case.lines[0])
    if op in ("a", "ca", "c", "s"):
        return rows[0].impl == "ok" or rows[0].impl not in ("*",)
    x = int(d["x"]) % (1 << w)
    s, e, m = fields(x, w)
    special = e == 0 or e == (1 << FMT[w][0]) - 1
    return special or rows[0].spec != str(x)


def classify(case, k, row):
    """finding id for a failing (impl != spec) case; the predicates are the hypotheses of the *_partial theorems"""
    op, d, w = _args(case.lines[k])
    f = d.get("f", "")
    if op == "cb" and f in ("fmod", "remainder"):
        return "F-C16-gcem-fmod-constexpr"
    if op == "a" and f in GCEM_RT and "x" in d:
        v = b2f(int(d["x"]) % (1 << w), w)
        lo, hi = GCEM_RT[f]
        if v == v and not (lo <= v <= hi):                      # outside the working range of gcem's series
            return "F-C16-gcem-outside-domain"
    if op == "a" and f == "atan2":
        v = b2f(int(d["x"]) % (1 << w), w)
        if v == 0.0:                                            # a zero first argument: the sign of zero is ignored
            return "F-C16-gcem-outside-domain"
    if op == "ca" and f == "tanh":
        v = b2f(int(d["x"]) % (1 << w), w)
        if abs(v) >= 50.0:
            return "F-C16-gcem-outside-domain"
    return None


def group_of(case):
    return case.tag


CLAIMED = True
TECHNIQUE = ("Lean 4 proof of a bit-level IEEE-754 specification (all formats) + three-way correspondence "
             "etl = Lean spec = glibc on up to all 2^32 float patterns; approximating functions: differential only")
LEVEL_TEXT = ("The exact cmath functions (floor, ceil, trunc, round, rint, lrint/llrint, fabs/abs, copysign, signbit, fmin, fmax, fdim, "
              "fmod, remainder, nextafter, isnan/isinf/isfinite) are specified in Lean 4 as integer arithmetic on bit patterns for an "
              "arbitrary (ebits, mbits) format. Theorems (no sorry, axioms propext/Classical.choice/Quot.sound) show for every "
              "pattern that the bit-level rounding functions return exactly the mathematically rounded integer (value = "
              "mag/2^K, compared by cross-multiplication), keep sign/NaN/infinity as C requires, that the classification predicates "
              "partition the patterns, that copysign/fabs/signbit act on the sign bit only, that nextafter moves to the adjacent "
              "pattern in value order, and that tetl's own algorithms (nextafter, fmin, fmax, signbit/copysign fallbacks, isfinite) "
              "equal that spec. The spec is tied to glibc and the model to tetl's current source on every run: a C++ sweep "
              "compares etl with libm on 2^24 stratified (thorough: all 2^32) binary32 patterns and >1e7 binary64 patterns, and "
              "2^20 (2^24) patterns go through the compiled Lean spec as well (impl = model, spec = libm, impl = spec), on the "
              "run-time path and, for a table of special values, on the constant-evaluated path.")
LEVEL_NOTE = ("Partial (DESIGN §6): sqrt, exp, log*, pow, trigonometric/hyperbolic functions and inverses, erf, gamma, beta, hypot, the "
              "complex functions, lerp, midpoint and fma have no Lean model; they are compared with glibc/libstdc++ within a measured "
              "tolerance and listed under coverage.unproved_observed. Run-time paths that call a compiler builtin are assumed to "
              "implement the C function (observed on every explored input). Members with a spec but no theorem: "
              "coverage.correspondence_only. Known findings: gcem's constant-evaluated fmod/remainder, gcem series outside their "
              "working range. The gcem rounding theorems need mbits <= 62 (integer part within long long): binary32/64, not long double.")
P = "Tetl.C16.Props."
THEOREMS = {
    "u": [P + n for n in ("floor_spec", "ceil_spec", "trunc_spec", "round_spec", "rint_spec", "rounding_special", "rnd_exact",
                          "intMag_trunc", "intMag_away", "intMag_halfAway", "intMag_halfEven", "classify_partition",
                          "fabs_spec", "isfinite_eq", "absImpl_eq", "absImpl_nan")],
    "cu": [P + n for n in ("signbitFallback_eq", "gcemFloor_eq", "gcemCeil_eq", "gcemTrunc_eq", "gcemRound_eq", "std_cv",
                           "absImpl_eq", "absImpl_nan")],
    "b": [P + n for n in ("copysign_spec", "fmin_model_eq", "fmax_model_eq", "fmin_spec", "fmax_spec", "fmin_nan",
                          "nextafter_model_eq", "nextafter_adjacent", "nextafter_special", "key_is_value_order", "mag_strict_mono")],
    "cb": [P + n for n in ("copysignFallback_eq", "nextafter_model_eq", "fmin_model_eq", "fmax_model_eq")],
}
THEOREMS["uv"] = THEOREMS["u"]
THEOREMS["bv"] = THEOREMS["b"]
