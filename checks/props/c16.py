"""C16 — cmath: exact functions equal libm for every float; approximating functions within tolerance (DESIGN §4 C16, §6).

Three instruments, all driven from `generate()` (the standard flow of check.py does the rest):

 1. `harness/c16_sweep.cpp` (C++ ONLY — the Lean spec and model do not see these inputs; -O2, threads): etl vs glibc on 2^24
    stratified (quick) / all 2^32 (thorough) binary32 patterns x 13 unary exact functions, ~1.4e7 / 2.6e8 binary64 patterns,
    and millions of pairs for the 7 binary exact functions.  Every mismatch it prints becomes an ordinary case line below.
    For the functions whose run-time path forwards to the compiler builtin that libstdc++'s std:: function resolves to as
    well (BUILTIN_FORWARDED below) this compares a call with the same builtin: it checks the DISPATCH (etl forwards to the
    right function and no wrapper code changes the value), not an independent implementation.
 2. vector lines (`uv`, `bv`, 64 inputs per line) through harness AND Lean driver: the four-sided comparison
    impl = model, spec = libm, impl = spec on 2^20 (quick: 512 sign-exponent classes x 2048) / 2^24 (thorough: x 32768)
    binary32 patterns, 2^18 / 2^22 binary64 patterns, 2^15 / 2^19 pairs per binary function and format.  This is all the Lean
    spec ever sees.  Lines with a disagreeing element are expanded into single-input case lines.
 3. single-input case lines: every special value of harness/c16_ctab.inc x every function on the run-time path
    (`u`, `b`) and on the constant-evaluated path (`cu`, `cb`: constexpr tables compiled into the harness);
    lerp / midpoint / fma against libstdc++ (`s`; `cs`: rows of a constexpr table); approximating and complex functions
    against libm within the tolerances of harness/c16_tol.inc (`a`, `ca`, `c`) — observed only, never counted as proved.

The sign bit of a NaN result is compared for fabs / abs / copysign (`nan+` / `nan-`) in all three instruments; the payload of
a NaN never.
"""
import os
import random
import re
import struct
import subprocess
import time

import lib
from lib import Case

PROP = "C16"
DRIVER = "drv-c16"
PROOF_MODULES = ["TetlProofs.C16.Props"]
HARNESS = "harness/c16.cpp"
# gcem recurses deeply in constant evaluation (sqrt of the largest finite value needs > 512 frames when a change sends the
# constant-evaluated sqrt back to gcem): with the default depth the harness would stop compiling instead of reporting the value
HARNESS_FLAGS = ["-fconstexpr-depth=8192"]
SOURCES = ["include/etl/_cmath", "include/etl/_math/abs.hpp", "include/etl/_complex", "include/etl/_numeric/midpoint.hpp",
           "include/etl/_3rd_party/gcem/gcem_incl"]
SEARCH_CAP = 300000

UNARY = ["floor", "ceil", "trunc", "round", "rint", "lrint", "llrint", "fabs", "abs", "signbit", "isnan", "isinf", "isfinite"]
BINARY = ["copysign", "fmin", "fmax", "fdim", "fmod", "remainder", "nextafter"]
CT_SMALL_ONLY = {"lrint", "llrint"}     # the result must fit the integer type: larger values are not constant expressions
UNARY_APPROX = ["sqrt", "exp", "log", "log2", "log10", "log1p", "sin", "cos", "tan", "asin", "acos", "atan", "sinh", "cosh",
                "tanh", "asinh", "acosh", "atanh", "erf", "tgamma", "lgamma"]
BINARY_APPROX = ["pow", "atan2", "hypot", "beta"]
COMPLEX = ["abs", "arg", "norm", "conj", "polar", "sin", "cos", "tan", "sinh", "cosh", "tanh", "log", "log10"]
COMPLEX2 = ["add", "sub", "mul", "div"]
# run-time path = the compiler builtin libstdc++ resolves to as well: the C++ comparison checks the dispatch only, and on
# `.rt` the Lean model of these functions IS the spec (R1 coincides with R3)
BUILTIN_FORWARDED = ["floor", "ceil", "trunc", "round", "rint", "lrint", "llrint", "signbit", "isnan", "isinf", "copysign", "fmod",
                     "remainder", "sqrt", "exp", "log", "log2", "log10", "log1p", "sin", "cos", "tan", "asin", "acos", "atan", "sinh",
                     "cosh", "tanh", "asinh", "acosh", "atanh", "erf", "tgamma", "lgamma", "pow", "atan2"]

# long double overloads without a builtin branch (include/etl/_cmath/*.hpp): gcem at run time
LD_GCEM = ["exp", "log", "log2", "log10", "sin", "cos", "tan", "asin", "acos", "atan", "tanh", "asinh", "acosh", "pow"]
LD_BUILTIN = ["sqrt", "log1p", "sinh", "cosh", "atanh", "erf", "tgamma", "lgamma", "atan2"]

RULE = ("exact functions: C++-only sweep etl-vs-glibc (no Lean side) over 2^24 stratified binary32 patterns (every sign x exponent x "
        "boundary mantissas x seeded random; thorough: all 2^32) and ~1.4e7 (2.6e8) binary64 patterns for the 13 unary functions, "
        "boundary grid^2 + 3e6 (6e7) seeded pairs per format for the 7 binary functions; four-sided comparison "
        "(impl=model, spec=libm, impl=spec) through the Lean driver on 2^20 (thorough 2^24) binary32 and 2^18 (2^22) binary64 "
        "patterns, 2^15 (2^19) pairs per binary function and format; every special value of c16_ctab.inc x every function on "
        "the run-time and on the constant-evaluated path (constexpr tables; every pair for fmod/remainder too).  The sign bit of a NaN "
        "result is compared for fabs/abs/copysign.  For functions whose run-time path is the compiler builtin (floor ... remainder, "
        "see BUILTIN_FORWARDED) the run-time comparison checks the dispatch, not an independent implementation.  A case is "
        "non-trivial when the input is not already a fixed point of the function (result bits != input bits) or is a "
        "NaN/inf/zero/subnormal special case; distinct = distinct case text.  Approximating/complex functions: ulp distance to "
        "glibc (relative bound; absolute bound only where libm's result is zero or subnormal) on seeded samples of the whole C "
        "domain at run time, fixed tables in constant evaluation; hypot / complex abs over exponent grid^2 + log-uniform "
        "magnitudes (observed only).")
ASSUMPTIONS = ["glibc 2.36 libm / libstdc++ 12 on x86-64 in the default rounding mode is the reference (R2 validates the Lean spec against it on every run)",
               "the payload of a NaN result is never compared; its sign bit is compared for fabs, abs and copysign (printed `nan+` / `nan-` by "
               "harness, sweep and driver: fabs clears, copysign copies the sign bit of a NaN too) and for no other function (C leaves the sign "
               "of a NaN produced by an arithmetic function unspecified)",
               "signaling NaN arguments of fmin/fmax and the sign of fmin/fmax(+0,-0) are unspecified by C (C17 F.2.1, 7.12.12) and masked",
               "lrint/llrint of NaN, infinities and out-of-range values is unspecified and masked",
               "the sign of a zero result of remainder(x, y) with x != 0 is not compared (glibc 2.36 deviates from IEC 60559 for some subnormal y)",
               "compiler builtins (__builtin_floorf, ...) are assumed to implement the C function they name (DESIGN §3); observed on every explored input"]
TRUSTED = ["hand model Tetl/C16/Model.lean (dispatch + fallbacks) and, for the constant-evaluated gcem floor/ceil/trunc/round and rint/lrint "
           "fallbacks, Tetl/C13/Model.lean (imported: one model of that code for C13 and C16), tied to the source by the correspondence run (R1) on every run",
           "bit-level spec Tetl/C16/Spec.lean validated against glibc (R2) on every run",
           "g++ constant evaluator for the constexpr tables, and its folding of the fmod/remainder/sqrt/fma/signbit builtins (exactness assumed as for "
           "the run-time builtins; observed on the tables)"]

# no Lean model possible (DESIGN §6): compared with glibc within a measured tolerance, reported as observed only
RT_BUILTIN_APPROX = [f for f in UNARY_APPROX + BINARY_APPROX if f in BUILTIN_FORWARDED]
UNPROVED_OBSERVED = (["%s (run time = libm builtin: bit-identical over the whole C domain, a check of the dispatch)" % f for f in RT_BUILTIN_APPROX]
                     + ["hypot, hypot3 (run time and constant evaluation: tetl's scaled formula, <= 4 ulps of glibc over exponent grid^2 + log-uniform magnitudes)",
                        "beta (run time = gcem: <= 512 ulps of libstdc++ on (0.1, 10)^2 only; other arguments not sampled)"]
                     + ["%s (constant evaluation = gcem series: table of 29 arguments, tolerance in harness/c16_tol.inc, classes of "
                        "F-C16-gcem-outside-domain excluded)" % f for f in UNARY_APPROX if f != "sqrt"]
                     + ["sqrt (constant evaluation = folded builtin: bit-identical on the table)",
                        "pow, atan2 (constant evaluation = gcem: tables of 11 / 13 pairs)"]
                     + ["complex %s (vs std::complex, tolerance relative to the modulus)" % f for f in COMPLEX + COMPLEX2]
                     + ["lerp, midpoint<float/double>, fma (bit-identical to libstdc++/glibc on special-value grid + seeded random; "
                        "constant evaluation: 13 rows each)",
                        "nearbyint, isnormal, fpclassify (named by the property / DESIGN): n/a, not provided by etl",
                        "long double overloads at run time (op `al`, binary64 inputs incl. half-integers): %s have a builtin branch (bit-identical); "
                        "%s run gcem (ulps of long double, tolerance tol_ld in c16_tol.inc)" % (", ".join(LD_BUILTIN), ", ".join(LD_GCEM)),
                        "long double overloads of the exact functions, integral and suffixed (f/l) overloads: not exercised"])
# members with a Lean model/spec compared on every run, but no theorem
CORRESPONDENCE_ONLY = ["lrint, llrint (spec = intMag .halfEven with range check; the theorems are about rint/intMag, the integer conversion itself has none)",
                       "fdim (spec: correctly rounded x-y via rne; no theorem about rne)",
                       "fmod, remainder (spec: mag x % mag y re-encoded by ofMag; no theorem that ofMag decodes back; the constant-evaluated "
                       "ladder is proved equal to this spec: fmodCt_eq, remainderCt_eq)",
                       "rint_fallback / lrint_fallback on the constant-evaluated path (model = Tetl.C13.Model.rintFallback / lrintFallback, the one model of "
                       "that code; value by correspondence, totality proved by C13: Tetl.C13.Props.rintFallback_total)",
                       "fmin, fmax, signbit (model = the same term as the spec: Lemmas.fmin_model_eq / fmax_model_eq / signbitFallback_eq are `rfl` "
                       "re-statements, not counted; signbit_fallback is dead code under GCC)"]

TOLERANCES = "see harness/c16_tol.inc (rule, measured maxima and how they were measured are quoted there per function)"

# ------------------------------------------------------------------ tables shared with the harness

def _ctab():
    inc = open(os.path.join(lib.VERIF, "harness", "c16_ctab.inc")).read()

    def pats(tag):
        return [int(x, 16) for x in re.findall(r"^" + tag + r"\((0x[0-9A-Fa-f]+)\)", inc, flags=re.M)]

    def both(l, w):
        return [v for x in l for v in (x, x | (1 << (w - 1)))]
    return {32: (both(pats("CT32"), 32), both(pats("CB32"), 32)), 64: (both(pats("CT64"), 64), both(pats("CB64"), 64))}


CTAB = _ctab()
FMT = {32: (8, 23), 64: (11, 52)}


def sg(x, w):
    """bit pattern -> the integer that travels in a case line"""
    return x - (1 << 64) if (w == 64 and x >= 1 << 63) else x


def f2b(v, w):
    return struct.unpack("<I", struct.pack("<f", v))[0] if w == 32 else struct.unpack("<Q", struct.pack("<d", v))[0]


def b2f(b, w):
    return struct.unpack("<f", struct.pack("<I", b))[0] if w == 32 else struct.unpack("<d", struct.pack("<Q", b))[0]


def fields(b, w):
    e, m = FMT[w]
    return (b >> (e + m)) & 1, (b >> m) & ((1 << e) - 1), b & ((1 << m) - 1)


def boundary_mantissas(m):
    top = (1 << m) - 1
    v = set()
    for k in range(12):
        v.add(k)
        v.add(top - k)
    for k in range(m):
        p = 1 << k
        v.update([p, p - 1, (p + 1) & top, top ^ p, (top << k) & top, ((top << k) & top) | (p >> 1)])
    return sorted(v)


def stratified(w, per, rnd):
    """every sign x exponent: boundary mantissas + seeded random, `per` patterns each"""
    e, m = FMT[w]
    bm = boundary_mantissas(m)
    out = []
    for se in range(1 << (e + 1)):
        base = se << m
        take = bm if per >= len(bm) else rnd.sample(bm, per)
        out.extend(base | x for x in take)
        for _ in range(per - len(take)):
            out.append(base | rnd.getrandbits(m))
    return out


def grid(w):
    e, m = FMT[w]
    bias = (1 << (e - 1)) - 1
    top = (1 << m) - 1
    pos = []
    for ex in [0, 1, bias - m, bias - 1, bias, bias + 1, bias + m - 1, bias + m, bias + 62, bias + 63, (1 << e) - 2]:
        for mm in [0, 1, top, 1 << (m - 1), (1 << (m - 1)) + 1, 3 << (m - 2)]:
            pos.append((ex << m) | mm)
    pos += [((1 << e) - 1) << m, (((1 << e) - 1) << m) | (1 << (m - 1)), (((1 << e) - 1) << m) | 1]
    return [v for p in pos for v in (p, p | (1 << (e + m)))]


# ------------------------------------------------------------------ stage 1: C++ sweep

def run_sweep(tier, seed, dist):
    os.makedirs(lib.BUILD, exist_ok=True)
    exe = os.path.join(lib.BUILD, "c16_sweep")
    cmd = [lib.CXX, "-std=c++20", "-O2", "-pthread", "-I", os.path.join(lib.REPO, "include"),
           os.path.join(lib.VERIF, "harness", "c16_sweep.cpp"), "-o", exe]
    rc, o, e = lib.sh(cmd, timeout=600)
    if rc != 0:
        raise lib.MachineryError("sweep does not compile against %s:\n%s" % (lib.REPO, (o + e)[-1200:]))
    t0 = time.time()
    rc, o, e = lib.sh([exe, tier, str(seed)], timeout=3000)
    if rc != 0:
        raise lib.MachineryError("sweep failed: " + (o + e)[-400:])
    lines = []
    for ln in o.splitlines():
        if ln.startswith("STATS "):
            for kv in ln.split()[1:]:
                k, _, v = kv.partition("=")
                dist["sweep/" + k] = int(v)
        elif ln.strip():
            lines.append(ln.strip())
    dist["sweep/wall_s"] = round(time.time() - t0, 1)
    return sorted(set(lines))


# ------------------------------------------------------------------ stage 2: vector lines through all four sides

def _split(s):
    return [col.split(",") for col in s.split(";")]


def vector_stage(tier, seed, dist):
    rnd = random.Random(seed * 7919 + 17)
    thorough = tier == "thorough"
    V = 64
    cases = []
    for w, per in ((32, 32768 if thorough else 2048), (64, 1024 if thorough else 64)):
        ps = stratified(w, per, rnd)
        rnd.shuffle(ps)
        dist["lean/unary%d_patterns" % w] = len(ps)
        for i in range(0, len(ps), V):
            cases.append(Case("uv t=%d xs=[%s]" % (w, ",".join(str(sg(x, w)) for x in ps[i:i + V])), "uv"))
    npairs = (1 << 19) if thorough else (1 << 15)
    for w in (32, 64):
        e, m = FMT[w]
        g = grid(w)
        for f in BINARY:
            xs, ys = [], []
            for _ in range(npairs):
                x = rnd.getrandbits(w)
                y = rnd.getrandbits(w)
                c = rnd.randrange(4)
                if c == 1:      # nearby exponents: long division in fmod/remainder, cancellation in fdim
                    ex = max(0, ((x >> m) & ((1 << e) - 1)) - rnd.randrange(2 * m))
                    y = (y & ~(((1 << e) - 1) << m)) | (ex << m)
                elif c == 2:
                    y = rnd.choice(g)
                elif c == 3:
                    x = rnd.choice(g)
                xs.append(x)
                ys.append(y)
            dist["lean/%s%d_pairs" % (f, w)] = npairs
            for i in range(0, npairs, V):
                cases.append(Case("bv t=%d f=%s xs=[%s] ys=[%s]" % (w, f, ",".join(str(sg(x, w)) for x in xs[i:i + V]),
                                                                   ",".join(str(sg(y, w)) for y in ys[i:i + V])), "bv"))
    ctx = lib.Ctx(PROP, tier, seed)
    ctx.run_id += "v"
    exe = os.path.join(lib.BUILD, "c16_harness")
    t0 = time.time()
    singles = set()
    nelem = 0
    BATCH = 16384                      # bounded memory: a vector line carries ~30 kB of results
    for b0 in range(0, len(cases), BATCH):
        batch = cases[b0:b0 + BATCH]
        results = lib.run_batch(ctx, batch, exe, DRIVER)
        for c, rows in zip(batch, results):
            r = rows[0]
            if "bad-op" in (r.impl, r.model):
                raise lib.MachineryError("bad-op on vector line: %s" % c.lines[0][:120])
            line = c.lines[0]
            unary = line.startswith("uv")
            nelem += 64 * (len(UNARY) if unary else 1)
            if r.impl == r.std == r.model == r.spec:
                continue
            toks = dict(t.split("=", 1) for t in line.split()[1:])
            w = int(toks["t"])
            xs = toks["xs"][1:-1].split(",")
            if unary:
                cols = [v.split(";") for v in (r.impl, r.std, r.model, r.spec)]
                for fi, f in enumerate(UNARY):
                    ci, cs, cm, cp = (cols[q][fi] for q in range(4))
                    if ci == cs == cm == cp:
                        continue
                    ei, es, em, ep = ci.split(","), cs.split(","), cm.split(","), cp.split(",")
                    for k, x in enumerate(xs):
                        i_, s_, m_, p_ = ei[k], es[k], em[k], ep[k]
                        if not (lib.eq(p_, s_) and lib.eq(i_, p_) and lib.eq(i_, m_)):
                            singles.add("u t=%d f=%s x=%s" % (w, f, x))
            else:
                ys = toks["ys"][1:-1].split(",")
                ei, es, em, ep = (v.split(",") for v in (r.impl, r.std, r.model, r.spec))
                for k, (x, y) in enumerate(zip(xs, ys)):
                    i_, s_, m_, p_ = ei[k], es[k], em[k], ep[k]
                    if not (lib.eq(p_, s_) and lib.eq(i_, p_) and lib.eq(i_, m_)):
                        singles.add("b t=%d f=%s x=%s y=%s" % (w, toks["f"], x, y))
        del results
    dist["lean/vector_wall_s"] = round(time.time() - t0, 1)
    dist["lean/vector_lines"] = len(cases)
    dist["lean/vector_evaluations"] = nelem
    dist["lean/vector_disagreements"] = len(singles)
    return sorted(singles)


# ------------------------------------------------------------------ stage 3: single-input case lines

def special_cases(tier, seed, dist):
    rnd = random.Random(seed * 104729 + 5)
    thorough = tier == "thorough"
    cases = []

    def add(line, tag):
        cases.append(Case(line, tag))
        dist[tag] = dist.get(tag, 0) + 1

    for w in (32, 64):
        small, big = CTAB[w]
        for f in UNARY:
            for x in small + big:
                add("u t=%d f=%s x=%d" % (w, f, sg(x, w)), "u/" + f)
            for x in small + ([] if f in CT_SMALL_ONLY else big):
                add("cu t=%d f=%s x=%d" % (w, f, sg(x, w)), "cu/" + f)
        for f in BINARY:
            for x in small:
                for y in small:
                    add("b t=%d f=%s x=%d y=%d" % (w, f, sg(x, w), sg(y, w)), "b/" + f)
                    add("cb t=%d f=%s x=%d y=%d" % (w, f, sg(x, w), sg(y, w)), "cb/" + f)
        # lerp / midpoint / fma: special-value grid + random (exact against libstdc++ / glibc)
        vals = [v for v in small if rnd.random() < 0.5] + big
        g = grid(w)
        n3 = 6000 if thorough else 1500
        for _ in range(n3):
            pick = lambda: rnd.choice(vals) if rnd.random() < 0.4 else (rnd.choice(g) if rnd.random() < 0.3 else f2b(rnd.uniform(-8, 8), w))
            x, y, z = pick(), pick(), pick()
            add("s t=%d f=midpoint x=%d y=%d" % (w, sg(x, w), sg(y, w)), "s/midpoint")
            add("s t=%d f=fma x=%d y=%d z=%d" % (w, sg(x, w), sg(y, w), sg(z, w)), "s/fma")
            # lerp: t in and around [0,1] and the exact special cases t=0, t=1, a==b
            t = rnd.choice([f2b(0.0, w), f2b(1.0, w), f2b(0.5, w), f2b(rnd.uniform(-1, 2), w), z])
            if rnd.random() < 0.2:
                y = x
            add("s t=%d f=lerp x=%d y=%d z=%d" % (w, sg(x, w), sg(y, w), sg(t, w)), "s/lerp")
    return cases


APPROX_SPECIALS = [0.0, -0.0, 1.0, -1.0, 0.5, -0.5, 2.0, 10.0, float("inf"), float("-inf"), float("nan"), 1e-30, -1e-30, 1e30, -1e30,
                   3.0, 171.0, 171.7, 89.0, -89.0, 710.0, -2.0, -3.0, -2.5, -0.5, -170.5, -1e-5, 1e-5, 0.999, -0.999, 36.0, -100.5]
# run time = gcem only for beta (the other approximating functions forward to the libm builtin: their `a` cases check the
# dispatch over the whole C domain, tolerance 0)
BETA_RANGE = (0.1, 10.0)
# the inputs of the constexpr tables CA<T> of harness/c16.cpp (same order), plus max and denorm_min of the format
CA_IN = [0.0, 0.1, 0.25, 0.5, 0.75, 1.0, 1.5, 2.0, 3.0, 10.0, -0.1, -0.5, -1.0, -2.0, 0.001, 7.25, 100.0,
         -0.0, 1e-30, -1e-30, 1e-5, 50.0, 89.0, 1e30, -100.0, -2.5, 0.999]
INF, NAN = float("inf"), float("nan")
CA2_IN = {"pow": [(2, 3), (2, 0.5), (10, -2), (0.5, 2.5), (3, 0), (1.5, 7.25), (0.1, 0.25), (1, 1e30), (-2, 3), (-2, 2), (0, 2)],
          "atan2": [(1, 1), (1, -1), (-1, -1), (-1, 1), (0, 1), (0, -1), (-0.0, -1), (-0.0, 1), (3, 4), (0.1, 0.25), (1, 0), (-1, 0), (0, 0)],
          "hypot": [(3, 4), (-3, 4), (1e-30, 0), (1e-30, -1e-30), (0, 0), (0.1, 0.25), (-0.0, 0), ("denorm", "denorm"), ("minnorm", 0),
                    (INF, NAN)]}
CS_ROWS = 13


def ca_bits(v, w):
    e, m = FMT[w]
    if v == "max":
        return (((1 << e) - 2) << m) | ((1 << m) - 1)
    if v == "denorm":
        return 1
    if v == "minnorm":
        return 1 << m
    return f2b(float(v), w)


def log_uniform_bits(rnd, w):
    """a magnitude whose exponent is uniform over the whole format (subnormals and the largest binade included), random sign"""
    e, m = FMT[w]
    return (rnd.getrandbits(1) << (e + m)) | (rnd.randrange(0, (1 << e) - 1) << m) | rnd.getrandbits(m)


def magnitude_grid(w):
    """every 8th exponent of the format incl. the extremes (subnormal, min normal, largest binade) x boundary mantissas"""
    e, m = FMT[w]
    top = (1 << m) - 1
    exps = sorted(set(list(range(0, (1 << e) - 1, 8)) + [0, 1, (1 << e) - 2, (1 << (e - 1)) - 1]))
    return [(ex << m) | mm for ex in exps for mm in (0, 1, top, 1 << (m - 1))]


def dense_values(w):
    """bit patterns of the dense constexpr table CE<T> of harness/c16.cpp: exact half-integers +-(n + 0.5), n = 0..40, integers,
    the neighbours of h/2 and of m * ln 2 (gcem's exp splits x = n + r at the tie |r| = 0.5)"""
    sb = 1 << (w - 1)
    r = lambda v: f2b(v, w)
    out = []
    for n in range(41):
        out += [r(n + 0.5), r(-(n + 0.5))]
    for n in (2, 3, 4, 5, 8, 16, 17, 32, 40):
        out += [r(float(n)), r(float(-n))]
    for h in (4, 5, 6, 7, 8, 9, 16, 17, 40, 41, 80, 81, 33, 65):
        b = r(h / 2.0)
        out += [b + 1, b - 1, (b + 1) | sb, (b - 1) | sb]
    ln2 = b2f(r(0.6931471805599453), w)          # ln 2 rounded to the format
    for m in (1, 2, 3, 10, 50, 100, 127):
        b = r(m * ln2)                           # the product of two values of the format, rounded once
        out += [b, b + 1, b - 1]
    return out


def reduction_values(w):
    """run-time inputs across gcem's (and any) argument-reduction boundaries: +-(n + 0.5) and +-n for n = 0..40, k/2 +- 1 ulp for
    k = 1..81, m * ln 2 +- 1 ulp, powers of two +- 1 ulp"""
    sb = 1 << (w - 1)
    r = lambda v: f2b(v, w)
    out = list(dense_values(w))
    for n in range(41):
        out += [r(float(n)), r(float(-n)) if n else sb]
    for k in range(1, 82):
        b = r(k / 2.0)
        out += [b + 1, b - 1, (b + 1) | sb, (b - 1) | sb]
    ln2 = b2f(r(0.6931471805599453), w)
    for m in range(1, 128, 3):
        b = r(m * ln2)
        out += [b, b + 1, b - 1, b | sb]
    for e in range(-10, 11):
        b = r(2.0 ** e)
        out += [b, b + 1, b - 1, b | sb]
    return sorted(set(out))


DENSE_FNS = ["exp", "sinh", "cosh", "tanh", "log", "log2", "log10", "log1p"]


def approx_cases(tier, seed, dist):
    rnd = random.Random(seed * 15485863 + 11)
    thorough = tier == "thorough"
    n = 2000 if thorough else 250
    cases = []
    sign = {32: 1 << 31, 64: 1 << 63}

    def add(line, tag):
        cases.append(Case(line, tag))
        dist[tag] = dist.get(tag, 0) + 1

    def sample(w, f):
        # the whole C domain: uniform bit patterns (every exponent, NaNs, infinities), ordinary and small arguments,
        # negative non-integers and poles for the gamma functions, the overflow thresholds of exp/sinh/cosh
        c = rnd.random()
        if c < 0.35:
            return rnd.getrandbits(w)
        if c < 0.65:
            return f2b(rnd.uniform(-10, 10), w)
        if c < 0.8:
            return f2b(rnd.uniform(-1, 1), w)
        if c < 0.9:
            return f2b(rnd.uniform(-200, 200), w)
        if c < 0.95:
            return f2b(float(rnd.randint(-180, 180)) + rnd.choice([0.0, 0.5, 1e-3, -1e-3]), w)
        return log_uniform_bits(rnd, w)

    for w in (32, 64):
        for f in UNARY_APPROX:
            for v in APPROX_SPECIALS:
                add("a t=%d f=%s x=%d" % (w, f, sg(f2b(v, w), w)), "a/" + f)
            for _ in range(n):
                add("a t=%d f=%s x=%d" % (w, f, sg(sample(w, f), w)), "a/" + f)
            for v in CA_IN + ["max", "denorm"]:
                add("ca t=%d f=%s x=%d" % (w, f, sg(ca_bits(v, w), w)), "ca/" + f)
            if f in DENSE_FNS:
                for b in dense_values(w):
                    add("ca t=%d f=%s x=%d" % (w, f, sg(b, w)), "ca-dense/" + f)
                for b in reduction_values(w):
                    add("a t=%d f=%s x=%d" % (w, f, sg(b, w)), "a-reduction/" + f)
        for f, pairs in CA2_IN.items():
            for x, y in pairs:
                add("ca t=%d f=%s x=%d y=%d" % (w, f, sg(ca_bits(x, w), w), sg(ca_bits(y, w), w)), "ca/" + f)
        for f in ("fma", "lerp", "midpoint"):
            for k in range(CS_ROWS):
                add("cs t=%d f=%s k=%d" % (w, f, k), "cs/" + f)
        pow_special = [f2b(v, w) for v in (0.0, -0.0, 1.0, -1.0, 0.5, 2.0, -2.0, 3.0, -3.0, 0.5, -0.5, INF, -INF, NAN, 1e30, 1e-30)]
        for f in BINARY_APPROX:
            for _ in range(n):
                if f == "pow":
                    x = f2b(rnd.uniform(0, 20), w) if rnd.random() < 0.7 else rnd.getrandbits(w)
                    c = rnd.random()
                    y = f2b(rnd.uniform(-8, 8), w) if c < 0.6 else (f2b(float(rnd.randint(-5, 5)), w) if c < 0.85 else
                                                                    (rnd.choice(pow_special) if c < 0.95 else rnd.getrandbits(w)))
                elif f == "beta":
                    x, y = f2b(rnd.uniform(*BETA_RANGE), w), f2b(rnd.uniform(*BETA_RANGE), w)
                elif f == "hypot":
                    c = rnd.random()
                    if c < 0.3:
                        x, y = f2b(rnd.uniform(-1e3, 1e3), w), f2b(rnd.uniform(-1e3, 1e3), w)
                    elif c < 0.7:       # log-uniform magnitudes over the whole range, independent exponents
                        x, y = log_uniform_bits(rnd, w), log_uniform_bits(rnd, w)
                    else:               # nearby exponents (the sum of squares matters), anywhere in the range
                        x = log_uniform_bits(rnd, w)
                        e, m = FMT[w]
                        ex = min(max(((x >> m) & ((1 << e) - 1)) + rnd.randint(-(m // 2 + 2), m // 2 + 2), 0), (1 << e) - 2)
                        y = (rnd.getrandbits(1) << (e + m)) | (ex << m) | rnd.getrandbits(m)
                else:
                    c = rnd.random()
                    if c < 0.7:
                        x, y = f2b(rnd.uniform(-10, 10), w), f2b(rnd.uniform(-10, 10), w)
                    elif c < 0.85:
                        x, y = rnd.getrandbits(w), rnd.getrandbits(w)
                    else:
                        x, y = rnd.choice(pow_special), rnd.choice(pow_special)
                add("a t=%d f=%s x=%d y=%d" % (w, f, sg(x, w), sg(y, w)), "a/" + f)
        # pow: half-integer / integer / boundary exponents and bases (gcem pow = exp(y * log x) on its paths)
        red = reduction_values(w)
        for b in red:
            add("a t=%d f=pow x=%d y=%d" % (w, sg(f2b(2.0, w), w), sg(b, w)), "a-reduction/pow")
            add("a t=%d f=pow x=%d y=%d" % (w, sg(b, w), sg(f2b(2.5, w), w)), "a-reduction/pow")
        # pow: the special cases of C17 F.10.4.4 (y NaN / infinite / zero, x zero / one / negative / infinite)
        for x in pow_special:
            for y in pow_special:
                add("a t=%d f=pow x=%d y=%d" % (w, sg(x, w), sg(y, w)), "a/pow-special")
        # hypot: exponent grid x exponent grid (every 8th exponent incl. subnormals and the largest binade, boundary
        # mantissas); hypot3 with a third grid value
        mg = magnitude_grid(w)
        pairs = [(x, y) for x in mg for y in mg]
        cap = 40000 if thorough else 1500          # binary32 thorough: every pair (18496); otherwise a seeded sample
        if len(pairs) > cap:
            pairs = rnd.sample(pairs, cap)
        for x, y in pairs:
            if rnd.random() < 0.25:
                x |= sign[w]
            add("a t=%d f=hypot x=%d y=%d" % (w, sg(x, w), sg(y, w)), "a/hypot-grid")
        for _ in range(3000 if thorough else 300):
            x, y, z = rnd.choice(mg), rnd.choice(mg), rnd.choice(mg)
            add("a t=%d f=hypot3 x=%d y=%d z=%d" % (w, sg(x, w), sg(y, w), sg(z, w)), "a/hypot3-grid")
        for _ in range(n):
            x, y, z = log_uniform_bits(rnd, w), log_uniform_bits(rnd, w), log_uniform_bits(rnd, w)
            add("a t=%d f=hypot3 x=%d y=%d z=%d" % (w, sg(x, w), sg(y, w), sg(z, w)), "a/hypot3")
        # hypot: documented special cases (inf wins over NaN, NaN otherwise)
        sp = [f2b(v, w) for v in (INF, -INF, NAN, 0.0, -0.0, 3.0, -4.0)]
        for x in sp:
            for y in sp:
                add("a t=%d f=hypot x=%d y=%d" % (w, sg(x, w), sg(y, w)), "a/hypot-special")
                if all(b2f(v, w) == b2f(v, w) and abs(b2f(v, w)) != INF for v in (x, y)):
                    # libstdc++ 12's three-argument hypot returns NaN for infinite arguments (its own defect): finite only
                    add("a t=%d f=hypot3 x=%d y=%d z=%d" % (w, sg(x, w), sg(y, w), sg(sp[5], w)), "a/hypot-special")
        for v in (0.0, -0.0, 1.0, -1.0, INF, -INF, NAN):
            for u in (0.0, -0.0, 1.0, -1.0, INF, -INF, NAN):
                add("a t=%d f=atan2 x=%d y=%d" % (w, sg(f2b(v, w), w), sg(f2b(u, w), w)), "a/atan2-special")
        if w == 64:
            # long double overloads at run time (observed only): binary64 values converted to long double
            ld_fixed = sorted(set([f2b(v, 64) for v in CA_IN if v == v] + dense_values(64)))
            ld_in = sorted(set(ld_fixed + [f2b(rnd.uniform(-10, 10), 64) for _ in range(n // 5)]
                               + [f2b(rnd.uniform(-1, 1), 64) for _ in range(n // 10)]))
            for f in LD_GCEM + LD_BUILTIN:
                if f in ("pow", "atan2"):
                    continue
                # sin/cos/tan(long double) = gcem with an absolute error of ~2e-16: next to a zero or pole the distance in
                # long double ulps is unbounded (tan(6.2829L): 4.6e6), so a seeded sample has no stable maximum: fixed list only
                for b in (ld_fixed if f in ("sin", "cos", "tan") else ld_in):
                    add("al t=64 f=%s x=%d" % (f, sg(b, 64)), "al/" + f)
            for x, y in CA2_IN["pow"] + [(2.0, 2.5), (2.0, -3.5), (2.5, 2.5), (10.0, 10.5), (0.5, 40.5), (3.0, 0.5)]:
                add("al t=64 f=pow x=%d y=%d" % (sg(ca_bits(x, 64), 64), sg(ca_bits(y, 64), 64)), "al/pow")
            for x, y in CA2_IN["atan2"]:
                add("al t=64 f=atan2 x=%d y=%d" % (sg(ca_bits(x, 64), 64), sg(ca_bits(y, 64), 64)), "al/atan2")
        # complex
        nc = 600 if thorough else 80
        for f in COMPLEX:
            for _ in range(nc):
                if f == "polar":
                    re_, im_ = rnd.uniform(0, 10), rnd.uniform(-6.3, 6.3)
                elif f in ("log", "log10", "arg", "abs", "norm", "conj"):
                    re_, im_ = rnd.uniform(-100, 100), rnd.uniform(-100, 100)
                else:
                    re_, im_ = rnd.uniform(-3, 3), rnd.uniform(-3, 3)
                add("c t=%d f=%s re=%d im=%d" % (w, f, sg(f2b(re_, w), w), sg(f2b(im_, w), w)), "c/" + f)
        # abs / arg / norm / conj: components 0, -0, inf, -inf, NaN, 1e30, 1e-30 and ordinary values (all 81 pairs); abs over
        # the magnitude grid.  The reference is libstdc++ itself, also where it departs from C Annex G (norm(inf, NaN) = NaN:
        # re*re + im*im); nothing is masked: etl agrees with libstdc++ on every pair.
        csp = [f2b(v, w) for v in (0.0, -0.0, INF, -INF, NAN, 1.0, -2.5, 1e30, 1e-30)]
        for f in ("abs", "arg", "norm", "conj"):
            for re_ in csp:
                for im_ in csp:
                    add("c t=%d f=%s re=%d im=%d" % (w, f, sg(re_, w), sg(im_, w)), "c/%s-special" % f)
        for x, y in rnd.sample([(x, y) for x in mg for y in mg], 400 if not thorough else 4000):
            add("c t=%d f=abs re=%d im=%d" % (w, sg(x, w), sg(y | (sign[w] if rnd.random() < 0.3 else 0), w)), "c/abs-grid")
        for f in COMPLEX2:
            for _ in range(nc):
                a, b, c, d = (rnd.uniform(-100, 100) for _ in range(4))
                add("c t=%d f=%s re=%d im=%d re2=%d im2=%d" % (w, f, sg(f2b(a, w), w), sg(f2b(b, w), w), sg(f2b(c, w), w),
                                                             sg(f2b(d, w), w)), "c/" + f)
    return cases


def generate(tier, seed):
    dist = {}
    cases = []
    for ln in run_sweep(tier, seed, dist):
        cases.append(Case(ln, "sweep/" + ln.split()[2][2:]))
    for ln in vector_stage(tier, seed, dist):
        cases.append(Case(ln, "vector/" + ln.split()[2][2:]))
    cases += special_cases(tier, seed, dist)
    cases += approx_cases(tier, seed, dist)
    # keep the first occurrence of a line (a sweep mismatch may also be a table value)
    seen, out = set(), []
    for c in cases:
        t = c.text()
        if t not in seen:
            seen.add(t)
            out.append(c)
    return out, False, dist


# ------------------------------------------------------------------ classification

def _args(line):
    toks = line.split()
    d = dict(t.split("=", 1) for t in toks[1:])
    w = int(d.get("t", "32"))
    return toks[0], d, w


def nontrivial(case, rows):
    op, d, w = _args(case.lines[0])
    if op in ("a", "ca", "al", "c", "s", "cs"):
        return rows[0].impl == "ok" or rows[0].impl not in ("*",)
    x = int(d["x"]) % (1 << w)
    s, e, m = fields(x, w)
    special = e == 0 or e == (1 << FMT[w][0]) - 1
    return special or rows[0].spec != str(x)


EPS = {32: 2.0 ** -23, 64: 2.0 ** -52, 80: 2.0 ** -63}         # 80: the x87 long double of op `al`
EXP_OVERFLOW = {32: 88.0, 64: 709.0, 80: 11356.0}


def ca_known_class(f, w, v, y=None):
    """The argument classes of finding F-C16-gcem-outside-domain: constant-evaluated (gcem) calls that are known to violate
    the relative bound or a special case.  Exact predicates on (function, format, argument); quoted in the finding."""
    if v != v:
        return False
    a = abs(v)
    if f in ("log", "log2", "log10"):
        return 0 < v < EPS[w]                                   # x < epsilon returns -inf
    if f in ("sin", "tan", "asin", "atan", "sinh", "tanh", "asinh", "atanh", "erf") and a < EPS[w]:
        return True                                             # |x| < epsilon returns +0 (the sign of -0 is lost too)
    if f in ("sinh", "asinh", "atanh") and a < 0.01:
        return True                                             # exp / log form: cancellation for small arguments
    if f in ("sin", "cos", "tan") and a >= 1e30:
        return True                                             # no argument reduction
    if f == "tanh" and a >= (50.0 if w == 32 else 30.0):
        return True                                             # exceeds 1 and grows like e^x (binary64: 7 ulps at 32.5, 1432 at 40.5)
    if f in ("sinh", "cosh") and a > EXP_OVERFLOW[w]:
        return True                                             # exp(x) overflows before the halving
    if f == "asinh" and v <= -100.0:
        return True                                             # x + sqrt(x*x + 1) cancels
    if f == "tgamma" and a < 1e-4:
        return True                                             # inf for tiny arguments, +inf for -0
    if f == "lgamma" and (v < 0 or a < 1e-4 or (v not in (1.0, 2.0) and (abs(v - 1) < 0.01 or abs(v - 2) < 0.01))):
        return True                                             # inf for negative arguments; no relative accuracy near the zeros 1, 2
    if f == "exp" and w == 80 and a >= 2.0 ** 63:
        return True                                             # long double at run time: the integer part leaves long long, exp(1e30L) = 0
    if f == "pow" and v < 0:
        return True                                             # negative base: NaN
    if f == "atan2" and v == 0.0:
        return True                                             # a zero first argument: its sign is ignored
    return False


def classify(case, k, row):
    """Finding id for a failing (impl != spec) case.  C16 has no `*_partial` theorems (the classified functions have no Lean
    model at all): the predicate is `ca_known_class` (function, format and argument of a gcem call: constant-evaluated `ca`, or a
    long double overload without a builtin branch `al`), quoted in the finding text.  A crash (`ub(...)`) is never classified."""
    op, d, w = _args(case.lines[k])
    f = d.get("f", "")
    if row.impl.startswith("ub(") or row.impl == "skipped":
        return None
    if op == "ca" and "x" in d:
        v = b2f(int(d["x"]) % (1 << w), w)
        if ca_known_class(f, w, v):
            return "F-C16-gcem-outside-domain"
    if op == "al" and f in LD_GCEM and "x" in d:                  # the long double overloads that run gcem at run time
        v = b2f(int(d["x"]) % (1 << 64), 64)
        if ca_known_class(f, 80, v):
            return "F-C16-gcem-outside-domain"
    return None


def group_of(case):
    return case.tag


CLAIMED = True
TECHNIQUE = ("Lean 4 proof of a bit-level IEEE-754 specification (all formats) + four-sided correspondence etl = Lean model, Lean spec = glibc, "
             "etl = Lean spec on 2^20 (quick) / 2^24 (thorough) binary32 patterns; a C++-only sweep etl = glibc on 2^24 / all 2^32 binary32 "
             "patterns (dispatch check for builtin-forwarded functions); approximating functions: differential only")
LEVEL_TEXT = ("The exact cmath functions (floor, ceil, trunc, round, rint, lrint/llrint, fabs/abs, copysign, signbit, fmin, fmax, fdim, "
              "fmod, remainder, nextafter, isnan/isinf/isfinite) are specified in Lean 4 as integer arithmetic on bit patterns for an "
              "arbitrary (ebits, mbits) format. Theorems (no sorry, axioms propext/Classical.choice/Quot.sound) show for every "
              "pattern that the bit-level rounding functions return exactly the mathematically rounded integer (value = "
              "mag/2^K, compared by cross-multiplication), keep sign/NaN/infinity as C requires, that the classification predicates "
              "partition the patterns, that copysign/fabs/signbit act on the sign bit only (of NaNs too), that nextafter moves to the "
              "adjacent pattern in value order, and that the algorithms tetl runs itself (nextafter, abs_impl for every pattern, "
              "copysign fallback, isfinite, gcem floor/ceil/trunc/round, the constant-evaluated fmod/remainder ladder) equal that "
              "spec. The spec is tied to glibc and the model to tetl's current source on every run: 2^20 (thorough 2^24) binary32 and "
              "2^18 (2^22) binary64 patterns go through the compiled Lean spec and model (impl = model, spec = libm, impl = spec), on "
              "the run-time path and, for a table of special values, on the constant-evaluated path. Beyond that a C++-only sweep "
              "compares etl with libm on 2^24 stratified (thorough: all 2^32) binary32 patterns and >1e7 binary64 patterns; the Lean "
              "side does not see those. For the functions whose run-time path forwards to the compiler builtin that libstdc++ "
              "resolves to as well (floor, ceil, trunc, round, rint, lrint, llrint, signbit, isnan, isinf, copysign, fmod, remainder, "
              "sqrt and the other libm-forwarded functions) the run-time model is the spec and the C++ comparison is a call compared "
              "with the same builtin: it checks that etl dispatches to the right function unchanged, not an independent "
              "implementation; the independent content is in the functions tetl computes itself (fabs/abs, fmin, fmax, fdim, "
              "nextafter, isfinite, hypot, lerp, midpoint) and in every constant-evaluated path.")
LEVEL_NOTE = ("Partial (DESIGN §6): sqrt, exp, log*, pow, trigonometric/hyperbolic functions and inverses, erf, gamma, beta, hypot, the "
              "complex functions, lerp, midpoint and fma have no Lean model; they are compared with glibc/libstdc++ within a measured "
              "tolerance (relative; bit-identical where the run-time path is the libm builtin, which checks the dispatch only) and "
              "listed under coverage.unproved_observed. Run-time paths that call a compiler builtin are assumed to implement the C "
              "function (on `.rt` the model is the spec, R1 coincides with R3). Members with a spec but no theorem: "
              "coverage.correspondence_only. Known finding: the constant-evaluated gcem series outside the argument classes listed in "
              "F-C16-gcem-outside-domain. nearbyint, isnormal, fpclassify are not provided by etl (n/a). NaN payloads are never "
              "compared; NaN sign bits for fabs/abs/copysign only. The gcem rounding theorems need mbits <= 62 (integer part within "
              "long long): binary32/64, not long double.")
P = "Tetl.C16.Props."
THEOREMS = {
    "u": [P + n for n in ("floor_spec", "ceil_spec", "trunc_spec", "round_spec", "rint_spec", "rounding_special", "rnd_exact",
                          "intMag_trunc", "intMag_away", "intMag_halfAway", "intMag_halfEven", "classify_partition",
                          "fabs_spec", "isfinite_eq", "absImpl_eq", "absImpl_nan")],
    "cu": [P + n for n in ("gcemFloor_eq", "gcemCeil_eq", "gcemTrunc_eq", "gcemRound_eq", "std_cv", "absImpl_eq", "absImpl_nan")],
    "b": [P + n for n in ("copysign_spec", "fmin_spec", "fmax_spec", "fmin_nan",
                          "nextafter_model_eq", "nextafter_adjacent", "nextafter_special", "key_is_value_order", "mag_strict_mono")],
    "cb": [P + n for n in ("copysignFallback_eq", "nextafter_model_eq", "fmodCt_eq", "remainderCt_eq")],
}
THEOREMS["uv"] = THEOREMS["u"]
THEOREMS["bv"] = THEOREMS["b"]
