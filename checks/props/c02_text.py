"""C02 part 'text' — boundary stream for character conversion (cc.*, C10), C-string functions and cctype (cs.*, C18),
bit / integer utilities (num.*, C14) and the calendar kernels (chr.*, C11).

Only valid operations are generated (the documented preconditions of the owning properties are respected; their
known findings are kept out: from_chars on an out-of-range digit run — the same digit runs go through cc.to_integer,
which has no pointer to report — and the strto*/sto*/ato* classes plus sign, base prefix, base 0, out of range,
unsigned minus, no conversion for sto*).  Every buffer named in a line is one exact-size allocation in the harness:
strings are exactly strlen+1 units, destinations exactly what the call may write, from_chars/memcmp/memchr/memcpy
sources have no terminator."""
import itertools
import math
import random

from lib import Case, fmt_list
from props import c14 as _c14

DIG = "0123456789abcdefghijklmnopqrstuvwxyz"
TYPES = {"i8": (8, True), "u8": (8, False), "i16": (16, True), "u16": (16, False),
         "i32": (32, True), "u32": (32, False), "i64": (64, True), "u64": (64, False)}
FN_TY = {"strtol": "i64", "strtoll": "i64", "strtoul": "u64", "strtoull": "u64", "atoi": "i32", "atol": "i64",
         "atoll": "i64", "stoi": "i32", "stol": "i64", "stoll": "i64", "stoul": "u64", "stoull": "u64"}
INT_MIN, INT_MAX = -(1 << 31), (1 << 31) - 1
FILL = 238
CAPS = [2, 11, 12, 15, 16, 21]                          # the inplace_string capacities instantiated by the harness
CTYPE = ["isalnum", "isalpha", "isblank", "iscntrl", "isdigit", "isgraph", "islower", "isprint", "ispunct", "isspace",
         "isupper", "isxdigit", "tolower", "toupper"]
LO, HI = -12687428, 11248737                              # -32767-01-01 .. 32767-12-31 (C11)


def limits(ty):
    bits, sg = TYPES[ty]
    return (-(1 << (bits - 1)), (1 << (bits - 1)) - 1) if sg else (0, (1 << bits) - 1)


def render(v, b):
    if v == 0:
        return "0"
    n, out = abs(v), ""
    while n:
        out = DIG[n % b] + out
        n //= b
    return ("-" if v < 0 else "") + out


def venc(v):
    """64-bit unsigned values travel as their signed reading (the shared protocol parser is long long)"""
    return v - (1 << 64) if v >= (1 << 63) else v


def enc(s):
    return fmt_list([ord(c) if isinstance(c, str) else c for c in s])


def digit_val(c):
    c = c if isinstance(c, int) else ord(c)
    if 48 <= c <= 57:
        return c - 48
    if 97 <= c <= 122:
        return c - 87
    if 65 <= c <= 90:
        return c - 55
    return 99


def parse_class(ty, s, b):
    """from_chars grammar: 'ok' / 'invalid' / 'range' (reference used only to keep the known finding out)"""
    lo, hi = limits(ty)
    k, neg = 0, False
    if lo < 0 and k < len(s) and s[k] == "-":
        neg, k = True, 1
    v, n = 0, 0
    while k < len(s) and digit_val(s[k]) < b:
        v = v * b + digit_val(s[k])
        k += 1
        n += 1
    if n == 0:
        return "invalid"
    v = -v if neg else v
    return "ok" if lo <= v <= hi else "range"


def days_from_civil(y, m, d):
    y -= m <= 2
    era = (y if y >= 0 else y - 399) // 400
    yoe = y - era * 400
    doy = (153 * (m - 3 if m > 2 else m + 9) + 2) // 5 + d - 1
    doe = yoe * 365 + yoe // 4 - yoe // 100 + doy
    return era * 146097 + doe - 719468


def is_leap(y):
    return y % 4 == 0 and (y % 100 != 0 or y % 400 == 0)


def generate(tier, seed):
    rnd = random.Random(seed)
    thorough = tier == "thorough"
    cases, dist = [], {}

    def add(line, tag):
        cases.append(Case(line, tag))
        dist[tag] = dist.get(tag, 0) + 1

    gen_cc(add, rnd, thorough)
    gen_cs(add, rnd, thorough)
    gen_num(add, rnd, thorough)
    gen_chr(add, rnd, thorough)
    # size limit of the part (quick <= ~12 000 lines, thorough <= ~80 000): a tag that grew beyond its share keeps a
    # seeded sample (the seeds differ in which part of the box they keep); the buffer-edge ops of cc.* keep more
    cap = {"cc.to_chars": 7000, "cc.to_integer": 6000, "cc.from_chars": 5000, "cc.from_integer": 3500, "cs.ctype": 3700} if thorough else \
          {"cc.to_chars": 900, "cc.to_integer": 1000, "cc.from_chars": 900, "cc.from_integer": 600, "cs.ctype": 500}
    dflt = 2600 if thorough else 170
    by_tag = {}
    for k, c in enumerate(cases):
        by_tag.setdefault(c.tag, []).append(k)
    keep = set()
    for tag, idx in by_tag.items():
        lim = cap.get(tag, dflt)
        keep |= set(idx if len(idx) <= lim else rnd.sample(idx, lim))
    cases = [c for k, c in enumerate(cases) if k in keep]
    dist = {}
    for c in cases:
        dist[c.tag] = dist.get(c.tag, 0) + 1
    return cases, dist


# ---------------------------------------------------------------------------------------------------- cc.*

def cc_values(ty, b, rnd, nrand):
    lo, hi = limits(ty)
    vs = {0, 1, hi, lo, lo + 1, b}
    if lo < 0:
        vs |= {-1}
    if nrand:
        vs |= {hi - 1, b - 1, hi // b, hi // b + 1} | ({-b, -(b - 1)} if lo < 0 else set())
    for _ in range(nrand):
        x = rnd.getrandbits(rnd.randint(1, TYPES[ty][0]))
        vs.add(x)
        vs.add(-x)
    return sorted(v for v in vs if lo <= v <= hi)


def gen_cc(add, rnd, thorough):
    bases = list(range(2, 37)) if thorough else [2, 8, 10, 16, 36]
    # to_chars: buffer of exactly len bytes, len in {0, 1, needed-1, needed (exact fit), needed+1}
    for ty in TYPES:
        for b in bases:
            core = b in (2, 8, 10, 16, 36)
            for v in cc_values(ty, b, rnd, 3 if thorough and core else 0):
                L = len(render(v, b))
                for n in sorted({0, 1, max(L - 1, 0), L, L + 1}):
                    add("cc.to_chars ty=%s v=%d base=%d len=%d" % (ty, venc(v), b, n), "cc.to_chars")
                if (thorough and core) or (b in (2, 10, 36) and v in (0, limits(ty)[0], limits(ty)[1], -1, 1)):
                    for term in (0, 1):
                        for n in sorted({0, 1, max(L - 1, 0), L, L + 1, L + 2}):
                            add("cc.from_integer ty=%s v=%d base=%d len=%d term=%d" % (ty, venc(v), b, n, term),
                                "cc.from_integer")
    # to_string<Capacity>: exact capacity = digits + 1 where instantiated, the 15/16 layout boundary, both initialisations
    for fn in ("i32", "u32", "i64", "u64"):
        lo, hi = limits(fn)
        vs = {0, 1, 9, 10, 99, 100, 999, hi, hi - 1, lo, lo + 1, 10 ** 9, 10 ** 9 + 7, 10 ** 10, 10 ** 13 + 1, 10 ** 14,
              10 ** 14 - 1, 10 ** 15 - 1, 10 ** 18}
        if lo < 0:
            vs |= {-1, -9, -10, -99, -100, -(10 ** 9), -(10 ** 13), -(10 ** 14) + 1, -(10 ** 18)}
        for _ in range(40 if thorough else 4):
            x = rnd.getrandbits(rnd.randint(1, TYPES[fn][0]))
            vs |= {x, -x}
        for v in sorted(x for x in vs if lo <= x <= hi):
            L = len(render(v, 10))
            fitting = [c for c in CAPS if c > L]
            for cap in (fitting if thorough else fitting[:2] + [c for c in fitting[2:] if c in (15, 16)]):
                for init in (0, 1):
                    add("cc.to_string fn=%s cap=%d v=%d init=%d" % (fn, cap, venc(v), init), "cc.to_string")

    # from_chars / to_integer on chunks without terminator
    def texts(ty, b):
        lo, hi = limits(ty)
        top = DIG[b - 1]
        crit = ["", "-", "!", "\xff", "0", top.upper(), render(hi, b), render(lo, b), render(hi, b) + "!", render(hi + 1, b),
                render(lo - 1, b), render(hi, b) + "0", top * 70]
        out = ["--", "-!", " ", "+", "+1", "\x00", "\x80", "-0", "00", "000000000", "1", top,
               top.upper(), "-" + top, "-1", DIG[b] if b < 36 else "{", "1" + (DIG[b] if b < 36 else "{"), "1 ", " 1", "1-",
               "1\x00", "1\xff", "0x1", "/", ":", "@", "[", "`", "g" if b <= 16 else "G"]
        for n in (hi - 1, hi // b, lo + 1, b, b * b - 1):
            t = render(n, b)
            out += [t, t.upper(), ("-" if t[0] == "-" else "") + "00" + t.lstrip("-"), t + "!", t + " "]
        # digit runs that denote a value outside the type (kept for cc.to_integer only)
        for n in (hi + b, hi * b, hi * b + b - 1, lo - b, lo * b, (hi + 1) * b * b):
            out.append(render(n, b))
        out += [render(hi, b).upper(), render(lo, b).upper(), "00" + render(hi, b), render(hi, b) + " ", render(hi, b) + top,
                "-" + top * 70 if lo < 0 else "1" + "0" * 69]
        for _ in range(6 if thorough else 1):
            k = rnd.choice([1, 2, 3, 5, 8, 9, 10, 19, 20, 21, 33, 64, 65])
            body = "".join(DIG[rnd.randrange(b)] for _ in range(k))
            out.append(rnd.choice(["", "", "-"]) + (body.upper() if rnd.random() < 0.3 else body) + rnd.choice(["", "", "!", "z", " "]))
        return crit, out

    for ty in TYPES:
        for b in bases:
            core = b in (2, 8, 10, 16, 36)
            crit, extra = texts(ty, b)
            for t in crit + (extra if (thorough and core) or b == 10 else []):
                if parse_class(ty, t, b) != "range":          # F-C10-from-chars-ptr-on-overflow: ptr=first on overflow
                    add("cc.from_chars ty=%s s=%s base=%d" % (ty, enc(t), b), "cc.from_chars")
                add("cc.to_integer ty=%s s=%s base=%d ws=0" % (ty, enc(t), b), "cc.to_integer")
                if (thorough and core) or (b == 10 and TYPES[ty][0] != 16):
                    for pre in (" ", "\t\n\v\f\r "):
                        add("cc.to_integer ty=%s s=%s base=%d ws=1" % (ty, enc(pre + t), b), "cc.to_integer")
    # every single byte as the whole input, and as the byte that ends a digit run at the end of the chunk
    for c in range(256):
        for ty, b in (("i8", 10), ("u16", 36), ("i32", 16)) if thorough else (("i32", 16),):
            add("cc.from_chars ty=%s s=%s base=%d" % (ty, fmt_list([c]), b), "cc.from_chars")
            add("cc.from_chars ty=%s s=%s base=%d" % (ty, fmt_list([49, c]), b), "cc.from_chars")

    # strto* / ato* / sto* on plain digit strings (exactly strlen+1 units / a view over exactly the digits)
    for fn, ty in FN_TY.items():
        lo, hi = limits(ty)
        op = "cc.sto" if fn.startswith("sto") else "cc.cstr"
        fbases = [10] if fn.startswith("ato") else ([10, 16, 36] if not thorough else [2, 8, 10, 16, 36])
        for b in fbases:
            nums = {0, b, hi, lo, -1} | ({1, b - 1, hi - 1, hi // b, lo + 1, -b} if thorough else set())
            for _ in range(6 if thorough else 1):
                x = rnd.getrandbits(rnd.randint(1, TYPES[ty][0]))
                nums |= {x, -x}
            for n in sorted(x for x in nums if lo <= x <= hi):
                t = render(n, b)
                variants = [t, "  " + t, "00" + t if n >= 0 else "-00" + t[1:], t.upper()]
                if b < 36:
                    variants.append(t + "z")
                variants.append(t + " ")
                if b == 16:                                   # F-C10-cstdlib-base-prefix: 0x + hex digit in base 16
                    variants = [s for s in variants if not s.lstrip(" -").lower().startswith("0x")]
                for s in (variants if thorough else variants[:2] + variants[4:5]):
                    add("%s fn=%s s=%s base=%d" % (op, fn, enc(s), b), op)
        # base 0 (prefix detection like strtol): the view / string ends right behind "0x", or behind the first digit after it
        for s0 in ("0x", "0X", "0", "0x1", "0Xf", "07", "08", "0xg", "-0x", "-0X1", "0x0x", "1", "00x1"):
            if fn.startswith("ato") or (s0.startswith("-") and lo == 0):
                continue
            add("%s fn=%s s=%s base=0" % (op, fn, enc(s0)), op)
        for b in fbases:
            if op == "cc.cstr":                              # no conversion: value 0, end = str (sto*: known finding)
                for s in ("", " ", "!", "-", "z" if b < 36 else "{"):
                    add("%s fn=%s s=%s base=%d" % (op, fn, enc(s), b), op)


# ---------------------------------------------------------------------------------------------------- cs.*

def gen_cs(add, rnd, thorough):
    def strs(alpha, maxlen):
        return [list(t) for n in range(0, maxlen + 1) for t in itertools.product(alpha, repeat=n)]

    def emit(line, op, wide):
        add("cs.%s %s%s" % (op, line, " ct=wchar" if wide else ""), "cs." + op + ("/w" if wide else ""))

    def family(wide):
        hi1, hi2 = (0x80000010, 0x7FFFFFF0) if wide else (200, 255)
        alpha = [97, 98, hi1]
        s3 = strs(alpha, 2 if wide else 3)
        s2 = strs(alpha, 1 if wide else 2)
        if wide:
            longs = [[97] * 5]
        else:
            longs = [[97 + (k % 5) for k in range(n)] for n in ((7, 8, 9, 15, 16, 17, 31, 32, 33, 255, 256) if thorough else (15, 16, 17, 256))]
            longs += [[hi2] * 16, [1] * 17]
        unitmax = hi2

        def z(s):
            return list(s) + [0]

        # strlen: pointer anywhere in a chunk that ends with the terminator
        for s in s3 + longs:
            offs = range(len(s) + 1) if len(s) <= 3 else (0, 1, len(s) - 1, len(s))
            for off in offs:
                emit("s=%s off=%d" % (fmt_list(z(s)), off), "strlen", wide)
        # strcmp / strncmp
        pairs = [(a, b) for a in s2 for b in s2]
        pairs += [(s, s) for s in longs] + [(s, s[:-1]) for s in longs] + [(s[:-1] + [unitmax], s) for s in longs]
        if thorough and not wide:
            pairs += [(a, b) for a in s3 for b in s3 if len(a) == 3 or len(b) == 3]
        for a, b in pairs:
            emit("a=%s aoff=0 b=%s boff=0" % (fmt_list(z(a)), fmt_list(z(b))), "strcmp", wide)
            for n in sorted({0, 1, len(a), len(a) + 1, len(b) + 1, 1000}):
                if len(a) > 3 and n not in (0, len(a), len(a) + 1, 1000):
                    continue
                if (len(a) == 3 or len(b) == 3 or not thorough) and n not in (len(a), len(a) + 1) and a != b:
                    continue
                emit("a=%s aoff=0 b=%s boff=0 n=%d" % (fmt_list(z(a)), fmt_list(z(b)), n), "strncmp", wide)
        # strncmp on arrays of exactly n units without terminator
        for a in strs([97, hi1], 2):
            for b in strs([97, hi1], 2):
                if len(a) == len(b):
                    emit("a=%s aoff=0 b=%s boff=0 n=%d" % (fmt_list(a), fmt_list(b), len(a)), "strncmp", wide)
        # memcmp: two chunks of exactly n units (zeros inside), and a window that ends at the end of the chunk
        malpha = [0, 97, hi1]
        for n in range(0, 3 if wide else 4):
            tuples = [list(t) for t in itertools.product(malpha, repeat=n)]
            prs = [(a, b) for a in tuples for b in tuples]
            if len(prs) > 100:
                prs = rnd.sample(prs, 700 if thorough else 60) + [(a, a) for a in tuples]
            for a, b in prs:
                emit("a=%s aoff=0 b=%s boff=0 n=%d" % (fmt_list(a), fmt_list(b), n), "memcmp", wide)
        for s in longs:
            t = s[:-1] + [s[-1] ^ 1]
            emit("a=%s aoff=0 b=%s boff=0 n=%d" % (fmt_list(s), fmt_list(t), len(s)), "memcmp", wide)
            emit("a=%s aoff=1 b=%s boff=0 n=%d" % (fmt_list([0] + s), fmt_list(s), len(s)), "memcmp", wide)
        # strchr / strrchr / memchr
        chs = [0, 97, 98, 99, hi1 if wide else 200] + ([] if wide else [-56, 353, 256])
        for s in (s3 if thorough else s2 + s3[-3:]) + longs[:3]:
            for ch in chs:
                for off in ((0,) if len(s) != 2 else (0, 1, 2)):
                    emit("s=%s off=%d ch=%d" % (fmt_list(z(s)), off, ch), "strchr", wide)
                    emit("s=%s off=%d ch=%d" % (fmt_list(z(s)), off, ch), "strrchr", wide)
        for s in strs(malpha, 3 if thorough and not wide else 2) + longs:
            for ch in ([0, 97, 99] if len(s) > 3 else chs[:5]):
                emit("s=%s off=0 ch=%d n=%d" % (fmt_list(s), ch, len(s)), "memchr", wide)      # n == size, no terminator
            if s:
                emit("s=%s off=0 ch=%d n=%d" % (fmt_list(s[:-1] + [99]), 99, len(s)), "memchr", wide)   # found in the last unit
                emit("s=%s off=%d ch=%d n=0" % (fmt_list(s), len(s), s[0]), "memchr", wide)              # empty window at the end
                emit("s=%s off=1 ch=%d n=%d" % (fmt_list(s), s[0], len(s) - 1), "memchr", wide)
        # strspn / strcspn / strpbrk / strstr
        for op in ("strspn", "strcspn", "strpbrk", "strstr"):
            prs = [(a, b) for a in s2 for b in s2]
            if op == "strstr":
                prs += [(s, s) for s in longs] + [(s, s + [97]) for s in longs] + [(s, s[-2:]) for s in longs]
                prs += [([97, 97, 97, 98], [97, 97, 98]), ([97, 97, 97], [97, 97, 98]), ([97, 98, 97, 98, 97], [98, 97, 98, 98]),
                        ([97, 98, hi1], [hi1]), ([97, 98, hi1], [98, hi1, 97])]
            else:
                prs += [(s, [s[-1]]) for s in longs] + [(s, s[:4]) for s in longs] + [([97, 98, hi1], [hi1, unitmax])]
            if thorough and not wide:
                prs += [(a, b) for a in s3 for b in s3 if len(a) == 3 or len(b) == 3]
            for a, b in prs:
                emit("s=%s off=0 t=%s toff=0" % (fmt_list(z(a)), fmt_list(z(b))), op, wide)
        # strcpy: destination of exactly strlen(src)+1 units
        for s in s3 + longs:
            emit("dst=%s doff=0 src=%s soff=0" % (fmt_list([FILL] * (len(s) + 1)), fmt_list(z(s))), "strcpy", wide)
            if s:
                emit("dst=%s doff=0 src=%s soff=1" % (fmt_list([FILL] * len(s)), fmt_list(z(s))), "strcpy", wide)
        # strncpy: destination of exactly n units; the source is a string, or an array of exactly n units
        for s in s3 + longs[:4]:
            for n in sorted({0, 1, len(s), len(s) + 1, len(s) + 3}):
                emit("dst=%s doff=0 src=%s soff=0 n=%d" % (fmt_list([FILL] * n), fmt_list(z(s)), n), "strncpy", wide)
            for n in range(0, min(len(s), 3) + 1):
                emit("dst=%s doff=0 src=%s soff=0 n=%d" % (fmt_list([FILL] * n), fmt_list(s[:n]), n), "strncpy", wide)
        # memcpy / memset: exactly n units on both sides
        for n in (0, 1, 2, 3, 4, 7, 8, 9, 16, 17) + ((31, 32, 33, 255, 256) if thorough and not wide else (256,) if not wide else ()):
            src = [(k * 37 + 1) % (256 if not wide else 1 << 31) if k % 3 else 0 for k in range(n)]
            emit("dst=%s doff=0 src=%s soff=0 n=%d" % (fmt_list([FILL] * n), fmt_list(src), n), "memcpy", wide)
            if n:
                emit("dst=%s doff=1 src=%s soff=1 n=%d" % (fmt_list([FILL] * n), fmt_list(src), n - 1), "memcpy", wide)
            for ch in (0, 97, 255) + (() if wide else (321, -1)):
                emit("dst=%s doff=0 ch=%d n=%d" % (fmt_list([FILL] * n), ch, n), "memset", wide)
                if n:
                    emit("dst=%s doff=%d ch=%d n=0" % (fmt_list([FILL] * n), n, ch), "memset", wide)
        # strcat: destination exactly strlen(dst)+strlen(src)+1; strncat: strlen(dst)+min(n,strlen(src))+1
        for d in s2 + longs[:2]:
            for s in s2 + longs[:2]:
                dst = z(d) + [FILL] * len(s)
                emit("dst=%s doff=0 src=%s soff=0" % (fmt_list(dst), fmt_list(z(s))), "strcat", wide)
                if not thorough and len(d) == 2 and d[0] != d[1]:
                    continue
                for n in sorted({0, 1, len(s), len(s) + 1, len(s) + 5}):
                    m = min(n, len(s))
                    emit("dst=%s doff=0 src=%s soff=0 n=%d" % (fmt_list(z(d) + [FILL] * m), fmt_list(z(s)), n), "strncat", wide)
                    if n <= len(s):   # source array of exactly n units, no terminator
                        emit("dst=%s doff=0 src=%s soff=0 n=%d" % (fmt_list(z(d) + [FILL] * n), fmt_list(s[:n]), n), "strncat", wide)
        # memmove: every (dest, src, n) inside one chunk of 0..5 units (overlap both ways), and a longer one
        for size in ((0, 1, 2, 3, 5) if not wide else (0, 3)):
            buf = [10 + k for k in range(size)]
            for n in range(size + 1):
                for d in range(size - n + 1):
                    for s in range(size - n + 1):
                        emit("buf=%s doff=%d soff=%d n=%d" % (fmt_list(buf), d, s, n), "memmove", wide)
        if not wide:
            for size in (17, 64) + ((255, 256) if thorough else ()):
                buf = [(k * 7 + 3) % 256 for k in range(size)]
                for d, s, n in ((0, 1, size - 1), (1, 0, size - 1), (0, 0, size), (0, size // 2, size - size // 2),
                                (size // 2, 0, size - size // 2), (size, 0, 0), (0, size, 0), (3, 5, size - 5), (5, 3, size - 5)):
                    emit("buf=%s doff=%d soff=%d n=%d" % (fmt_list(buf), d, s, n), "memmove", wide)

    family(False)
    family(True)
    # cctype: EOF, every unsigned char value and 256 (thorough), class boundaries (quick)
    if thorough:
        cs_ = list(range(-1, 257))
    else:
        cs_ = [-1, 0, 8, 9, 10, 13, 14, 31, 32, 33, 47, 48, 57, 58, 64, 65, 70, 71, 90, 91, 96, 97, 102, 103, 122, 123, 126, 127,
               128, 160, 200, 254, 255, 256]
    for f in CTYPE:
        for c in cs_:
            add("cs.ctype f=%s c=%d" % (f, c), "cs.ctype")


# ---------------------------------------------------------------------------------------------------- num.*

UT = ["u8", "u16", "u32", "u64"]
ST = ["i8", "i16", "i32", "i64"]
W = {"u8": 8, "u16": 16, "u32": 32, "u64": 64, "i8": 8, "i16": 16, "i32": 32, "i64": 64}


def tmin(t):
    return _c14.tmin(t)


def tmax(t):
    return _c14.tmax(t)


def gen_num(add, rnd, thorough):
    def one(op, t, a, b=None, u=None):
        if b is None:
            if not _c14.dom_unary(op, t, a):
                return
        elif not _c14.dom_binary(op, t, u, a, b):
            return
        line = "num.%s t=%s%s a=%d%s" % (op, t, "" if u is None else " u=" + u, a, "" if b is None else " b=%d" % b)
        add(line, "num." + op)

    def edge(t, extra=0):
        w = W[t]
        vs = {0, 1, 2, 3, tmax(t), tmax(t) - 1, tmin(t), tmin(t) + 1, 1 << (w - 2), (1 << (w - 2)) - 1, 0x55 << (w - 8),
              0xA5 << (w - 8)}
        if t in ST:
            vs |= {-1, -2, -(1 << (w - 2)), tmin(t) // 2}
        else:
            vs |= {1 << (w - 1), (1 << (w - 1)) - 1, (1 << (w - 1)) + 1}
        for _ in range(extra):
            x = rnd.getrandbits(rnd.randint(1, w))
            vs |= {x, -x}
        return sorted(v for v in vs if _c14.in_t(t, v))

    nr = 12 if thorough else 0
    for t in UT:
        w = W[t]
        vals = edge(t, nr)
        if thorough:
            vals = sorted(set(vals) | {(1 << k) + d for k in range(w) for d in (-1, 0, 1) if 0 <= (1 << k) + d <= tmax(t)})
        for op in ("popcount", "countl_zero", "countl_one", "countr_zero", "countr_one", "bit_width", "bit_ceil", "bit_floor",
                   "has_single_bit"):
            for a in vals:
                one(op, t, a)
        shifts = [INT_MIN, INT_MIN + 1, -w - 1, -w, -1, 0, 1, w - 1, w, w + 1, INT_MAX - 1, INT_MAX]
        for op in ("rotl", "rotr"):
            for a in (1, tmax(t), 1 << (w - 1), 0xA5 << (w - 8), 0, tmax(t) - 1) + (tuple(rnd.sample(vals, 8)) if thorough else ()):
                for s in shifts:
                    add("num.%s t=%s a=%d b=%d" % (op, t, a, s), "num." + op)
        for op in ("test_bit", "set_bit", "reset_bit", "flip_bit"):
            for a in (0, tmax(t), 0x55 << (w - 8), 1, 1 << (w - 1)):
                for p in ((0, 1, w // 2, w - 2, w - 1) if not thorough else range(w)):
                    add("num.%s t=%s a=%d b=%d" % (op, t, a, p), "num." + op)
    for t in UT + ST:
        w = W[t]
        vals = edge(t, nr)
        for a in vals:
            one("byteswap", t, a)
            one("abs", t, a)                      # not of min (documented precondition)
            one("ilog2", t, a)                    # x >= 1
        grid = [tmin(t), tmin(t) + 1, tmax(t), tmax(t) - 1, 0, 1, 2] + ([-1, -2] if t in ST else [tmax(t) // 2, tmax(t) // 2 + 1])
        if thorough:
            grid = sorted(set(grid) | set(rnd.sample(vals, 6)))
        else:
            grid = [v for v in grid if v not in (2, -2, tmax(t) - 1, tmax(t) // 2 + 1)]
        for a in grid:
            for b in grid:
                for op in ("midpoint", "add_sat", "div_sat", "idiv"):
                    one(op, t, a, b)
        for a in (0, 1, 2, 3, 10, tmax(t), tmin(t)) + ((-1, -2, -3, -10) if t in ST else ()):
            for b in (0, 1, 2, 3, w - 2, w - 1, w, 63, 64, 200):
                one("ipow", t, a, b)              # only when the exact result is representable
    types2 = ["u8", "i8", "u32", "i32", "u64", "i64"]      # the harness instantiates the two-type functions for these
    for t in types2:
        for u in types2:
            lim = sorted({x + d for x in (tmin(t), tmax(t), tmin(u), tmax(u), 0) for d in (-1, 0, 1)})
            av = [v for v in lim if _c14.in_t(t, v)]
            bv = [v for v in lim if _c14.in_t(u, v)]
            for a in bv:
                one("saturate_cast", t, a, u=u)
                one("in_range", t, a, u=u)
            av2 = av if thorough else [v for v in av if v in (tmin(t), tmax(t), 0, -1, tmax(u), tmin(u))]
            bv2 = bv if thorough else [v for v in bv if v in (tmin(u), tmax(u), 0, -1, tmax(t), tmin(t))]
            for a in av2:
                for b in bv2:
                    one("cmp", t, a, b, u=u)
            more = thorough
            ga = sorted(v for v in {0, 6, tmax(t), tmin(t), tmin(t) + 1} | ({1, tmax(t) - 1} if more else set()) if _c14.in_t(t, v))
            gb = sorted(v for v in {0, 4, tmax(u), tmin(u), tmin(u) + 1} | ({1, tmax(u) - 1} if more else set()) if _c14.in_t(u, v))
            for a in ga:
                for b in gb:
                    one("gcd", t, a, b, u=u)      # |m|, |n| representable in the common type
                    one("lcm", t, a, b, u=u)      # ... and the result (C14 lcm_eq hypothesis)


# ---------------------------------------------------------------------------------------------------- chr.*

def gen_chr(add, rnd, thorough):
    zs = {LO, LO + 1, HI - 1, HI, 0, -1, 1, -3, -4, -5, 11016, 11017, 19782}
    eras = range(-87, 78) if thorough else [-87, -86, -1, 0, 4, 5, 76, 77]
    for era in eras:
        base = era * 146097 - 719468            # 0000-03-01 of the era
        for off in (-2, -1, 0, 1, 36523, 36524, 36525, 1459, 1460, 1461, 365, 366, 146095, 146096):
            zs.add(base + off)
    ys = [-32767, -32766, -401, -400, -100, -4, -1, 0, 1, 4, 100, 400, 1582, 1600, 1900, 1969, 1970, 1972, 2000, 2024, 2100, 9999,
          32766, 32767]
    ys += [rnd.randint(-32767, 32767) for _ in range(60 if thorough else 4)]
    for y in (ys if thorough else ys[:3] + ys[8:11] + ys[15:20] + ys[-6:]):
        for (m, d) in ((1, 1), (2, 28), (2, 29), (3, 1), (12, 31)):
            if (m, d) == (2, 29) and not is_leap(y):
                continue
            z = days_from_civil(y, m, d)
            for o in (-1, 0, 1):
                zs.add(z + o)
    for _ in range(800 if thorough else 60):
        zs.add(rnd.randint(LO, HI))
    for z in sorted(zs):
        if LO <= z <= HI:
            add("chr.civil z=%d" % z, "chr.civil")
            add("chr.weekday tp=%d" % z, "chr.weekday")
    ml = [31, 28, 31, 30, 31, 30, 31, 31, 30, 31, 30, 31]
    for y in ys:
        for m in range(1, 13):
            n = ml[m - 1] + (1 if m == 2 and is_leap(y) else 0)
            for d in ((1, n) if not thorough else (1, 15, n)):
                if thorough or m in (1, 2, 3, 12):
                    add("chr.days y=%d m=%d d=%d" % (y, m, d), "chr.days")
            add("chr.last_day y=%d m=%d" % (y, m), "chr.last_day")
    leap_ys = set(ys) | {-32768, -32767, -32766, 32766, 32767, 0, 4, 100, 200, 300, 400, -4, -100, -400}
    leap_ys |= set(range(-32768, 32768, 29 if thorough else 397))
    if thorough:
        leap_ys |= set(range(-1000, 2500)) | set(range(-32768, -32000)) | set(range(32000, 32768))
    for y in sorted(leap_ys):
        add("chr.is_leap y=%d" % y, "chr.is_leap")
    # month + months: `ms.count() - 1` is int arithmetic in [time.cal.month.nonmembers] itself, so INT_MIN is outside the domain
    ks = [INT_MIN + 1, INT_MIN + 2, -13, -12, -11, -1, 0, 1, 11, 12, 13, INT_MAX - 1, INT_MAX]
    for m in range(1, 13):
        for k in ks:
            add("chr.month_plus m=%d k=%d" % (m, k), "chr.month_plus")
    for w in range(0, 7):
        for k in [INT_MIN, INT_MIN + 1, -8, -7, -6, -1, 0, 1, 6, 7, 8, INT_MAX - 1, INT_MAX]:
            add("chr.weekday_plus w=%d k=%d" % (w, k), "chr.weekday_plus")
            add("chr.weekday_minus w=%d k=%d" % (w, k), "chr.weekday_minus")
    for y in (-32700, -1, 0, 1999, 2020, 32700):
        for m in (range(1, 13) if thorough else (1, 2, 11, 12)):
            for k in ([-600, -25, -13, -12, -11, -1, 0, 1, 11, 12, 13, 25, 600] if not thorough else list(range(-26, 27)) + [-600, 600]):
                add("chr.year_month_plus y=%d m=%d k=%d" % (y, m, k), "chr.year_month_plus")
    # the year stays inside [-32767, 32767] (year_month + months has that range as its precondition)
    for y, m, k in ((-32767, 1, 0), (-32767, 1, -0), (32767, 12, 0), (32767, 1, 11), (-32767, 12, -11), (0, 1, 393204 - 1),
                    (0, 12, -393204 - 11 + 12)):
        add("chr.year_month_plus y=%d m=%d k=%d" % (y, m, k), "chr.year_month_plus")


TRIVIAL = {"0", "1", "null", "[]", "0:[]", "invalid(77,0)", "invalid(0)", "0,0,0", "overflow", "ok(0,[])", "too_large(0)"}


def nontrivial(case, rows):
    if not rows:
        return False
    r = rows[0].spec
    return r not in TRIVIAL and r != "skipped"
