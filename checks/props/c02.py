"""C02 — valid use never leaves the caller's memory, never allocates, never hits UB (DESIGN §4 C02, §6).

C02 has no model of its own: it is the safety face of the models of C01, C04, C06, C08, C09, C10, C11, C14,
C17, C18, C19 (and, for the theorems, of every other property).  Three instruments:

  1. theorems (lean/TetlProofs/C02/Props.lean): for every modelled operation the corollary
     `∃ r, model args = .ok r` (no out-of-range access, no violated internal precondition, no fuel
     exhaustion, no invalid shift / signed overflow in the integer models) and the `_ub = true`
     theorems of the generated calendar kernels (regenerated from the source on every run);
  2. a dedicated boundary stream of VALID operations, replayed on the owning properties' models
     (drv-c02) and on the real library (harness/c02.cpp) under the observers no model can carry:
     ASan/UBSan, exact-size heap chunks for every caller range and every library object, poisoned
     storage + default-initialisation, allocation counting while a library call is on the stack;
  3. a compile-time leg (harness/c02_constexpr.cpp): the same kernels inside static_assert; GCC's
     constant evaluator rejects indeterminate reads, out-of-object accesses, signed overflow and
     allocation.

The stream is split in four parts (checks/props/c02_<part>.py, harness/c02_<part>.inc,
lean/Tetl/C02/<Part>.lean): containers (vec.* set.* bits.*), strings (str.* sv.*), ranges (alg.* span.*),
text (cc.* cs.* num.* chr.*).
"""
import json
import os
import re
import sys
import time

import lib
from lib import Case, log

from props import c02_containers, c02_ranges, c02_strings, c02_text

PROP = "C02"
DRIVER = "drv-c02"
PROOF_MODULES = ["TetlProofs.C02.Props"]
HARNESS = "harness/c02.cpp"
# the whole harness is the "pattern" leg: automatic variables are filled with 0xFE, heap objects with 0xAA
HARNESS_FLAGS = ["-O0", "-g1", "-ftrivial-auto-var-init=pattern", "-Wno-narrowing"]   # -O0: 3x shorter build, nothing optimised away
HARNESS_ENV = {}
CT_SOURCE = "harness/c02_constexpr.cpp"
CT_FLAGS = ["-std=c++20", "-fsyntax-only", "-fconstexpr-ops-limit=1000000000", "-fconstexpr-loop-limit=10000000"]
SOURCES = ["include/etl/_vector/static_vector.hpp", "include/etl/_inplace_vector/inplace_vector.hpp",
           "include/etl/_string/basic_inplace_string.hpp", "include/etl/_string_view/basic_string_view.hpp",
           "include/etl/_strings/from_integer.hpp", "include/etl/_strings/to_integer.hpp", "include/etl/_strings/cstr.hpp",
           "include/etl/_span/span.hpp", "include/etl/_array/array.hpp", "include/etl/_bitset/basic_bitset.hpp",
           "include/etl/_set/static_set.hpp", "include/etl/_flat_set/flat_set.hpp", "include/etl/_algorithm",
           "include/etl/_memory/construct_at.hpp", "include/etl/_new/operator.hpp", "include/etl/_cstring",
           "include/etl/_charconv", "include/etl/_bit", "include/etl/_numeric", "include/etl/_chrono"]
PARTS = [("containers", c02_containers), ("strings", c02_strings), ("ranges", c02_ranges), ("text", c02_text)]
PREFIX_PART = {"vec": c02_containers, "set": c02_containers, "bits": c02_containers, "str": c02_strings, "sv": c02_strings,
               "alg": c02_ranges, "span": c02_ranges, "cc": c02_text, "cs": c02_text, "num": c02_text, "chr": c02_text}
RULE = ("Dedicated boundary stream of valid operations, exhaustive over the boxes the quantifier of C02 names and seeded random "
        "beyond them: containers (static_vector, inplace_vector, static_set, flat_set, bitset; histories on ONE object that lives on an "
        "exact-size heap chunk over 0xAA poison, default- and value-initialised, capacities 0/1/2/15/16/255/256, filled to exactly "
        "capacity and emptied again), inplace_string (capacities at the tiny/normal 15/16 and the size-type 255/256 boundaries, "
        "clamped appends, sources without terminator) and string_view (empty haystack/needle, needle at the very end, pos in "
        "{0,len-1,len,len+1,npos}), algorithms and spans on exact-size chunks (empty range, one element, full buffer, exact-fit "
        "outputs), to_chars into buffers of length 0, 1, needed-1, needed, needed+1 and from_chars on unterminated chunks, C-string "
        "functions on chunks of exactly strlen+1 / n units, bit and numeric helpers at the type limits under UBSan, calendar kernels "
        "at the ends of the supported range.  Every line runs on tetl, on libstdc++/glibc, on the owning property's Lean model and "
        "spec.  A case is non-trivial when it reaches a boundary its part names (object full or emptied, empty or exact-fit range, "
        "type limit) and the expected result is not the trivial answer; distinct = distinct case text.  Plus the compile-time leg: "
        "every CT case of harness/c02_constexpr.cpp is a constant expression (or a listed known finding).")
ASSUMPTIONS = ["the models replayed are those of the owning properties (C01, C04, C06, C08, C09, C10, C11, C14, C17, C18, C19); their fidelity "
               "is established by those properties' own correspondence runs and re-checked here on the boundary stream (R1)",
               "libstdc++ 12 / glibc 2.36 validate the specs (R2)",
               "AddressSanitizer/UBSan of g++ 12 and GCC's constant evaluator are the observers for out-of-object accesses, signed overflow, "
               "invalid shifts and indeterminate reads; an in-object overrun is seen through the value comparison with the model",
               "'never calls a dynamic allocator' and 'reads no uninitialised value' are observed, not proved (DESIGN §6)"]
TRUSTED = ["hand models of the owning properties, tied to the source by their and this correspondence run (R1) on every run",
           "Tetl/C11/Gen.lean is regenerated from the clang AST of $VERIF_REPO on every run (gen/translate.py); the kernel `_ub` theorems are "
           "re-checked against it",
           "the table Tetl.C02.initFields (which members have default member initializers) is read off the class definitions by hand and "
           "observed by the default-initialised heap objects and by the compile-time leg",
           "sanitizer malloc hook + replaced operator new (harness/c02_guard.hpp) as the allocation observer"]
SEARCH_CAP = 400000
KNOWN_IPV = "F-C02-inplace-vector-default-init"
# CT cases that are known findings (id -> finding id)
CT_KNOWN = {"ipv_default_1": KNOWN_IPV, "ipv_default_16": KNOWN_IPV, "ipv_default_256": KNOWN_IPV}

_LAST = {"default_init_objects": 0, "value_init_objects": 0, "corollaries_up_to_date": None}


def generate(tier, seed):
    cases, dist = [], {}
    for name, mod in PARTS:
        cs, d = mod.generate(tier, seed)
        cases.extend(cs)
        for k, v in d.items():
            dist[k] = dist.get(k, 0) + v
        dist["part:" + name] = sum(len(c.lines) for c in cs)
    _LAST["default_init_objects"] = sum(1 for c in cases if "init=default" in c.lines[0])
    _LAST["value_init_objects"] = sum(1 for c in cases if "init=value" in c.lines[0])
    return cases, False, dist


def _part_of(case):
    pre = case.lines[0].split(".", 1)[0]
    return PREFIX_PART.get(pre)


def nontrivial(case, rows):
    mod = _part_of(case)
    return bool(mod and mod.nontrivial(case, rows))


def is_ipv_default(line):
    """the class of the known finding: default-initialised inplace_vector with a non-zero capacity
    (same predicate as the hypothesis of Tetl.C02.Props.default_init_defined_partial)"""
    toks = line.split()
    if not toks or toks[0] != "vec.new":
        return False
    kv = dict(t.split("=", 1) for t in toks[1:] if "=" in t)
    return kv.get("ty") == "ipv" and kv.get("init") == "default" and kv.get("cap") not in (None, "0")


def classify(case, k, row):
    if k == 0 and is_ipv_default(case.lines[0]):
        return KNOWN_IPV
    return None


def group_of(case):
    return case.lines[0].split(" ")[0]


class _Theorems(dict):
    """operation -> theorems of Props.lean that speak about it (for the replay file)"""
    FAMILY = {"vec": ["vec_history_no_error", "vec_step_no_oob", "default_init_defined_partial", "life_vec_history_safe_no_lifetime_error"],
              "set": ["set_history_no_error", "set_step_no_oob", "set_lookup_no_oob", "life_set_history_safe_no_lifetime_error"], "bits": ["bitset_history_no_error", "bitset_step_no_oob"],
              "str": ["string_history_terminator_in_buffer", "string_history_no_error", "string_step_no_oob"],
              "sv": ["sv_find_no_oob", "sv_rfind_no_oob", "sv_compare_no_oob", "sv_copy_no_oob", "sv_substr_no_oob"],
              "alg": ["alg_*_no_oob"], "span": ["span_subspan_no_oob", "span_mdspan_access_no_oob", "span_mdspan_offset_in_span"],
              "cc": ["charconv_toChars_no_oob", "charconv_fromChars_no_oob", "charconv_fromInteger_no_oob", "charconv_toInteger_no_oob"],
              "cs": ["cstr_*_no_oob"], "num": ["num_*_no_ub"], "chr": ["kernel_*_no_ub"]}

    def get(self, op, default=None):
        fam = op.split(".", 1)[0]
        return ["Tetl.C02.Props." + t for t in self.FAMILY.get(fam, [])] or (default or [])


THEOREMS = _Theorems()


def corollaries_status():
    """gen/c02_props.py --check: are the corollaries of Props.lean those of the CURRENT theorems of the other properties?
    -> (up_to_date, report)"""
    rc, out, err = lib.sh([sys.executable, os.path.join(lib.VERIF, "gen", "c02_props.py"), "--check"], timeout=120)
    return rc == 0, (out + err).strip()


def regenerate(ctx):
    """tie T for the kernel `_ub` theorems: the calendar kernels are regenerated from the current source.  The corollaries
    themselves are NOT rewritten by a check run (a check never edits theorem statements); a stale Props.lean is reported
    here, by name, and — when a cited theorem was renamed or its hypotheses changed — stops the build of
    TetlProofs.C02.Props with "C02 corollary out of date" (TetlProofs/C02/Lemmas.lean)."""
    ok, report = corollaries_status()
    if not ok:
        log("NOTE framework, not library: " + report.replace("\n", "\n  "))
    _LAST["corollaries_up_to_date"] = ok
    from props import c11
    return c11.regenerate(ctx)


# ------------------------------------------------------------------ compile-time leg

def ct_cases():
    src = open(os.path.join(lib.VERIF, CT_SOURCE)).read().splitlines()
    out = {}
    for n, ln in enumerate(src, 1):
        m = re.match(r"CT\((\w+),\s*(.*)\)\s*$", ln)
        if m:
            out[n] = (m.group(1), m.group(2))
    return out


def ct_leg(only=None):
    """Compile harness/c02_constexpr.cpp against $VERIF_REPO; returns (results, machinery_error).
    results: {id: {"ok": bool, "expr": str, "diagnostic": str}}"""
    cases = ct_cases()
    cmd = [lib.CXX] + CT_FLAGS + ["-I", os.path.join(lib.REPO, "include"), os.path.join(lib.VERIF, CT_SOURCE)]
    rc, out, err = lib.sh(cmd, timeout=900)
    res = {cid: {"ok": True, "expr": expr, "diagnostic": ""} for cid, expr in cases.values()}
    stray = []
    src_name = os.path.basename(CT_SOURCE)
    lines = err.splitlines()
    cur = None          # line of the CT case the current diagnostic block belongs to
    for i, ln in enumerate(lines):
        m = re.match(r".*%s:(\d+):\d+: (error|note|warning): (.*)" % re.escape(src_name), ln)
        in_inst = re.match(r".*%s:(\d+):\d+:\s+(required from here|in 'constexpr' expansion of.*)" % re.escape(src_name), ln)
        if in_inst and int(in_inst.group(1)) in cases:
            cur = int(in_inst.group(1))
            continue
        if m and m.group(2) == "error":
            n = int(m.group(1))
            if n in cases:
                cur = n
            if cur in cases:
                cid = cases[cur][0]
                res[cid]["ok"] = False
                msg = m.group(3)
                if "non-constant condition" not in msg or not res[cid]["diagnostic"]:
                    res[cid]["diagnostic"] = (res[cid]["diagnostic"] + " | " if res[cid]["diagnostic"] and "non-constant condition"
                                              not in res[cid]["diagnostic"] else "") + msg
            else:
                stray.append(ln.strip())
        elif " error: " in ln and src_name not in ln:
            # an error located in a library header: attribute to the case being expanded, else stray
            if cur in cases:
                cid = cases[cur][0]
                res[cid]["ok"] = False
                res[cid]["diagnostic"] = (res[cid]["diagnostic"] + " | " if res[cid]["diagnostic"] else "") + ln.split(" error: ", 1)[1]
            else:
                stray.append(ln.strip())
    if rc != 0 and all(r["ok"] for r in res.values()) and not stray:
        stray.append(err.strip()[-400:])
    if only:
        res = {k: v for k, v in res.items() if k in only}
    return res, stray


def _build_parts(src, out_name, extra_flags=(), repo=None, std_flags=None):
    """lib.build_harness replacement: harness/c02.cpp as five objects (-DC02_PART=0..4) compiled in parallel, then linked"""
    import concurrent.futures as cf
    repo = repo or lib.REPO
    os.makedirs(lib.BUILD, exist_ok=True)
    out = os.path.join(lib.BUILD, out_name)
    base = [lib.CXX] + (std_flags if std_flags is not None else lib.CXXFLAGS) + list(extra_flags) + \
        ["-I", os.path.join(repo, "include"), "-I", os.path.join(lib.VERIF, "harness")]
    objs = [os.path.join(lib.BUILD, "%s_part%d_%d.o" % (out_name, k, os.getpid())) for k in range(5)]

    def cc(k):
        return lib.sh(base + ["-DC02_PART=%d" % k, "-c", os.path.join(lib.VERIF, src), "-o", objs[k]], timeout=1800)
    try:
        with cf.ThreadPoolExecutor(max_workers=5) as ex:
            for rc, o, e in ex.map(cc, range(5)):
                if rc != 0:
                    return None, (o + e)
        rc, o, e = lib.sh([lib.CXX, "-fsanitize=address,undefined"] + objs + ["-o", out], timeout=600)
        if rc != 0:
            return None, (o + e)
        return out, ""
    finally:
        for f in objs:
            if os.path.exists(f):
                os.unlink(f)


# ------------------------------------------------------------------ thorough-tier leg: the other properties' streams under the C02 observers

# properties whose harness is one translation unit driven by the standard flow (generate -> harness | driver)
FOREIGN = ["C01", "C03", "C04", "C06", "C08", "C09", "C10", "C11", "C14", "C17", "C18", "C20"]
FOREIGN_CAP = 120000          # cases per property (a seeded sample of the stream beyond that)
OBS_FLAGS = ["-include", os.path.join(lib.VERIF, "harness", "c02_observe.hpp"), "-finstrument-functions",
             "-finstrument-functions-exclude-file-list=/usr/,proto.hpp,c02_observe.hpp", "-rdynamic",
             "-ftrivial-auto-var-init=pattern", "-fno-omit-frame-pointer",
             "-Wl,--wrap=longjmp,--wrap=_longjmp,--wrap=siglongjmp,--wrap=__longjmp_chk"]


def _foreign_mod(fp):
    import importlib
    return importlib.import_module("props." + fp.lower())


def _foreign_build(fp, fmod):
    flags = [f for f in getattr(fmod, "HARNESS_FLAGS", [])] + OBS_FLAGS
    return lib.build_harness(fmod.HARNESS, "c02_obs_%s_harness" % fp.lower(), flags)


def _read_stats(path):
    calls = allocs = 0
    where = set()
    if os.path.exists(path):
        for ln in open(path):
            kv = dict(t.split("=", 1) for t in ln.split() if "=" in t)
            calls += int(kv.get("guarded_calls", 0))
            allocs += int(kv.get("allocs", 0))
            if kv.get("where", "-") != "-":
                where.update(kv["where"].split(";"))
        os.unlink(path)
    return calls, allocs, sorted(where)


def _foreign_run(ctx, fmod, exe, cases, stats_path):
    env = dict(getattr(fmod, "HARNESS_ENV", None) or {})
    env["C02_STATS"] = stats_path
    results = lib.run_batch(ctx, cases, exe, fmod.DRIVER, harness_env=env)
    return results, _read_stats(stats_path)


def _alloc_case(ctx, fmod, exe, cases, stats_path):
    """smallest-index case of `cases` during which the library allocates (bisection on the stats file)"""
    lo, hi = 0, len(cases)
    while hi - lo > 1:
        mid = (lo + hi) // 2
        _, (_, allocs, _) = _foreign_run(ctx, fmod, exe, cases[lo:mid], stats_path)
        if allocs:
            hi = mid
        else:
            lo = mid
    return cases[lo]


def foreign_leg(ctx, only=None):
    """The union of the other properties' generator streams (their quick streams, seeded by this run) executed on THEIR
    harnesses built with the C02 observers (harness/c02_observe.hpp): allocation counting while a library function is on
    the stack, every automatic object of the harness pattern-filled, ASan/UBSan; values compared with the owning
    property's model and spec.  -> coverage entry"""
    import concurrent.futures as cf
    import random
    props = [fp for fp in FOREIGN if not only or fp in only]
    mods = {fp: _foreign_mod(fp) for fp in props}
    ok, out = lib.lake_build(sorted({m.DRIVER for m in mods.values()}))
    if not ok:
        raise lib.MachineryError("foreign-stream leg: drivers do not build: " + lib.first_lean_error(out))
    with cf.ThreadPoolExecutor(max_workers=6) as ex:
        built = dict(zip(props, ex.map(lambda fp: _foreign_build(fp, mods[fp]), props)))
    per, skipped = {}, {}
    stats_path = os.path.join(lib.BUILD, "c02_obs_stats_%s.txt" % ctx.run_id)
    for fp in props:
        exe, err = built[fp]
        fmod = mods[fp]
        if exe is None:
            # the harness of another property that does not compile with the observers is not a fact about the library
            skipped[fp] = "harness does not build with the observers: " + err.strip().splitlines()[-1][:200] if err.strip() else "build failed"
            log("NOTE foreign-stream leg: %s skipped (%s)" % (fp, skipped[fp]))
            continue
        t0 = time.time()
        cases, _, _ = fmod.generate("quick", ctx.seed)
        if len(cases) > FOREIGN_CAP:
            cases = random.Random(ctx.seed).sample(cases, FOREIGN_CAP)
        results, (calls, allocs, where) = _foreign_run(ctx, fmod, exe, cases, stats_path)
        fails = [f for f in lib.evaluate(cases, results) if f.kind in ("R1", "R3")]
        known = lib.load_known(fp)
        hits, reported = 0, 0
        for f in sorted(fails, key=lambda f: (len(f.case.text()), f.case.text())):
            fid = None
            try:
                fid = fmod.classify(f.case, f.line_idx, f.row)
            except Exception:       # noqa: the classifier of another property must not stop this leg
                fid = None
            if fid and known.get(fid, {}).get("status") == "known":
                hits += 1
                continue
            reported += 1
            if reported > 2:
                continue
            ctx.violation({"kind": "foreign_stream_case", "foreign": fp, "cases": f.case.lines, "failing_line": f.line_idx,
                           "impl": f.row.impl, "model": f.row.model, "spec": f.row.spec, "std": f.row.std,
                           "theorems": [], "lean_error": None, "source": lib.source_hashes(SOURCES),
                           "failing_input_found": True,
                           "explanation": "a case of the %s stream, run on harness/%s built with the C02 observers (pattern-filled automatic "
                                          "objects, ASan/UBSan, allocation hook), differs from the %s model/spec" % (fp, os.path.basename(fmod.HARNESS), fp)},
                          found=True)
        if allocs:
            case = _alloc_case(ctx, fmod, exe, cases, stats_path)
            ctx.violation({"kind": "foreign_alloc", "foreign": fp, "cases": case.lines, "impl": "alloc in " + ";".join(where),
                           "model": "no allocation", "spec": "no allocation", "std": "-", "theorems": [], "lean_error": None,
                           "source": lib.source_hashes(SOURCES), "failing_input_found": True,
                           "explanation": "%d allocations were made while a function of namespace etl was on the stack (innermost: %s) "
                                          "during the %s stream" % (allocs, ";".join(where), fp)}, found=True)
        per[fp] = {"cases": len(cases), "lines": sum(len(c.lines) for c in cases), "library_entries_observed": calls,
                   "allocations_under_library_frames": allocs, "known_finding_hits_of_owner": hits,
                   "unexplained_differences": reported, "wall_s": round(time.time() - t0, 1)}
        log("  foreign stream %s: %d cases, %d entries into the library observed, %d allocations, %d differences (%d known to %s), %.0fs"
            % (fp, len(cases), calls, allocs, reported, hits, fp, time.time() - t0))
    return {"how": "quick streams of the listed properties on their own harnesses compiled with -include harness/c02_observe.hpp "
                   "-finstrument-functions -ftrivial-auto-var-init=pattern (allocation hook armed while a function of namespace etl is "
                   "the innermost instrumented frame); values compared with the owners' drivers",
            "properties": per, "skipped": skipped,
            "library_entries_observed": sum(v["library_entries_observed"] for v in per.values()),
            "allocations_under_library_frames": sum(v["allocations_under_library_frames"] for v in per.values()),
            "lines": sum(v["lines"] for v in per.values())}


def foreign_replay(ctx, rp):
    fp = rp["foreign"]
    fmod = _foreign_mod(fp)
    ok, out = lib.lake_build([fmod.DRIVER])
    exe, err = _foreign_build(fp, fmod)
    if not ok or exe is None:
        log("MACHINERY-ERROR foreign replay: %s" % (err[-600:] if exe is None else lib.first_lean_error(out)))
        return 2
    case = Case(rp["cases"], "replay")
    stats_path = os.path.join(lib.BUILD, "c02_obs_stats_%s.txt" % ctx.run_id)
    results, (calls, allocs, where) = _foreign_run(ctx, fmod, exe, [case], stats_path)
    for ln, r in zip(case.lines, results[0]):
        log("%-50s impl=%s model=%s spec=%s std=%s" % (ln, r.impl, r.model, r.spec, r.std))
    log("library entries observed=%d allocations under library frames=%d %s" % (calls, allocs, ";".join(where)))
    bad = [f.kind for f in lib.evaluate([case], results) if f.kind in ("R1", "R3")]
    if rp["kind"] == "foreign_alloc":
        bad = ["alloc"] if allocs else []
    log("replay: %s" % ("FAILS " + ",".join(bad) if bad else "passes"))
    return 1 if bad else 0


def _standard(mod, ctx, replay):
    import __main__ as chk
    if not hasattr(chk, "standard"):
        import check as chk
    orig = lib.build_harness
    lib.build_harness = _build_parts
    try:
        return chk.standard(mod, ctx, replay)
    finally:
        lib.build_harness = orig


def run(ctx, replay=None):
    mod = sys.modules[__name__]
    known = lib.load_known(PROP)
    stats_path = os.path.join(lib.BUILD, "c02_stats_%s.txt" % ctx.run_id)
    os.makedirs(lib.BUILD, exist_ok=True)
    HARNESS_ENV["C02_STATS"] = stats_path

    if replay:
        rp = json.load(open(replay))
        if rp.get("kind") == "compile_time_case":
            ids = [c.split("id=", 1)[1].split()[0] for c in rp["cases"]]
            res, stray = ct_leg(only=ids)
            for cid, r in res.items():
                log("ct id=%-28s %s %s" % (cid, "constant-expression" if r["ok"] else "REJECTED", r["diagnostic"]))
            bad = [cid for cid, r in res.items() if not r["ok"]]
            log("replay: %s" % ("FAILS " + ",".join(bad) if bad else "passes"))
            return 1 if bad else 0
        if rp.get("kind") in ("foreign_alloc", "foreign_stream_case"):
            return foreign_replay(ctx, rp)
        return _standard(mod, ctx, replay)

    # compile-time leg first: cheap, and its verdicts are independent of the run-time stream
    ct, stray = ct_leg()
    if stray:
        raise lib.MachineryError("compile-time leg does not compile against %s:\n  %s" % (lib.REPO, "\n  ".join(stray[:12])))
    ct_failed = {cid: r for cid, r in ct.items() if not r["ok"]}
    ct_reported = 0
    for cid, r in sorted(ct_failed.items()):
        fid = CT_KNOWN.get(cid)
        if fid and known.get(fid, {}).get("status") == "known":
            ctx.known(fid, known[fid].get("what", ""))
            continue
        ct_reported += 1
        if ct_reported > 3:          # one diagnostic usually repeats over the capacities: three replays are enough
            continue
        ctx.violation({"kind": "compile_time_case", "cases": ["ct id=%s" % cid], "expression": r["expr"],
                       "impl": "rejected by the constant evaluator: " + r["diagnostic"], "model": "constant expression, true",
                       "spec": "constant expression, true", "std": "-",
                       "theorems": [], "lean_error": None, "source": lib.source_hashes(SOURCES),
                       "failing_input_found": True,
                       "explanation": "static_assert(%s) in harness/c02_constexpr.cpp: g++ -std=c++20 -fsyntax-only says: %s"
                                      % (r["expr"], r["diagnostic"])}, found=True)

    if ct_reported > 3:
        log("  (%d further compile-time cases rejected, not listed: %s)" % (ct_reported - 3, sorted(c for c in ct_failed if c not in CT_KNOWN)[3:]))
    rc = _standard(mod, ctx, None)
    foreign = None
    if ctx.tier == "thorough" and rc in (0, 1):
        nv = len(ctx.violations)
        foreign = foreign_leg(ctx)
        if len(ctx.violations) > nv:
            rc = 1

    # observed-only clauses: counts measured on this run go into the evidence
    calls = allocs = news = 0
    if os.path.exists(stats_path):
        for ln in open(stats_path):
            kv = dict(t.split("=") for t in ln.split())
            calls += int(kv.get("guarded_calls", 0))
            allocs += int(kv.get("allocs", 0))
            news += int(kv.get("new_calls", 0))
        os.unlink(stats_path)
    ev_path = os.path.join(lib.EVID, PROP + ".json")
    if os.path.exists(ev_path):
        ev = json.load(open(ev_path))
        cov = ev["coverage"]
        cov["unproved_observed"] = [
            {"clause": "never calls a dynamic allocator",
             "observed": "%d guarded library calls executed with the allocation hooks armed; %d allocations seen (%d through operator new)"
                         % (calls, allocs, news),
             "guarded_library_calls": calls, "allocations_under_guard": allocs,
             "how": "sanitizer malloc hook + replaced operator new while a library call is on the stack (harness/c02_guard.hpp); "
                    "compile-time leg: an allocation is not a constant expression"},
            {"clause": "reads no uninitialised value",
             "observed": "%d default-initialised and %d value-initialised library objects created over poisoned exact-size heap chunks and "
                         "observed through their members; %d/%d compile-time cases accepted by the constant evaluator (rejected: %s)"
                         % (_LAST["default_init_objects"], _LAST["value_init_objects"], len(ct) - len(ct_failed), len(ct),
                            sorted(ct_failed) or "none"),
             "default_initialised_objects": _LAST["default_init_objects"],
             "how": "0xAA-poisoned heap chunks + -ftrivial-auto-var-init=pattern, values compared with the model; GCC's constant evaluator "
                    "rejects reads of indeterminate values; proved part: Tetl.C02.Props.default_init_defined_partial"}]
        cov["compile_time_leg"] = {"cases": len(ct), "accepted": len(ct) - len(ct_failed),
                                   "rejected": {cid: r["diagnostic"] for cid, r in ct_failed.items()},
                                   "known": {cid: CT_KNOWN[cid] for cid in ct_failed if cid in CT_KNOWN},
                                   "cmd": " ".join([lib.CXX] + CT_FLAGS + ["-I $VERIF_REPO/include", CT_SOURCE])}
        if foreign is not None:
            cov["foreign_streams_under_c02_observers"] = foreign
            cov["evaluations"] = cov.get("evaluations", 0) + foreign["lines"]
            cov["unproved_observed"][0]["foreign_streams"] = ("%d entries into the library observed on the other properties' streams, %d allocations"
                                                              % (foreign["library_entries_observed"], foreign["allocations_under_library_frames"]))
        cov["corollaries_follow_current_theorems"] = _LAST["corollaries_up_to_date"]   # gen/c02_props.py --check on this run
        cov["evaluations"] = cov.get("evaluations", 0) + len(ct)
        ev["violations"] = len(ctx.violations)
        ev["wall_s"] = round(time.time() - ctx.t0, 2)       # compile-time leg and foreign-stream leg included
        json.dump(ev, open(ev_path, "w"), indent=1)
    if allocs and rc == 0:
        log("MACHINERY-ERROR %d allocations under the guard were counted but no line reported them" % allocs)
        return 2
    return rc


CLAIMED = True
TECHNIQUE = ("Lean 4 proof (safety corollaries of the owning properties' refinement theorems + `_ub` obligations of the regenerated calendar "
             "kernels) + differential boundary run under ASan/UBSan with exact-size heap objects, allocation hooks and poisoned "
             "default-initialisation + compile-time leg (GCC constant evaluator)")
LEVEL_TEXT = ("For every modelled operation of the containers, strings and views, algorithms, character conversion, C-string functions and "
              "bit/numeric helpers it is proved in Lean 4 — for all inputs, states, valid histories and capacities, no size bound — that the "
              "model, which reads and writes only through checked accessors, never returns an error (no access outside the object's inline "
              "storage or the caller's ranges, no violated internal precondition, no invalid shift or signed overflow in the integer models), "
              "as corollaries of the refinement theorems of the owning properties, and that on every valid history of the owning containers no "
              "element is used after its destruction, constructed over a live one or destroyed twice (corollaries of C03); the undefined-behaviour obligations of the calendar kernels "
              "regenerated from the source are proved; every state member read by member functions of a default-initialised object is proved "
              "to have an initializer, except inplace_vector's size (known finding, counterexample proved). The models are tied to the "
              "current source on every run by a boundary stream of valid operations executed on tetl, libstdc++/glibc, model and spec, with "
              "every object and caller range on an exact-size heap chunk under ASan/UBSan, and by a compile-time leg.")
LEVEL_NOTE = ("Partial: 'never calls a dynamic allocator' and 'reads no uninitialised value' have no content in a functional model; they are "
              "observed on every run (allocation hooks armed during every library call; poisoned default-initialised objects; GCC's constant "
              "evaluator) and reported under coverage.unproved_observed with the counts, never as proved. Trusted: Lean kernel + "
              "propext/Classical.choice/Quot.sound; the fidelity of the owning properties' hand models outside the explored inputs; "
              "gen/translate.py; g++-12 ASan/UBSan and constant evaluator. Operations without a safety theorem are listed in "
              "coverage.correspondence_only.")
# modelled/observed operations whose safety is NOT covered by a theorem of Props.lean (differential run only)
CORRESPONDENCE_ONLY = [
    "C-library number parsers strtol/strtoul/atoi… inside C10's known-finding classes (leading '+', base prefix, out-of-range, '-' on unsigned): "
    "only charconv_strto_no_oob_partial / charconv_strto_auto_no_oob_partial / charconv_cstrto_no_oob_partial / charconv_ato_no_oob_partial",
    "to_floating_point / from_floating_point (strtod family): no model",
    "cctype / cwctype predicates: total functions over int, no buffer (C18 proves their values; nothing to state for C02 beyond UBSan observation)",
    "integer comparison helpers cmp_less … in_range (C14): total functions, no error case in the model",
    "bitset::to_ulong/to_ullong: the 'value fits' contract and the two loops are modelled and proved for C17 "
    "(Tetl.C17.Props.toUnsigned_eq / toUnsigned_overflow) and C05 (bsToU_eq); C02 has no corollary of its own for them",
    "span element access operator[]/front/back and array<T,N> members: observed by the run-time stream only",
    "inplace_string::replace family: safety only inside the hypotheses of C04's partial theorems (string_replace*_no_oob_partial; "
    "C04 known finding F-C04-replace-overwrites-only)",
    "mem* functions on overlapping or type-punned storage beyond C18's byte model",
]
UNPROVED_OBSERVED = ["never calls a dynamic allocator (observed: allocation hooks armed during every library call of the stream; compile-time leg)",
                     "reads no uninitialised value (observed: poisoned default-initialised objects, -ftrivial-auto-var-init=pattern, constant "
                     "evaluator; proved only as Tetl.C02.Props.default_init_defined_partial over the hand-read member table)"]
