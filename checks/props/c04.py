"""C04 — inplace_string matches std::string and is always null-terminated (DESIGN §4 C04)."""
import concurrent.futures as cf
import itertools
import os
import random
import sys

import lib
from lib import Case, fmt_list

PROP = "C04"
DRIVER = "drv-c04"
PROOF_MODULES = ["TetlProofs.C04.Props"]
HARNESS = "harness/c04.cpp"
SOURCES = ["include/etl/_string/basic_inplace_string.hpp", "include/etl/_string/char_traits.hpp",
           "include/etl/_string/str_replace.hpp", "include/etl/_strings/find.hpp", "include/etl/_strings/rfind.hpp",
           "include/etl/_string_view/basic_string_view.hpp", "include/etl/_algorithm/rotate.hpp",
           "include/etl/_algorithm/swap_ranges.hpp", "include/etl/_algorithm/remove_if.hpp",
           "include/etl/_type_traits/smallest_size_t.hpp"]
RULE = ("histories `new cap ct` + operations on two strings. Exhaustive box: capacities 3 (tiny layout) and 16 (normal layout), "
        "every string of length <= 3 (quick: <= 2 for the wide families) over {a,b,0xC8} as receiver, every string of length <= 2 "
        "over {a,NUL,0xC8} as argument, every overload of every member (pointer+count / C string / iterator pair / view / "
        "sub-view / string / sub-string / char / fill), every index, pos and count in [0,size+1] plus npos plus the default "
        "argument; the same members called with the string itself as argument (s.append(s), s += s, s.append(s,pos,count), "
        "s.append(s.data()+off,n), s.insert(i,s), s.insert(i,s,pos,count), s.insert(i,s.data()+off,n), s.assign(s), s = s, "
        "s.assign(s,pos,count), s.assign(s.data()+off,n)) with every pos/count/off/n; erase_if with seven predicates. Random: seeded histories of 12-40 operations for each of 32 (character type, capacity) pairs - char at "
        "0,1,2,3,7,15,16,31,254,255,256 and wchar_t/char8_t/char16_t/char32_t at five capacities each on both sides of the "
        "layout switch - with positions biased to 0, size, size+1, capacity-size and npos. After every operation the return "
        "value and size(), contents and data()[size()]==0 of BOTH strings are compared. A case is non-trivial when it reaches "
        "a non-empty string and executes at least one operation that is neither `pre` nor a plain state query; distinct = "
        "distinct case text.")
ASSUMPTIONS = ["std::basic_string of libstdc++ 12 is the reference for spec validation (R2)",
               "default build of tetl (TETL_PRECONDITION compiled out); calls that std defines as throwing/UB and assign/constructor "
               "calls with len > Capacity are outside the compared domain (all four sides print `pre`)",
               "strings are modelled as unsigned code units (32-bit patterns for wchar_t); wchar_t is signed on this platform, so the "
               "driver evaluates compare / relational lines of ct=wchar on the images under u -> (u + 2^31) mod 2^32 (order "
               "isomorphism from the signed to the natural order; `ordKey` in Tetl/C04/Driver.lean); negative wchar_t units are "
               "generated in the unit-order group, the random histories keep units below 2^31",
               "self-aliasing arguments are explored for assign/append/+=/insert (whole string, sub-string, pointer into the "
               "characters [data(), data()+size()]); replace, the C-string overloads and pointers that include the terminator are "
               "never called with a pointer into the string they modify"]
TRUSTED = ["hand model Tetl/C04/Model.lean (+ Tetl/C08/Model.lean for the delegated searches) tied to the source by the correspondence run (R1) on every run",
           "spec Tetl/C04/Spec.lean validated against libstdc++ std::basic_string (R2) on every run"]
_STEP = ["Tetl.C04.Props.step_rep", "Tetl.C04.Props.inv_step", "Tetl.C04.Props.refines_step", "Tetl.C04.Props.overload_arg_eq"]
_ALIAS = _STEP + ["Tetl.C04.Props.self_alias_eq"]
THEOREMS = {op: _STEP for op in ("ctor", "clear", "push_back", "pop_back", "erase", "erase_value", "resize")}
THEOREMS.update({op: _ALIAS for op in ("assign", "opassign", "append", "pluseq", "insert")})
_ARG = ["Tetl.C04.Props.overload_arg_eq", "Tetl.C04.Props.chars_eq"]
THEOREMS.update({"find": ["Tetl.C04.Props.find_eq"] + _ARG,
                 "rfind": ["Tetl.C04.Props.rfind_partial", "Tetl.C04.Props.rfind_default_is_zero",
                           "Tetl.C04.Props.rfind_default_counterexample"] + _ARG,
                 "find_first_of": ["Tetl.C04.Props.find_first_of_eq"] + _ARG,
                 "find_first_not_of": ["Tetl.C04.Props.find_first_not_of_eq"] + _ARG,
                 "find_last_of": ["Tetl.C04.Props.find_last_of_eq"] + _ARG,
                 "find_last_not_of": ["Tetl.C04.Props.find_last_not_of_eq"] + _ARG,
                 "starts_with": ["Tetl.C04.Props.starts_with_eq"] + _ARG,
                 "ends_with": ["Tetl.C04.Props.ends_with_eq"] + _ARG,
                 "contains": ["Tetl.C04.Props.contains_eq"] + _ARG,
                 "copy": ["Tetl.C04.Props.copy_eq"],
                 "at": ["Tetl.C04.Props.at_eq"], "front": ["Tetl.C04.Props.front_eq"], "back": ["Tetl.C04.Props.back_eq"],
                 "plus": ["Tetl.C04.Props.plus_str_str_eq", "Tetl.C04.Props.plus_str_cstr_eq", "Tetl.C04.Props.plus_str_char_eq",
                          "Tetl.C04.Props.plus_cstr_str_eq", "Tetl.C04.Props.plus_char_str_eq"],
                 "erase_if": ["Tetl.C04.Props.erase_if_eq"],
                 "replace": ["Tetl.C04.Props.replace_overwrites", "Tetl.C04.Props.replace_partial", "Tetl.C04.Props.replace_ptr_partial",
                             "Tetl.C04.Props.replace_iter_partial", "Tetl.C04.Props.replace_iter_fill_partial",
                             "Tetl.C04.Props.replace_counterexample", "Tetl.C04.Props.replace_breaks_terminator_counterexample"]})
THEOREMS.update({"swap": ["Tetl.C04.Props.swap_eq"], "substr": ["Tetl.C04.Props.substr_eq"],
                 "compare": ["Tetl.C04.Props.compare_sign", "Tetl.C04.Props.compare_pos_count_eq",
                             "Tetl.C04.Props.compare_pos_count_pos_count_eq", "Tetl.C04.Props.compare_wide_signed"],
                 "rel": ["Tetl.C04.Props.compare_sign", "Tetl.C04.Props.compare_wide_signed"], "new": ["Tetl.C04.Props.mk0_rep"],
                 "state": ["Tetl.C04.Props.inv_history"], "raw": ["Tetl.C04.Props.inv_history"]})
SEARCH_CAP = 400000

NPARTS = 16

# (character type, capacity) pairs instantiated by harness/c04.cpp
INSTANCES = [("char", c) for c in (0, 1, 2, 3, 7, 15, 16, 31, 254, 255, 256)] + \
            [("wchar", c) for c in (1, 3, 7, 15, 16, 256)] + [("c8", c) for c in (0, 7, 15, 16, 255)] + \
            [("c16", c) for c in (1, 7, 15, 16, 31)] + [("c32", c) for c in (0, 7, 15, 16, 256)]
HI = {"char": 200, "wchar": 0x7FFFFFF0, "c8": 200, "c16": 0xFFF0, "c32": 0xFFFFFFF0}


# ------------------------------------------------------------------ harness build (parallel slices)

def build_parallel(src, out_name, extra_flags=(), repo=None, std_flags=None):
    repo = repo or lib.REPO
    os.makedirs(lib.BUILD, exist_ok=True)
    out = os.path.join(lib.BUILD, out_name)
    base = [lib.CXX] + (std_flags if std_flags is not None else lib.CXXFLAGS) + ["-g0"] + list(extra_flags) + \
        ["-DC04_NPARTS=%d" % NPARTS, "-I", os.path.join(repo, "include"), "-I", os.path.join(lib.VERIF, "harness")]
    tag = "%d" % os.getpid()

    def one(i):
        obj = os.path.join(lib.BUILD, "c04_%s_%d.o" % (tag, i))
        rc, o, e = lib.sh(base + ["-DC04_PART=%d" % i, "-c", os.path.join(lib.VERIF, src), "-o", obj], timeout=1800)
        return rc, o + e, obj

    with cf.ThreadPoolExecutor(max_workers=NPARTS) as ex:
        res = list(ex.map(one, range(NPARTS)))
    objs = [r[2] for r in res]
    try:
        bad = [r for r in res if r[0] != 0]
        if bad:
            return None, bad[0][1]
        rc, o, e = lib.sh([lib.CXX, "-fsanitize=address,undefined"] + objs + ["-o", out], timeout=600)
        if rc != 0:
            return None, o + e
        return out, ""
    finally:
        for p in objs:
            if os.path.exists(p):
                os.unlink(p)


def run(ctx, replay):
    lib.build_harness = build_parallel
    ok, out = lib.lake_build(["TetlProofs.AuditLib"])       # the audit command of lib.audit imports it
    if not ok:
        raise lib.MachineryError("TetlProofs.AuditLib does not build: " + lib.first_lean_error(out))
    return sys.modules["__main__"].standard(sys.modules[__name__], ctx, replay)


# ------------------------------------------------------------------ generators

def strings(alpha, maxlen):
    for n in range(maxlen + 1):
        for t in itertools.product(alpha, repeat=n):
            yield list(t)


def L(xs):
    return fmt_list(xs)


def cstr_of(xs):
    return xs[:xs.index(0)] if 0 in xs else list(xs)


class Gen:
    def __init__(self):
        self.cases = []
        self.dist = {}

    def add(self, lines, tag):
        self.cases.append(Case(lines, tag))
        self.dist[tag] = self.dist.get(tag, 0) + 1


def setup(cap, x, y, ct="char"):
    return ["new cap=%d ct=%s" % (cap, ct),
            "assign obj=0 ov=ptrn s=%s n=%d" % (L(x), len(x)),
            "assign obj=1 ov=ptrn s=%s n=%d" % (L(y), len(y))]


def counts(n, with_default=True):
    """every count in [0, n+1], npos, and (None) the default argument"""
    return list(range(0, n + 2)) + ["npos"] + ([None] if with_default else [])


def arg_overloads(y, family):
    """(text of the overload selection, is-literal) for each overload of `family` taking the characters y (obj 1 holds y)."""
    out = []
    lit = "s=%s" % L(y)
    if family in ("assign", "append", "insert", "ctor"):
        for n in range(len(y) + 1):
            out.append("ov=ptrn %s n=%d" % (lit, n))
    if family in ("assign", "append", "insert", "ctor", "opassign", "pluseq"):
        out.append("ov=cstr " + lit)
        out.append("ov=view " + lit)
        out.append("ov=str")
    if family in ("assign", "append", "ctor"):
        out.append("ov=range " + lit)
    if family in ("opassign", "pluseq") and len(y) == 1:
        out.append("ov=ch ch=%d" % y[0])
    if family in ("assign", "append", "insert", "ctor"):
        sub = "strsubv" if family == "insert" else "strsub"
        for p2 in range(len(y) + 2):
            for c2 in counts(len(y)):
                if c2 is None and family == "ctor":
                    continue
                tail = "pos2=%d" % p2 + ("" if c2 is None else " count2=%s" % c2)
                out.append("ov=viewsub %s %s" % (lit, tail))
                out.append("ov=%s %s" % (sub, tail))
    if family in ("assign", "ctor"):
        out.append("ov=copy")
    if family == "ctor":
        for p2 in range(len(y) + 2):
            out.append("ov=strpos pos2=%d" % p2)
    return out


def exhaustive(g, cap, thorough):
    A = [97, 98, 200]
    B = [97, 0, 200]
    xs_all = list(strings(A, 3))
    xs_small = [x for x in xs_all if len(x) <= 2] + [[97, 98, 200], [98, 98, 98]]
    ys = list(strings(B, 2))
    t = "c%d/" % cap

    def X(wide):
        return xs_all if (thorough or not wide) else xs_small

    # ---- mutators with a sequence argument
    for fam in ("assign", "opassign", "ctor", "append", "pluseq"):
        for x in X(True):
            for y in ys:
                for sel in arg_overloads(y, fam):
                    g.add(setup(cap, x, y) + ["%s obj=0 %s" % (fam, sel), "state obj=0"], t + fam)
    for x in X(True):
        for y in ys:
            for idx in range(len(x) + 2):
                for sel in arg_overloads(y, "insert"):
                    g.add(setup(cap, x, y) + ["insert obj=0 idx=%d %s" % (idx, sel), "state obj=0"], t + "insert")
    for x in xs_all:
        y = [98]
        for cnt in range(0, cap + 2):
            g.add(setup(cap, x, y) + ["assign obj=0 ov=fill count=%d ch=120" % cnt, "state obj=0"], t + "assign/fill")
            g.add(setup(cap, x, y) + ["ctor obj=0 ov=fill count=%d ch=120" % cnt, "state obj=0"], t + "ctor/fill")
            g.add(setup(cap, x, y) + ["append obj=0 ov=fill count=%d ch=120" % cnt, "state obj=0"], t + "append/fill")
            g.add(setup(cap, x, y) + ["resize obj=0 count=%d ch=120" % cnt, "state obj=0"], t + "resize")
            g.add(setup(cap, x, y) + ["resize obj=0 count=%d" % cnt, "state obj=0"], t + "resize")
            for idx in range(len(x) + 2):
                g.add(setup(cap, x, y) + ["insert obj=0 idx=%d ov=fill count=%d ch=120" % (idx, cnt), "state obj=0"], t + "insert/fill")
        g.add(setup(cap, x, y) + ["append obj=0 ov=fill count=npos ch=120", "state obj=0"], t + "append/fill")
        g.add(setup(cap, x, y) + ["resize obj=0 count=npos ch=120", "state obj=0"], t + "resize")
        for c in (97, 200, 0):
            g.add(setup(cap, x, y) + ["push_back obj=0 ch=%d" % c, "state obj=0", "push_back obj=0 ch=%d" % c, "state obj=0"], t + "push_back")
            g.add(setup(cap, x, y) + ["pluseq obj=0 ov=ch ch=%d" % c, "state obj=0"], t + "pluseq")
            g.add(setup(cap, x, y) + ["opassign obj=0 ov=ch ch=%d" % c, "state obj=0"], t + "opassign")
            g.add(setup(cap, x, y) + ["erase_value obj=0 ch=%d" % c, "state obj=0"], t + "erase_value")
        g.add(setup(cap, x, y) + ["pop_back obj=0", "state obj=0", "pop_back obj=0", "state obj=0"], t + "pop_back")
        g.add(setup(cap, x, y) + ["clear obj=0", "state obj=0", "raw obj=0"], t + "clear")
        # erase
        for idx in list(range(len(x) + 2)) + [None]:
            for cnt in counts(len(x)):
                if idx is None and cnt is not None:
                    continue
                ln = "erase obj=0 ov=idx" + ("" if idx is None else " idx=%d" % idx) + ("" if cnt is None else " count=%s" % cnt)
                g.add(setup(cap, x, y) + [ln, "state obj=0"], t + "erase/idx")
        for p in range(len(x) + 1):
            g.add(setup(cap, x, y) + ["erase obj=0 ov=it pos=%d" % p, "state obj=0"], t + "erase/it")
        for f in range(len(x) + 2):
            for la in range(len(x) + 2):
                g.add(setup(cap, x, y) + ["erase obj=0 ov=range first=%d last=%d" % (f, la), "state obj=0"], t + "erase/range")
        # queries on one string: one history each (no known finding inside)
        q = ["info obj=0", "front obj=0", "back obj=0"]
        q += ["at obj=0 pos=%d" % p for p in range(len(x) + 2)]
        for p in list(range(len(x) + 2)) + [None]:
            for c in counts(len(x)):
                if p is None and c is not None:
                    continue
                q.append("substr obj=0" + ("" if p is None else " pos=%d" % p) + ("" if c is None else " count=%s" % c))
                if c is not None:
                    q.append("copy obj=0 count=%s" % c + ("" if p is None else " pos=%d" % p))
        g.add(setup(cap, x, y) + q, t + "access")
    # ---- erase_if
    for x in xs_all:
        for pr in ("eq v=97", "ne v=97", "lt v=98", "ge v=98", "eq v=200", "odd", "all", "none"):
            g.add(setup(cap, x, [98]) + ["erase_if obj=0 pred=%s" % pr, "state obj=0"], t + "erase_if")
    # ---- self-aliasing: the argument is (a part of) the string that is modified
    for x in X(True):
        n = len(x)
        subs, subvs, ptrs = [], [], []
        for p2 in range(n + 2):
            for c2 in counts(n):
                tail = "pos2=%d" % p2 + ("" if c2 is None else " count2=%s" % c2)
                subs.append("ov=selfsub " + tail)
                subvs.append("ov=selfsubv " + tail)
        for off in range(n + 2):
            for m in range(n + 2 - off):
                ptrs.append("ov=selfptr off=%d n=%d" % (off, m))
        for fam in ("assign", "append"):
            for sel in ["ov=self"] + subs + ptrs:
                g.add(setup(cap, x, [98]) + ["%s obj=0 %s" % (fam, sel), "state obj=0", "raw obj=0"], t + fam + "/self")
        for fam in ("opassign", "pluseq"):
            g.add(setup(cap, x, [98]) + ["%s obj=0 ov=self" % fam, "state obj=0", "%s obj=0 ov=self" % fam, "state obj=0"], t + fam + "/self")
        for idx in range(n + 2):
            for sel in ["ov=self"] + subvs + ptrs:
                g.add(setup(cap, x, [98]) + ["insert obj=0 idx=%d %s" % (idx, sel), "state obj=0", "raw obj=0"], t + "insert/self")
    # ---- swap, plus, compare, rel: two strings
    for x in xs_all:
        for y in xs_all if thorough else xs_small:
            g.add(["new cap=%d ct=char" % cap, "assign obj=0 ov=ptrn s=%s n=%d" % (L(x), len(x)),
                   "assign obj=1 ov=ptrn s=%s n=%d" % (L(y), len(y)), "swap obj=0 ov=member", "raw obj=0", "raw obj=1",
                   "push_back obj=0 ch=113", "state obj=1", "swap obj=1 ov=free", "state obj=0"], t + "swap")
    for x in X(True):
        for y in ys:
            lit = "s=%s" % L(y)
            q = ["plus obj=0 ov=strstr", "plus obj=0 ov=strcstr " + lit, "plus obj=0 ov=cstrstr " + lit,
                 "plus obj=0 ov=strch ch=200", "plus obj=0 ov=chstr ch=200",
                 "rel obj=0 ov=strstr", "rel obj=0 ov=strcstr " + lit, "rel obj=0 ov=cstrstr " + lit,
                 "compare obj=0 ov=str", "compare obj=0 ov=cstr " + lit, "compare obj=0 ov=view " + lit]
            for fam in ("starts_with", "ends_with", "contains"):
                q += ["%s obj=0 ov=view %s" % (fam, lit), "%s obj=0 ov=cstr %s" % (fam, lit)]
                if len(y) == 1:
                    q.append("%s obj=0 ov=ch ch=%d %s" % (fam, y[0], lit))
            for p1 in range(len(x) + 2):
                for c1 in counts(len(x), False):
                    pc = "pos=%d count=%s" % (p1, c1)
                    q += ["compare obj=0 ov=str3 " + pc, "compare obj=0 ov=cstr3 %s %s" % (pc, lit),
                          "compare obj=0 ov=view3 %s %s" % (pc, lit)]
                    for n in range(len(y) + 1):
                        q.append("compare obj=0 ov=ptrn4 %s %s n=%d" % (pc, lit, n))
                    if len(x) <= 2 or thorough:
                        for p2 in range(len(y) + 2):
                            for c2 in counts(len(y)):
                                tail = "pos2=%d" % p2 + ("" if c2 is None else " count2=%s" % c2)
                                q += ["compare obj=0 ov=str5 %s %s" % (pc, tail), "compare obj=0 ov=view5 %s %s %s" % (pc, lit, tail)]
            g.add(setup(cap, x, y) + q, t + "compare")
            # searches
            q = []
            for fam in ("find", "find_first_of", "find_first_not_of", "find_last_of", "find_last_not_of", "rfind"):
                for p in list(range(len(x) + 3)) + ["npos", None]:
                    if fam == "rfind" and p is None:
                        continue                      # default pos of rfind: known finding, separate cases below
                    ps = "" if p is None else " pos=%s" % p
                    q.append("%s obj=0 ov=str%s" % (fam, ps))
                    if not (fam == "find_first_not_of" and p is None):
                        q.append("%s obj=0 ov=cstr %s%s" % (fam, lit, ps))
                    if len(y) == 1:
                        q.append("%s obj=0 ov=ch ch=%d %s%s" % (fam, y[0], lit, ps))
                    if p is not None:
                        for n in range(len(y) + 1):
                            q.append("%s obj=0 ov=ptrn %s n=%d%s" % (fam, lit, n, ps))
                    if fam == "find_first_of":
                        q.append("%s obj=0 ov=view %s%s" % (fam, lit, ps))
            g.add(setup(cap, x, y) + q, t + "search")
            g.add(setup(cap, x, y) + ["rfind obj=0 ov=str"], t + "rfind/default")
            g.add(setup(cap, x, y) + ["rfind obj=0 ov=cstr s=%s" % L(y)], t + "rfind/default")
            if len(y) == 1:
                g.add(setup(cap, x, y) + ["rfind obj=0 ov=ch ch=%d s=%s" % (y[0], L(y))], t + "rfind/default")
    # ---- replace (overwrite-only family, known finding when the replacement length differs from min(count, size()-pos));
    #      counts beyond size()-pos (size()-pos+1 and npos) make the overwrite run past size(): same known class
    overflow_kept = 0
    for x in X(True):
        for y in ys:
            lit = "s=%s" % L(y)
            for p in range(len(x) + 2):
                inside = list(range(len(x) - p + 1)) if p <= len(x) else [0]
                beyond = [len(x) - p + 1, "npos"] if p <= len(x) else []
                for c in inside + beyond:
                    if c in inside:
                        variants = [("ov=str pos=%d count=%d" % (p, c), y), ("ov=cstr pos=%d count=%d %s" % (p, c, lit), cstr_of(y)),
                                    ("ov=itstr first=%d last=%d" % (p, p + c), y), ("ov=itcstr first=%d last=%d %s" % (p, p + c, lit), cstr_of(y)),
                                    ("ov=itfill first=%d last=%d count2=%d ch=120" % (p, p + c, c), [120] * c),
                                    ("ov=itfill first=%d last=%d count2=%d ch=120" % (p, p + c, c + 1), [120] * (c + 1))]
                        for n in range(len(y) + 1):
                            variants.append(("ov=ptrn pos=%d count=%d %s n=%d" % (p, c, lit, n), y[:n]))
                            variants.append(("ov=itptrn first=%d last=%d %s n=%d" % (p, p + c, lit, n), y[:n]))
                        for p2 in range(len(y) + 1):
                            for c2 in range(len(y) - p2 + 1):
                                variants.append(("ov=str5 pos=%d count=%d pos2=%d count2=%d" % (p, c, p2, c2), y[p2:p2 + c2]))
                    else:
                        variants = [("ov=str pos=%d count=%s" % (p, c), y), ("ov=cstr pos=%d count=%s %s" % (p, c, lit), cstr_of(y)),
                                    ("ov=ptrn pos=%d count=%s %s n=%d" % (p, c, lit, len(y)), y),
                                    ("ov=str5 pos=%d count=%s pos2=0 count2=%d" % (p, c, len(y)), y)]
                    for sel, repl in variants:
                        if c == "npos" and p + len(repl) > cap + 1:
                            # the overwrite leaves the object (heap-buffer-overflow under ASan): keep two such cases per capacity
                            # only, a sanitizer abort costs a process restart and lib.run_harness gives up after 40 per chunk
                            if overflow_kept >= 2:
                                continue
                            overflow_kept += 1
                        known = p <= len(x) and replace_known(len(x), p, c, len(repl))
                        g.add(setup(cap, x, y) + ["replace obj=0 %s" % sel, "state obj=0"], t + "replace" + ("/known" if known else ""))


def replace_known(size, pos, count, repl_len):
    """the class of F-C04-replace-overwrites-only: the replacement does not have the length of the replaced range"""
    c = 2 ** 64 - 1 if count == "npos" else count
    return repl_len != min(c, size - pos)


def _kv(line):
    return dict(t.split("=", 1) for t in line.split(" ")[1:] if "=" in t)


def _lst(txt):
    txt = txt.strip("[]")
    return [int(v) for v in txt.split(",")] if txt else []


def replace_class(lines, k):
    """Recompute, from the case text alone, whether the `replace` line k is in the known class.  Only prefixes made of
    `new` / `assign ov=ptrn` / `state` / `raw` lines are understood (the exhaustive replace cases and the finding's witness);
    anything else returns False, so a failing replace elsewhere is reported as a violation."""
    cur = [[], []]
    for ln in lines[:k]:
        op = ln.split(" ")[0]
        a = _kv(ln)
        if op == "new":
            cur = [[], []]
        elif op == "assign" and a.get("ov") == "ptrn":
            cur[int(a.get("obj", 0))] = _lst(a["s"])[: int(a["n"])]
        elif op in ("state", "raw"):
            pass
        else:
            return False
    a = _kv(lines[k])
    ov = a.get("ov", "")
    obj = int(a.get("obj", 0))
    x, o = cur[obj], cur[1 - obj]
    num = lambda key, d=0: (2 ** 64 - 1 if a[key] == "npos" else int(a[key])) if key in a else d
    if ov.startswith("it"):
        f, la = num("first"), num("last")
        if f > la or la > len(x):
            return False
        p, c = f, la - f
    else:
        p, c = num("pos"), num("count")
        if p > len(x):
            return False
    if ov in ("str", "itstr"):
        rl = len(o)
    elif ov == "str5":
        p2, c2 = num("pos2"), num("count2", 2 ** 64 - 1)
        if p2 > len(o):
            return False
        rl = min(c2, len(o) - p2)
    elif ov in ("ptrn", "itptrn"):
        rl = num("n")
        if rl > len(_lst(a.get("s", "[]"))):
            return False
    elif ov in ("cstr", "itcstr"):
        rl = len(cstr_of(_lst(a.get("s", "[]"))))
    elif ov == "itfill":
        rl = num("count2")
    else:
        return False
    return replace_known(len(x), p, c, rl)


class Sim:
    """tracks the two strings the way tetl (after the fixes) behaves; only used to pick interesting arguments"""

    def __init__(self, cap):
        self.cap = cap
        self.s = [[], []]

    def append(self, k, xs):
        self.s[k] = self.s[k] + xs[: self.cap - len(self.s[k])]

    def insert(self, k, idx, xs):
        if idx <= len(self.s[k]):
            xs = xs[: self.cap - len(self.s[k])]
            self.s[k] = self.s[k][:idx] + xs + self.s[k][idx:]

    def assign(self, k, xs):
        if len(xs) <= self.cap:
            self.s[k] = list(xs)


def history(rnd, ct, cap, length):
    hi = HI[ct]
    alpha = rnd.choice([[97, 98], [97, 98, hi, 0], [1, hi, hi - 1], [97, 98, 99, 100, 101]] +
                       ([[0xFF, 0x100, 0x1FE, 0x201]] if ct in ("c16", "c32", "wchar") else [[0x7F, 0x80, 0xFF]]))
    sim = Sim(cap)
    lines = ["new cap=%d ct=%s" % (cap, ct)]

    def chars(n):
        return [rnd.choice(alpha) for _ in range(n)]

    def some_len():
        r = rnd.random()
        room = cap - len(sim.s[0])
        if r < 0.25:
            return rnd.randint(0, 3)
        if r < 0.5:
            return max(0, room + rnd.choice([-1, 0, 0, 1]))
        if r < 0.6:
            return cap
        return rnd.randint(0, min(cap + 1, 40))

    def posn(n):
        return rnd.choice([0, 0, n, n, max(n - 1, 0), rnd.randint(0, n), rnd.randint(0, n), n + 1])

    def cnt(n):
        return rnd.choice([0, 1, n, rnd.randint(0, n + 1), "npos", "npos", n + 1])

    def argsel(k, fam, xs):
        """choose an overload that denotes xs (or a part of it); returns (text, denoted)"""
        o = sim.s[1 - k]
        choices = ["ptrn", "view", "cstr"]
        if fam in ("assign", "append", "ctor"):
            choices += ["range", "viewsub"]
        if fam == "insert":
            choices += ["viewsub"]
        if fam in ("assign", "append", "insert", "ctor", "pluseq", "opassign"):
            choices += ["str", "str"]
        if fam in ("assign", "append", "ctor"):
            choices += ["strsub"]
        if fam == "insert":
            choices += ["strsubv"]
        if fam in ("pluseq", "opassign"):
            choices = ["cstr", "view", "str", "ch"]
        ov = rnd.choice(choices)
        lit = "s=%s" % L(xs)
        if ov == "ptrn":
            n = rnd.choice([len(xs), len(xs), rnd.randint(0, len(xs))])
            return "ov=ptrn %s n=%d" % (lit, n), xs[:n]
        if ov == "cstr":
            return "ov=cstr " + lit, cstr_of(xs)
        if ov in ("view", "range"):
            return "ov=%s %s" % (ov, lit), xs
        if ov == "ch":
            c = rnd.choice(alpha)
            return "ov=ch ch=%d" % c, [c]
        if ov == "viewsub":
            p2 = posn(len(xs))
            c2 = cnt(len(xs))
            d = None if p2 > len(xs) else (xs[p2:] if c2 == "npos" else xs[p2:p2 + c2])
            if rnd.random() < 0.2 and fam != "ctor":
                return "ov=viewsub %s pos2=%d" % (lit, p2), (None if p2 > len(xs) else xs[p2:])
            return "ov=viewsub %s pos2=%d count2=%s" % (lit, p2, c2), d
        if ov == "str":
            return "ov=str", o
        p2 = posn(len(o))
        c2 = cnt(len(o))
        d = None if p2 > len(o) else (o[p2:] if c2 == "npos" else o[p2:p2 + c2])
        if rnd.random() < 0.2 and fam != "ctor":
            return "ov=%s pos2=%d" % (ov, p2), (None if p2 > len(o) else o[p2:])
        return "ov=%s pos2=%d count2=%s" % (ov, p2, c2), d

    def selfsel(k, fam):
        """the string itself (or a part of it) as argument; returns (text, denoted)"""
        me = sim.s[k]
        m = len(me)
        ov = "self" if fam in ("pluseq", "opassign") else rnd.choice(["self", "sub", "ptr"])
        if ov == "self":
            return "ov=self", list(me)
        if ov == "sub":
            p2 = posn(m)
            c2 = cnt(m)
            d = None if p2 > m else (me[p2:] if c2 == "npos" else me[p2:p2 + c2])
            return "ov=%s pos2=%d count2=%s" % ("selfsubv" if fam == "insert" else "selfsub", p2, c2), d
        off = rnd.randint(0, m)
        ln = rnd.randint(0, m - off)
        return "ov=selfptr off=%d n=%d" % (off, ln), me[off:off + ln]

    for _ in range(length):
        k = 0 if rnd.random() < 0.75 else 1
        s = sim.s[k]
        n = len(s)
        r = rnd.random()
        if r < 0.10:
            fam = rnd.choice(["assign", "assign", "ctor", "opassign"])
            if rnd.random() < 0.15 and fam != "opassign":
                c = rnd.randint(0, cap + 1) if rnd.random() < 0.3 else rnd.randint(0, cap)
                lines.append("%s obj=%d ov=fill count=%d ch=%d" % (fam, k, c, alpha[0]))
                sim.assign(k, [alpha[0]] * c)
            elif rnd.random() < 0.1 and fam != "opassign":
                lines.append("%s obj=%d ov=copy" % (fam, k))
                sim.assign(k, sim.s[1 - k])
            else:
                if fam != "ctor" and rnd.random() < 0.12:
                    sel, d = selfsel(k, fam)
                else:
                    sel, d = argsel(k, fam, chars(min(some_len(), cap + 1)))
                lines.append("%s obj=%d %s" % (fam, k, sel))
                if d is not None:
                    sim.assign(k, d)
        elif r < 0.28:
            fam = rnd.choice(["append", "append", "pluseq"])
            if rnd.random() < 0.2:
                c = rnd.choice([some_len(), some_len(), "npos"])
                ch = rnd.choice(alpha)
                if fam == "pluseq":
                    lines.append("pluseq obj=%d ov=ch ch=%d" % (k, ch))
                    sim.append(k, [ch])
                else:
                    lines.append("append obj=%d ov=fill count=%s ch=%d" % (k, c, ch))
                    sim.append(k, [ch] * (cap + 1 if c == "npos" else c))
            else:
                sel, d = selfsel(k, fam) if rnd.random() < 0.15 else argsel(k, fam, chars(some_len()))
                lines.append("%s obj=%d %s" % (fam, k, sel))
                if d is not None:
                    sim.append(k, d)
        elif r < 0.40:
            idx = posn(n)
            if rnd.random() < 0.2:
                c = rnd.randint(0, 4) if rnd.random() < 0.7 else max(0, cap - n + rnd.choice([-1, 0, 1]))
                c = min(c, 300)
                ch = rnd.choice(alpha)
                lines.append("insert obj=%d idx=%d ov=fill count=%d ch=%d" % (k, idx, c, ch))
                sim.insert(k, idx, [ch] * c)
            else:
                sel, d = selfsel(k, "insert") if rnd.random() < 0.15 else argsel(k, "insert", chars(some_len()))
                lines.append("insert obj=%d idx=%d %s" % (k, idx, sel))
                if d is not None:
                    sim.insert(k, idx, d)
        elif r < 0.50:
            v = rnd.random()
            if v < 0.45:
                idx = posn(n)
                c = cnt(n - min(idx, n))
                lines.append("erase obj=%d ov=idx idx=%d count=%s" % (k, idx, c))
                if idx <= n:
                    e = n - idx if c == "npos" else min(c, n - idx)
                    sim.s[k] = s[:idx] + s[idx + e:]
            elif v < 0.7 and n > 0:
                p = rnd.randint(0, n - 1)
                lines.append("erase obj=%d ov=it pos=%d" % (k, p))
                sim.s[k] = s[:p] + s[p + 1:]
            elif v < 0.9:
                f = rnd.randint(0, n)
                la = rnd.choice([n, f, rnd.randint(f, n)])
                lines.append("erase obj=%d ov=range first=%d last=%d" % (k, f, la))
                sim.s[k] = s[:f] + s[la:]
            elif rnd.random() < 0.5:
                c = rnd.choice(alpha)
                lines.append("erase_value obj=%d ch=%d" % (k, c))
                sim.s[k] = [u for u in s if u != c]
            else:
                c = rnd.choice(alpha)
                pr = rnd.choice(["eq", "ne", "lt", "ge", "odd", "all", "none"])
                lines.append("erase_if obj=%d pred=%s v=%d" % (k, pr, c))
                f = {"eq": lambda u: u == c, "ne": lambda u: u != c, "lt": lambda u: u < c, "ge": lambda u: u >= c,
                     "odd": lambda u: u % 2 == 1, "all": lambda u: True, "none": lambda u: False}[pr]
                sim.s[k] = [u for u in s if not f(u)]
        elif r < 0.58:
            v = rnd.random()
            if v < 0.35:
                c = rnd.choice(alpha)
                lines.append("push_back obj=%d ch=%d" % (k, c))
                sim.append(k, [c])
            elif v < 0.6 and n > 0:
                lines.append("pop_back obj=%d" % k)
                sim.s[k] = s[:-1]
            elif v < 0.7:
                lines.append("clear obj=%d" % k)
                sim.s[k] = []
            else:
                c = rnd.choice([0, n, max(n - 1, 0), n + 1, cap, cap + 1, rnd.randint(0, cap + 1), "npos"])
                ch = rnd.choice(alpha)
                lines.append("resize obj=%d count=%s" % (k, c) + (" ch=%d" % ch if rnd.random() < 0.7 else ""))
                c = cap + 1 if c == "npos" else c
                if c <= n:
                    sim.s[k] = s[:c]
                else:
                    sim.append(k, [ch if "ch=" in lines[-1] else 0] * (c - n))
        elif r < 0.64:
            lines.append("swap obj=%d ov=%s" % (k, rnd.choice(["member", "free"])))
            sim.s[0], sim.s[1] = sim.s[1], sim.s[0]
        elif r < 0.68 and n > 0:
            # same-length replace only (the length-changing calls are the known finding, explored exhaustively)
            p = rnd.randint(0, n - 1)
            c = rnd.randint(0, n - p)
            xs = chars(c)
            if 0 in xs or rnd.random() < 0.5:
                lines.append("replace obj=%d ov=%s %s s=%s n=%d" % (k, *rnd.choice([("ptrn", "pos=%d count=%d" % (p, c)), ("itptrn", "first=%d last=%d" % (p, p + c))]), L(xs), c))
            else:
                lines.append("replace obj=%d ov=%s %s s=%s" % (k, *rnd.choice([("cstr", "pos=%d count=%d" % (p, c)), ("itcstr", "first=%d last=%d" % (p, p + c))]), L(xs)))
            sim.s[k] = s[:p] + xs + s[p + c:]
        elif r < 0.80:
            # searches
            fam = rnd.choice(["find", "rfind", "find_first_of", "find_first_not_of", "find_last_of", "find_last_not_of"])
            if n and rnd.random() < 0.6:
                st = rnd.randint(0, n - 1)
                nd = s[st:st + rnd.randint(0, 4)]
            else:
                nd = chars(rnd.randint(0, 3))
            p = rnd.choice([0, n, max(n - 1, 0), rnd.randint(0, n + 2), "npos", None])
            if fam == "rfind" and p is None:
                p = "npos"
            ps = "" if p is None else " pos=%s" % p
            ov = rnd.choice(["str", "cstr", "ch", "ptrn"])
            if ov == "str":
                lines.append("%s obj=%d ov=str%s" % (fam, k, ps))
            elif ov == "cstr":
                if fam == "find_first_not_of" and p is None:
                    ps = " pos=0"
                lines.append("%s obj=%d ov=cstr s=%s%s" % (fam, k, L(nd), ps))
            elif ov == "ch":
                c = nd[0] if nd else alpha[0]
                lines.append("%s obj=%d ov=ch ch=%d s=[%d]%s" % (fam, k, c, c, ps))
            else:
                if True:
                    lines.append("%s obj=%d ov=ptrn s=%s n=%d pos=%s" % (fam, k, L(nd), len(nd), 0 if p is None else p))
        elif r < 0.90:
            v = rnd.random()
            o = sim.s[1 - k]
            if v < 0.2:
                lines.append("compare obj=%d ov=%s" % (k, rnd.choice(["str", "cstr s=%s" % L(chars(rnd.randint(0, 3))), "view s=%s" % L(s[: rnd.randint(0, n)])])))
            elif v < 0.4:
                lines.append("compare obj=%d ov=%s pos=%d count=%s" % (k, rnd.choice(["str3", "cstr3 s=%s" % L(s[: rnd.randint(0, n)]), "view3 s=%s" % L(chars(2))]), posn(n), cnt(n)))
            elif v < 0.6:
                lit = s[rnd.randint(0, n):] if n else chars(2)
                sel = rnd.choice(["str5", "view5 s=%s" % L(lit)])
                m = len(o) if sel == "str5" else len(lit)
                lines.append("compare obj=%d ov=%s pos=%d count=%s pos2=%d" % (k, sel, posn(n), cnt(n), posn(m)) + rnd.choice(["", " count2=%s" % cnt(m)]))
            elif v < 0.75:
                lines.append("rel obj=%d ov=%s" % (k, rnd.choice(["strstr", "strcstr s=%s" % L(s[: rnd.randint(0, n)] + chars(1)), "cstrstr s=%s" % L(chars(2))])))
            else:
                fam = rnd.choice(["starts_with", "ends_with", "contains"])
                nd = rnd.choice([s[: rnd.randint(0, n)], s[rnd.randint(0, n):], chars(2)])
                if nd and rnd.random() < 0.3:
                    lines.append("%s obj=%d ov=ch ch=%d s=[%d]" % (fam, k, nd[0], nd[0]))
                else:
                    lines.append("%s obj=%d ov=%s s=%s" % (fam, k, rnd.choice(["view", "cstr"]), L(nd)))
        else:
            v = rnd.random()
            if v < 0.25:
                lines.append("substr obj=%d pos=%d count=%s" % (k, posn(n), cnt(n)))
            elif v < 0.4:
                lines.append("copy obj=%d count=%s pos=%d" % (k, cnt(n), posn(n)))
            elif v < 0.6:
                lines.append("plus obj=%d ov=%s" % (k, rnd.choice(["strstr", "strcstr s=%s" % L(chars(some_len())), "cstrstr s=%s" % L(chars(min(some_len(), cap))), "strch ch=%d" % alpha[0], "chstr ch=%d" % alpha[0]])))
            elif v < 0.7:
                lines.append("at obj=%d pos=%d" % (k, posn(n)))
            elif v < 0.8:
                lines.append(rnd.choice(["front", "back", "info"]) + " obj=%d" % k)
            else:
                lines.append(rnd.choice(["state", "raw"]) + " obj=%d" % k)
        if lines[-1].split(" ")[0] in ("append", "pluseq", "insert", "resize", "push_back"):
            if rnd.random() < 0.5:
                lines.append("state obj=%d" % k)
    lines += ["state obj=0", "state obj=1", "raw obj=0", "raw obj=1"]
    return lines


def generate(tier, seed):
    rnd = random.Random(seed)
    thorough = tier == "thorough"
    g = Gen()
    for cap in (3, 16):
        exhaustive(g, cap, thorough)
    # multi-byte character types: code units whose order by value differs from the order of their low bytes (a byte-wise
    # memcmp on a little-endian target gets these wrong) and, for wchar_t (signed here), values of both signs
    for ct, cap, units in (("c16", 7, [0x00FF, 0x0100, 0x01FE, 0x0201, 0xFF00]), ("c32", 7, [0x00FF, 0x0100, 0xFFFF, 0x10000, 0x01000000]),
                           ("wchar", 7, [0x00FF, 0x0100, 0x10000, 0x7FFFFF00, 0x01000000]), ("wchar", 7, [0x7FFFFFFF, 0x80000000, 0xFFFFFFFF, 1, 0xFFFFFF00]),
                           ("c8", 7, [0x7F, 0x80, 0xFF, 1]), ("char", 7, [0x7F, 0x80, 0xFF, 1])):
        xs = [list(t) for n in (1, 2) for t in itertools.product(units, repeat=n)]
        for x in xs:
            q = []
            for y in xs:
                if len(y) == len(x) or (len(y) == 1 and x[0] == y[0]):
                    lit = "s=%s" % L(y)
                    q += ["compare obj=0 ov=view " + lit, "compare obj=0 ov=cstr " + lit, "compare obj=0 ov=view3 %s pos=0 count=npos" % lit,
                          "rel obj=0 ov=strcstr " + lit]
            g.add(["new cap=%d ct=%s" % (cap, ct), "assign obj=0 ov=ptrn s=%s n=%d" % (L(x), len(x))] + q, "unitorder/%s" % ct)
    per = 400 if thorough else 40
    for ct, cap in INSTANCES:
        for _ in range(per):
            g.add(history(rnd, ct, cap, rnd.randint(12, 40)), "hist/%s/%d" % (ct, cap))
    return g.cases, False, g.dist


def nontrivial(case, rows):
    seen_nonempty = False
    real = False
    for ln, r in zip(case.lines[1:], rows[1:]):
        if r.spec in ("pre", "*") or r.spec.startswith("new"):
            continue
        if ":[]:" not in r.spec.split(" ")[1] if " " in r.spec and len(r.spec.split(" ")) > 1 else False:
            seen_nonempty = True
        if not ln.startswith(("state", "raw", "assign obj=0 ov=ptrn", "assign obj=1 ov=ptrn")):
            real = True
    return seen_nonempty and real


def classify(case, k, row):
    ln = case.lines[k]
    op = ln.split(" ")[0]
    if op == "rfind" and " pos=" not in ln:
        return "F-C04-rfind-default-pos"
    if op == "replace" and replace_class(case.lines, k):
        return "F-C04-replace-overwrites-only"
    return None


def group_of(case):
    return case.tag.split("/")[0] + "/" + (case.tag.split("/")[1] if "/" in case.tag else "")


CLAIMED = True
TECHNIQUE = ("Lean 4 proof: terminator/size invariant and refinement of the hand model to the declarative std::string spec by "
             "induction (no capacity or length bound); model tied to the code by an exhaustive small-scope + random-history "
             "correspondence run against the implementation and libstdc++")
LEVEL_TEXT = ("The Lean 4 model of basic_inplace_string mirrors both storage layouts (size kept in the last code unit for "
              "Capacity<16, separate narrow size field otherwise), unsafe_set_size, the clamps, append/insert = append+rotate, "
              "erase = rotate+shrink, swap = swap_ranges+2 set_size, all through checked buffer reads/writes. Theorems (no bound on "
              "capacity, length or history): every modelled mutating member preserves size<=capacity and buf[size]=NUL from any "
              "state satisfying it, never touches memory outside the Capacity+1 units, and - when the std result fits - leaves "
              "exactly the std::string contents and return value; compare returns the sign of the lexicographic order; every "
              "overload of find/rfind(with pos)/find_first_of/find_first_not_of/find_last_of/find_last_not_of/starts_with/ends_with/"
              "contains (with the defaults written in the header) returns the declarative std result by composition with the C08 "
              "string_view theorems; copy, operator[], front, back, the five operator+ and erase_if(pred) for every predicate "
              "likewise; self-aliasing calls of assign/append/+=/insert (loops that read the buffer they write) behave like the "
              "call with an independent copy of the argument. The model "
              "is tied to the current source on every run: model, implementation (ASan/UBSan, each string in its own heap block), "
              "declarative spec and libstdc++ execute the same histories (exhaustive at capacities 3 and 16, random for 32 "
              "character-type x capacity pairs) and are compared after every operation.")
LEVEL_NOTE = ("Trusted: Lean kernel + propext/Classical.choice/Quot.sound; fidelity of the hand model outside the explored inputs; "
              "g++-12/ASan/UBSan; libstdc++ as oracle for spec validation. Members listed in coverage.correspondence_only are "
              "modelled and compared on every run but have no Lean theorem yet. The replace family (overwrites only) and the "
              "default pos of rfind are known findings (counterexample theorems; rfind_partial covers every call with a pos, replace_*_partial "
              "every replace whose replacement has the length of the replaced range, replace_overwrites says what the other calls with "
              "count <= size()-pos do). replace with count > size()-pos (count = size()-pos+1 and npos are generated; when the replacement is "
              "longer than size()-pos the overwrite runs past size(): replace_breaks_terminator_counterexample) is compared on every run "
              "but has no positive theorem; on a line that hits a known finding only impl-vs-spec is evaluated (lib.evaluate stops at the "
              "first relation that fails), so there the model's mirror of the defect is checked by the counterexample theorems only.")
CORRESPONDENCE_ONLY = [
    "replace(pos, count, …) with count > size()-pos (wrapped end pointer of str_replace; part of the known finding "
                       "F-C04-replace-overwrites-only when the lengths differ)"]
