"""C06 — algorithms return exactly what the standard specifies for every input (DESIGN §4 C06).

Case lines (see lean/Tetl/C06/Driver.lean): elements are 100*key + tag (tag = original position, so
every element has an identity), the range [f,l) lies inside the storage `a` between two context
elements of key 7, comparators/predicates look at keys only.
"""
import itertools
import random
import re

from lib import Case, fmt_list

PROP = "C06"
DRIVER = "drv-c06"
PROOF_MODULES = ["TetlProofs.C06.Props"]
HARNESS = "harness/c06.cpp"
import os
import sys
import lib
BASE_FLAGS = ["-DC06_SEARCH_N_PTR_ONLY"] if os.environ.get("C06_SEARCH_N_PTR_ONLY") else []
HARNESS_FLAGS = list(BASE_FLAGS)
PARTS = [0, -1]     # harness/c06.cpp: 0 = arithmetic element types + constexpr tables, -1 = everything else + main


def _build_parts():
    """compile the two translation units of the harness in parallel; returns the object files.  An object file is reused
    when the preprocessed translation unit (every header of the tree under test expanded), the flags and the compiler are
    byte-identical to those it was compiled from: any change of the library or of the harness gives a new key."""
    import concurrent.futures as cf
    import hashlib
    os.makedirs(lib.BUILD, exist_ok=True)
    cache = os.path.join(lib.BUILD, "c06_objcache")
    os.makedirs(cache, exist_ok=True)
    flags = list(lib.CXXFLAGS) + BASE_FLAGS
    cxxv = lib.sh([lib.CXX, "--version"])[1]
    src = os.path.join(lib.VERIF, HARNESS)

    def one(k):
        base = [lib.CXX] + flags + ["-DC06_PART=%d" % k, "-I", os.path.join(lib.REPO, "include"), "-I", os.path.join(lib.VERIF, "harness")]
        rc, o, e = lib.sh(base + ["-E", src], timeout=600)
        if rc != 0:
            return None, rc, o[-200:] + e
        key = hashlib.sha256((cxxv + "\0" + " ".join(flags) + "\0" + o).encode()).hexdigest()[:32]
        out = os.path.join(cache, "part%d_%s.o" % (k, key))
        if os.path.exists(out):
            os.utime(out)
            return out, 0, "cached"
        tmp = out + ".%d.tmp" % os.getpid()
        rc, o, e = lib.sh(base + ["-c", src, "-o", tmp], timeout=1800)
        if rc == 0:
            os.replace(tmp, out)
        return out, rc, o + e

    with cf.ThreadPoolExecutor(max_workers=len(PARTS)) as ex:
        res = list(ex.map(one, PARTS))
    bad = [r for r in res if r[1] != 0]
    if bad:
        raise lib.MachineryError("harness does not compile against %s:\n%s" % (lib.REPO, bad[0][2][-3000:]))
    olds = sorted((os.path.join(cache, f) for f in os.listdir(cache)), key=os.path.getmtime)
    for f in olds[:-16]:
        os.unlink(f)
    return [r[0] for r in res]


def run(ctx, replay=None):
    """standard flow of check.py, with the translation units of the harness pre-compiled in parallel (check.py then only links)"""
    global HARNESS_FLAGS
    objs = _build_parts()
    HARNESS_FLAGS = BASE_FLAGS + ["-DC06_PART=-2"] + objs
    import check
    return check.standard(sys.modules[__name__], ctx, replay)


SOURCES = ["include/etl/_algorithm", "include/etl/_numeric/accumulate.hpp", "include/etl/_numeric/reduce.hpp",
           "include/etl/_numeric/inner_product.hpp", "include/etl/_numeric/partial_sum.hpp",
           "include/etl/_numeric/adjacent_difference.hpp", "include/etl/_numeric/iota.hpp",
           "include/etl/_numeric/transform_reduce.hpp", "include/etl/_iterator/next.hpp", "include/etl/_iterator/prev.hpp",
           "include/etl/_iterator/advance.hpp", "include/etl/_iterator/distance.hpp", "include/etl/_functional/less.hpp",
           "include/etl/_utility/swap.hpp"]
RULE = ("exhaustive: every key sequence of length <= 5 (quick) / 6 (thorough) over the 3-key alphabet {0,1,2}, plus every sequence that "
        "contains the fourth key 3 up to length 3 (quick) / 5 (thorough) (the comparator key%3 differs from less only there); rotate, "
        "reverse, shifts, sorts, inplace_merge, remove_if, unique, partition, binary searches additionally on every 2-key sequence of "
        "length 6 (quick) / 6-7 (thorough); each element tagged with its position, the range placed between two context elements (and "
        "bare for ranges of length <= 2); crossed with every unary predicate over the alphabet (bit masks), every value key, comparators "
        "dflt/less/greater/key%3, binary predicates dflt/eq/key%2, every middle/split point, every count n in [-1,len+1] where the "
        "standard defines it, every second range of length <= 3 (4) over 3 keys (<= 2 over 4 keys) for first ranges up to length 4 (5), "
        "the needle of search/find_end/find_first_of also as a sub-range between context elements. Iterator categories: ranges of "
        "length <= 2 (empty and single-element included) run with EVERY category the algorithm accepts (pointer, input-tagged pointer "
        "wrapper `in`, genuinely single-pass input iterator `in1` whose copies share one cursor - using a stale copy is reported as "
        "!multipass - for every algorithm declared for input iterators, forward, bidirectional wrappers; range-checked random-access "
        "wrapper for the random-access sorts); longer ranges with one category per case, rotated by a per-operation counter; the "
        "4-iterator equal with ptr/in/in1/fwd on every pair of ranges. Arithmetic element types (signed char, unsigned char, char, "
        "short, bool through raw pointers; the value is the key): (i) every pair of ranges of length <= 2 over the 5-letter alphabet "
        "{min,-1,0,1,max} of the type ({0,1,127,128,255} for unsigned char, {0,1} for bool) for lexicographical_compare (dflt, less), "
        "equal (3/4 iterators), mismatch, search, and every range of length <= 3 over it for min/max_element, sort, stable_sort, "
        "find, count, each ALSO evaluated by the compiler in a constexpr table of the harness (`ce=`: run-time result = "
        "constant-evaluated result = std = spec); (ii) every range of length <= 4 (5) over three letters for the seven sorts, "
        "min/max/minmax_element, is_sorted_until, lower/upper_bound with dflt/less/greater, and for ranges of length <= 2 every "
        "second range of length <= 3 for lexicographical_compare, includes, equal, mismatch, search, find_end, is_permutation; "
        "(iii) 400 (3000) random ranges per type over its whole value range. Output-iterator algorithms write into a destination with 0 or 2 context elements in "
        "front, an exact-fit window or one spare position, one context element behind, through a pointer or a write-only output "
        "iterator wrapper (layout rotated per operation). Binary searches run on every sequence that is PARTITIONED with respect to the "
        "value (the standard's precondition; sorted is not required). Plus seeded random sequences up to length 14 over 2-4 keys. Inputs "
        "violating a std precondition (unsorted input to set operations / merge / inplace_merge, unpartitioned input to partition_point "
        "and the binary searches, overlapping copy destinations) are not generated. A case is non-trivial when its range has at least "
        "two elements (or, for two-range algorithms, both ranges are non-empty); distinct = distinct case text.")
ASSUMPTIONS = ["libstdc++ 12 <algorithm>/<numeric> on raw pointers is the reference for spec validation (R2)",
               "elements are trivially copyable ints with an identity tag (or plain signed char / unsigned char / char / short / bool values in the ty= cases); moved-from positions are masked as unspecified",
               "char is a signed type on the target the harness is built for (x86-64 / g++)",
               "comparators are strict weak orders, binary predicates equivalence relations (the standard's preconditions)",
               "numeric folds are run on values far from overflow"]
TRUSTED = ["hand model Tetl/C06/Model/*.lean tied to the source by the correspondence run (R1) on every run",
           "spec Tetl/C06/Spec.lean validated against libstdc++ (R2) on every run"]
_T = "Tetl.C06.Props."
THEOREMS = {op: [_T + t for t in ts] for op, ts in {
    "find": ["find_eq", "find_singlePass"], "find_if": ["findIf_eq", "findIf_singlePass"],
    "find_if_not": ["findIfNot_eq", "findIfNot_singlePass"], "all_of": ["allOf_eq", "allOf_singlePass"],
    "any_of": ["anyOf_eq", "anyOf_singlePass"], "none_of": ["noneOf_eq", "noneOf_singlePass"],
    "count": ["count_eq", "count_singlePass"], "count_if": ["countIf_eq", "countIf_singlePass"],
    "for_each": ["forEach_eq", "forEach_singlePass"], "for_each_n": ["forEachN_eq", "forEachN_singlePass"], "copy_n": ["copyN_eq", "copyN_out", "copyN_out_excludes_prefix_code"],
    "transform": ["transform1_eq", "transform1_out"], "transform2": ["transform2_eq", "transform2_out"],
    "copy_if": ["copyIf_eq", "copyIf_out"],
    "remove_copy_if": ["removeCopyIf_eq", "removeCopyIf_out", "removeCopyIf_out_excludes_prefix_code"],
    "remove_copy": ["removeCopy_eq", "removeCopy_out"], "partition_copy": ["partitionCopy_eq", "partitionCopy_out"],
    "reverse_copy": ["reverseCopy_eq", "reverseCopy_out"], "copy_out": ["copyOut_out"], "move_out": ["copyOut_out"],
    "partition_point": ["partitionPoint_eq"], "is_partitioned": ["isPartitioned_eq", "isPartitioned_singlePass"],
    "find_first_of": ["findFirstOf_eq", "findFirstOfB_eq"],
    "rotate": ["rotate_eq"], "rotate_copy": ["rotateCopy_eq", "rotateCopy_out"], "reverse": ["reverseRA_eq", "reverseBidi_eq", "reverseRev_eq"],
    "rit_rel": ["reverseIterator_relations", "reverseIterator_relations_excludes_unreversed"],
    "lower_bound": ["lowerBound_eq"], "upper_bound": ["upperBound_eq"], "equal_range": ["equalRange_eq"],
    "binary_search": ["binarySearch_eq"], "mismatch": ["mismatch3_eq", "mismatch4_eq", "mismatch3_singlePass", "mismatch4_singlePass"],
    "equal": ["equal3_eq", "equal4RA_eq", "equal4Fwd_eq", "equal3_singlePass", "equal4_singlePass", "equal4_distanceFirst_not_singlePass"],
    "lexicographical_compare": ["lexicographicalCompare_eq", "lexicographicalCompare_singlePass"],
    "accumulate": ["accumulate_eq", "accumulate_singlePass"], "reduce": ["reduce_eq", "accumulate_singlePass"], "transform_reduce1": ["transformReduce1_eq"],
    "inner_product": ["innerProduct_eq", "innerProduct_singlePass"], "transform_reduce": ["transformReduce2_eq", "innerProduct_singlePass"],
    "adjacent_difference": ["adjacentDifference_eq", "adjacentDifference_out"],
    "partial_sum": ["partialSum_eq", "partialSum_out"], "iota": ["iota_eq"],
    "min": ["min2_eq", "min2_char"], "max": ["max2_eq", "max2_char"], "minmax": ["minmax2_eq", "min2_char", "max2_char"],
    "clamp": ["clamp_eq", "clamp_char"],
    "remove_if": ["removeIf_eq"], "remove": ["remove_eq"], "unique": ["unique_eq"],
    "unique_copy": ["uniqueCopy_eq", "uniqueCopyFwd_out", "uniqueCopyOut_out"],
    "fill": ["fill_eq"], "fill_n": ["fillN_eq"], "generate": ["generate_eq"], "generate_n": ["generateN_eq"],
    "replace_if": ["replaceIf_eq"], "replace": ["replace_eq"], "swap_ranges": ["swapRanges_eq"],
    "copy": ["copy_eq"], "move": ["copy_eq"], "copy_backward": ["copyBackward_eq"], "move_backward": ["copyBackward_eq"],
    "shift_left": ["shiftLeftRA_eq", "shiftLeftFwd_eq"], "shift_right": ["shiftRight_eq", "shiftRightNoFill_eq"],
    "adjacent_find": ["adjacentFind_eq"], "is_sorted_until": ["isSortedUntil_eq"], "is_sorted": ["isSorted_eq"],
    "min_element": ["minElement_eq"], "max_element": ["maxElement_eq"], "minmax_element": ["minmaxElement_eq"],
    "search": ["search_eq", "searchB_eq"], "find_end": ["findEnd_eq", "findEndB_eq"], "search_n": ["searchN_eq"],
    "is_permutation": ["isPermutation3_eq", "isPermutation4_eq", "isPermutation_spec_iff_perm"], "includes": ["includes_eq", "includes_singlePass"],
    "partition": ["partition_eq"], "stable_partition": ["stablePartition_eq"],
    "sort": ["sort_eq"], "gnome_sort": ["gnomeSort_eq"], "bubble_sort": ["bubbleSort_eq"], "exchange_sort": ["exchangeSort_eq", "exchangeSort_unguarded_empty_oob"],
    "nth_element": ["nthElement_eq", "sorted_split"], "partial_sort": ["partialSort_eq", "sorted_split"],
    "stable_sort": ["stableSort_eq", "stableSort_characterisation"],
    "insertion_sort": ["insertionSort_eq", "stableSort_characterisation"],
    "merge_sort": ["mergeSort_eq", "stableSort_characterisation"], "inplace_merge": ["inplaceMerge_eq", "inplaceMerge_stable"],
    "merge": ["merge_eq", "merge_out"], "set_difference": ["setDifference_eq", "setDifference_out"],
    "set_intersection": ["setIntersection_eq", "setIntersection_out"],
    "set_symmetric_difference": ["setSymmetricDifference_eq", "setSymmetricDifference_out"],
    "set_union": ["setUnion_eq", "setUnion_out"]}.items()}
SEARCH_CAP = 900000

CMPS = ["dflt", "less", "greater", "mod3"]
EQS = ["dflt", "eq", "eqmod"]


def key(e):
    return e // 100


def lt(cmp, x, y):
    if cmp == "greater":
        return key(x) > key(y)
    if cmp == "mod3":
        return key(x) % 3 < key(y) % 3
    return key(x) < key(y)


def is_sorted(cmp, r):
    return all(not lt(cmp, r[i + 1], r[i]) for i in range(len(r) - 1))


def pred(mask, e):
    return (mask >> key(e)) & 1 == 1


def seqs(keys, maxlen, minlen=0):
    """all key sequences, as element lists with position tags"""
    for n in range(minlen, maxlen + 1):
        for t in itertools.product(keys, repeat=n):
            yield [100 * k + i for i, k in enumerate(t)]


def in_ctx(r):
    """(a, f, l) placements of the range r: between two context elements; bare when short"""
    out = [([700] + r + [701], 1, 1 + len(r))]
    if len(r) <= 2:
        out.append((list(r), 0, len(r)))
    return out


# algorithms that write through an output iterator: destination layout `dp` (context elements in front of the
# window) and `slack` (room beyond the exact fit) are rotated per operation, independently of the iterator kind
OUT_OPS = {"copy_out", "move_out", "copy_if", "copy_n", "remove_copy", "remove_copy_if", "unique_copy", "reverse_copy",
           "rotate_copy", "transform", "transform2", "partition_copy", "merge", "set_difference", "set_intersection",
           "set_symmetric_difference", "set_union", "partial_sum", "adjacent_difference"}


class Gen:
    def __init__(self, seed):
        self.cases = []
        self.dist = {}
        self.rnd = random.Random(seed)
        self.kc = {}      # per-operation counters (iterator kind x destination layout)

    def _emit(self, line, t):
        self.cases.append(Case(line, t))
        self.dist[t] = self.dist.get(t, 0) + 1

    def add(self, op, a, f, l, extra="", kinds=None, tag=None):
        line = "%s a=%s f=%d l=%d" % (op, fmt_list(a), f, l)
        if extra:
            line += " " + extra
        t = tag or op
        nk = len(kinds) if kinds else 1
        # ranges of length <= 2 (empty and single-element included): EVERY iterator category the algorithm accepts;
        # longer ranges: one category per case, rotated by a counter of this operation (not a global one)
        todo = range(nk) if (kinds and l - f <= 2) else [None]
        for j in todo:
            c = self.kc.get(op, 0)
            self.kc[op] = c + 1
            ln = line
            if kinds:
                ln += " it=" + kinds[c % nk if j is None else j]
            if op in OUT_OPS:
                q = c // nk if j is None else c
                ln += " dp=%d slack=%d" % ((0, 2)[q % 2], (0, 1)[(q // 2) % 2])
            self._emit(ln, t)


IN = ["ptr", "in", "in1", "fwd", "bidi"]   # in1: genuinely single-pass (all copies share one cursor; stale copy => !multipass)
FWD = ["ptr", "fwd", "bidi"]
BIDI = ["ptr", "bidi"]
RA = ["ptr", "ra"]          # ra: range-checked random-access iterator (arithmetic outside [first,last] is reported)


def partitioned(flags):
    """all true, then all false"""
    return all(flags[i] or not flags[i + 1] for i in range(len(flags) - 1))


def bsearch_ok(op, cmp, r, v):
    """the standard's precondition of the binary searches: partitioned with respect to the value (NOT: sorted)"""
    lo = partitioned([lt(cmp, e, v) for e in r])
    up = partitioned([not lt(cmp, v, e) for e in r])
    if op == "lower_bound":
        return lo
    if op == "upper_bound":
        return up
    return lo and up and all((not lt(cmp, e, v)) or (not lt(cmp, v, e)) for e in r)


def gen_for_range(g, r, a, f, l, nkeys, thorough, rich):
    """all single-range operations on one placement. `rich`: also the expensive cross products."""
    n = len(r)
    masks = range(1 << nkeys)
    vals = [100 * k + 99 for k in range(nkeys)]
    for p in masks:
        e = "p=%d" % p
        for op in ("find_if", "find_if_not", "all_of", "any_of", "none_of", "count_if", "is_partitioned"):
            g.add(op, a, f, l, e, IN)
        for op in ("copy_if", "remove_copy_if", "partition_copy"):
            g.add(op, a, f, l, e, IN)
        for op in ("remove_if", "partition"):
            g.add(op, a, f, l, e, FWD)
        g.add("stable_partition", a, f, l, e, BIDI)
        g.add("replace_if", a, f, l, e + " w=%d" % vals[0], FWD)
        flags = [pred(p, x) for x in r]
        if all(flags[i] or not flags[i + 1] for i in range(n - 1)):
            g.add("partition_point", a, f, l, e, FWD)
    for v in vals:
        e = "v=%d" % v
        for op in ("find", "count"):
            g.add(op, a, f, l, e, IN)
        g.add("remove_copy", a, f, l, e, IN)
        g.add("remove", a, f, l, e, FWD)
        g.add("fill", a, f, l, e, FWD)
        g.add("replace", a, f, l, e + " w=%d" % vals[-1], FWD)
        for cnt in range(-1, n + 1):
            g.add("fill_n", a, f, l, e + " n=%d" % cnt, FWD)
        for eq in EQS:
            for cnt in range(-1, n + 2):
                g.add("search_n", a, f, l, "%s n=%d eq=%s" % (e, cnt, eq), FWD)
        for cmp in CMPS:
            for op in ("lower_bound", "upper_bound", "equal_range", "binary_search"):
                if bsearch_ok(op, cmp, r, v):
                    g.add(op, a, f, l, "%s cmp=%s" % (e, cmp), FWD)
    for cmp in CMPS:
        e = "cmp=" + cmp
        for op in ("is_sorted", "is_sorted_until", "min_element", "max_element", "minmax_element"):
            g.add(op, a, f, l, e, FWD)
        for op in ("sort", "bubble_sort", "exchange_sort", "stable_sort", "insertion_sort", "merge_sort"):
            g.add(op, a, f, l, e, RA)
        g.add("gnome_sort", a, f, l, e, BIDI)
        for m in range(f, l + 1):
            g.add("nth_element", a, f, l, "m=%d %s" % (m, e), RA)
            g.add("partial_sort", a, f, l, "m=%d %s" % (m, e), RA)
            if is_sorted(cmp, r[: m - f]) and is_sorted(cmp, r[m - f:]):
                g.add("inplace_merge", a, f, l, "m=%d %s" % (m, e), BIDI)
    for eq in EQS:
        e = "eq=" + eq
        g.add("adjacent_find", a, f, l, e, FWD)
        g.add("unique", a, f, l, e, FWD)
        g.add("unique_copy", a, f, l, e, IN)     # it=in|fwd: pure output iterator; ptr|bidi: pointer destination
    for m in range(f, l + 1):
        g.add("rotate", a, f, l, "m=%d" % m, FWD)
        g.add("rotate_copy", a, f, l, "m=%d" % m, FWD)
    for it in BIDI + ["rptr"]:          # rptr: the range seen through reverse_iterators (random-access branch, `first < last`)
        g.add("reverse", a, f, l, "it=" + it)
    if f == 0 and l == len(a) and len(a) <= 3:
        for i_ in range(len(a) + 1):
            for j_ in range(len(a) + 1):
                g.add("rit_rel", a, f, l, "i=%d j=%d" % (i_, j_))
    g.add("reverse_copy", a, f, l, "", BIDI)
    g.add("for_each", a, f, l, "", IN)
    g.add("transform", a, f, l, "", IN)
    g.add("copy_out", a, f, l, "", IN)
    g.add("move_out", a, f, l, "", IN)
    g.add("generate", a, f, l, "", FWD)
    for cnt in range(-1, n + 1):
        g.add("copy_n", a, f, l, "n=%d" % cnt, IN)
        g.add("generate_n", a, f, l, "n=%d" % cnt, FWD)
        if cnt >= 0:
            g.add("for_each_n", a, f, l, "n=%d" % cnt, IN)
    for cnt in range(0, n + 2):
        for it in FWD:
            g.add("shift_left", a, f, l, "n=%d it=%s" % (cnt, it))
        for it in BIDI:
            g.add("shift_right", a, f, l, "n=%d it=%s" % (cnt, it))
        g.add("shift_right", a, f, l, "n=%d ov=nd" % cnt, BIDI)   # value type without default constructor


def gen_two_ranges(g, r, b, a, f, l):
    n = len(r)
    bs = "b=" + fmt_list(b)
    # the needle of search / find_end / find_first_of: bare, and as a sub-range between two context elements
    nb = "b=%s g=1 h=%d" % (fmt_list([702] + b + [703]), 1 + len(b))
    for eq in EQS:
        e = "%s eq=%s" % (bs, eq)
        for ne in ((e, "%s eq=%s" % (nb, eq)) if eq == "eq" else (e,)):
            g.add("search", a, f, l, ne, FWD)
            g.add("find_end", a, f, l, ne, FWD)
            g.add("find_first_of", a, f, l, ne, IN)
        g.add("mismatch", a, f, l, e + " ov=4", IN)
        for it in ("ptr", "in", "in1", "fwd"):
            g.add("equal", a, f, l, e + " ov=4 it=" + it)
        if len(b) >= n:
            g.add("mismatch", a, f, l, e + " ov=3", IN)
            g.add("equal", a, f, l, e + " ov=3", IN)
    for it in ("ptr", "fwd"):
        g.add("is_permutation", a, f, l, bs + " ov=4 it=" + it)
    if len(b) >= n:
        g.add("is_permutation", a, f, l, bs + " ov=3", FWD)
        g.add("swap_ranges", a, f, l, bs, FWD)
        g.add("transform2", a, f, l, bs, IN)
    for cmp in CMPS:
        e = "%s cmp=%s" % (bs, cmp)
        g.add("lexicographical_compare", a, f, l, e, IN)
        if is_sorted(cmp, r) and is_sorted(cmp, b):
            for op in ("includes", "merge", "set_difference", "set_intersection", "set_symmetric_difference", "set_union"):
                g.add(op, a, f, l, e, IN)


def gen_copies(g, maxlen):
    for n in range(maxlen + 1):
        a = [100 * (i % 7) + i for i in range(n)]
        for f in range(n + 1):
            for l in range(f, n + 1):
                k = l - f
                for d in range(0, n - k + 1):
                    # [alg.copy]: result not in [first,last); [alg.move] likewise
                    if not (f <= d < l) or k == 0:
                        g.add("copy", a, f, l, "d=%d" % d, IN)
                        g.add("move", a, f, l, "d=%d" % d, IN)
                for dl in range(k, n + 1):
                    # copy_backward: result not in (first,last]
                    if not (f < dl <= l) or k == 0:
                        g.add("copy_backward", a, f, l, "d=%d" % dl, BIDI)
                        g.add("move_backward", a, f, l, "d=%d" % dl, BIDI)


def gen_minmax(g):
    es = [100 * k + t for k in range(4) for t in range(2)]
    for cmp in CMPS:
        for x in es:
            for y in es:
                for op in ("min", "max", "minmax"):
                    g.add(op, [], 0, 0, "v=%d w=%d cmp=%s" % (x, y, cmp))
                for hi in es:
                    if not lt(cmp, hi, y):   # precondition of clamp: !(hi < lo)
                        for v in es[::2] + [es[-1]]:
                            g.add("clamp", [], 0, 0, "v=%d lo=%d hi=%d cmp=%s" % (v, y, hi, cmp))


NUM_IN = ["ptr", "in", "in1", "fwd"]


def gen_numeric(g, maxlen, blen):
    alpha = [-2, 0, 1, 3]
    for n in range(maxlen + 1):
        for t in itertools.product(alpha, repeat=n):
            r = list(t)
            for a, f, l in ((([7] + r + [9]), 1, 1 + n), (r, 0, n)):
                for op in ("dflt", "minus", "mul2"):
                    for init in (0, 5):
                        g.add("accumulate", a, f, l, "init=%d op=%s" % (init, op), NUM_IN)
                        g.add("reduce", a, f, l, "init=%d op=%s" % (init, op), NUM_IN)
                        g.add("transform_reduce1", a, f, l, "init=%d op=%s" % (init, op), NUM_IN)
                    g.add("partial_sum", a, f, l, "op=" + op, NUM_IN)
                    g.add("adjacent_difference", a, f, l, "op=" + op, NUM_IN)
                g.add("reduce", a, f, l, "ov=noinit", NUM_IN)
                g.add("iota", a, f, l, "v=%d" % (n - 2), ["ptr", "fwd"])
            if n <= blen:
                for t2 in itertools.product(alpha, repeat=n):
                    for extra in ([], [4]):
                        b = list(t2) + extra
                        for op in ("dflt", "minus"):
                            g.add("inner_product", r, 0, n, "b=%s init=3 op=%s" % (fmt_list(b), op), NUM_IN)
                            g.add("transform_reduce", r, 0, n, "b=%s init=3 op=%s" % (fmt_list(b), op), NUM_IN)


# arithmetic element types through raw pointers (harness: arith<T>): the value is the key, no identity tags.
# ALPHA = the alphabet of the harness' constexpr tables (ce=1: the same call also evaluated by the compiler).
ALPHA = {"sc": [-128, -1, 0, 1, 127], "uc": [0, 1, 127, 128, 255], "c": [-128, -1, 0, 1, 127],
         "sh": [-32768, -1, 0, 1, 32767], "b": [0, 1]}
ARITH_SORTS = ["sort", "stable_sort", "insertion_sort", "merge_sort", "gnome_sort", "bubble_sort", "exchange_sort"]


def gen_arith(g, thorough):
    def add(op, ty, a, f, l, extra):
        g._emit("%s ty=%s a=%s f=%d l=%d %s" % (op, ty, fmt_list(a), f, l, extra), op + "/" + ty)

    def ltv(cmp, x, y):
        return x > y if cmp == "greater" else x < y

    for ty, al in ALPHA.items():
        ctx = 1 if ty == "b" else 77
        s2 = [list(t) for n in range(3) for t in itertools.product(al, repeat=n)]
        s3 = s2 + [list(t) for t in itertools.product(al, repeat=3)]
        # (1) the constexpr box: both ranges of length <= 2 over the alphabet; run time and compile time must agree
        for r in s2:
            for a, f, l in (((r, 0, len(r)),) if len(r) == 1 else (([ctx] + r + [ctx], 1, 1 + len(r)),)):
                for b in s2:
                    bs = "b=" + fmt_list(b)
                    for cmp in ("dflt", "less"):
                        add("lexicographical_compare", ty, a, f, l, "%s cmp=%s ce=1" % (bs, cmp))
                    add("equal", ty, a, f, l, bs + " ov=4 ce=1")
                    if len(b) >= len(r):
                        add("equal", ty, a, f, l, bs + " ov=3 ce=1")
                    add("mismatch", ty, a, f, l, bs + " ov=4 ce=1")
                    add("search", ty, a, f, l, bs + " ce=1")
        for r in s3:
            a, f, l = ([ctx] + r + [ctx], 1, 1 + len(r)) if len(r) % 2 else (r, 0, len(r))
            for op in ("min_element", "max_element", "sort", "stable_sort"):
                add(op, ty, a, f, l, "cmp=dflt ce=1")
            for v in al:
                add("find", ty, a, f, l, "v=%d ce=1" % v)
                add("count", ty, a, f, l, "v=%d ce=1" % v)
        # (2) the other comparison-based algorithms and comparators, lengths up to 4 (5) over three letters of the alphabet
        sub = al if len(al) == 2 else [al[0], al[2], al[4]] if ty in ("sc", "sh") else [al[1], al[2], al[4]]
        L1 = 5 if thorough else 4
        for n in range(L1 + 1):
            for t in itertools.product(sub, repeat=n):
                r = list(t)
                a, f, l = [ctx] + r + [ctx], 1, 1 + n
                for cmp in ("dflt", "less", "greater"):
                    e = "cmp=" + cmp
                    for op in ARITH_SORTS + ["min_element", "max_element", "minmax_element", "is_sorted_until"]:
                        add(op, ty, a, f, l, e)
                    if all(not ltv(cmp, r[i + 1], r[i]) for i in range(n - 1)):
                        for v in sub:
                            add("lower_bound", ty, a, f, l, "v=%d %s" % (v, e))
                            add("upper_bound", ty, a, f, l, "v=%d %s" % (v, e))
                if n <= 2:
                    for nb in range(4):
                        for t2 in itertools.product(sub, repeat=nb):
                            b = list(t2)
                            bs = "b=" + fmt_list(b)
                            for cmp in ("dflt", "less", "greater"):
                                add("lexicographical_compare", ty, a, f, l, "%s cmp=%s" % (bs, cmp))
                                if all(not ltv(cmp, r[i + 1], r[i]) for i in range(n - 1)) and all(not ltv(cmp, b[i + 1], b[i]) for i in range(nb - 1)):
                                    add("includes", ty, a, f, l, "%s cmp=%s" % (bs, cmp))
                            for eq in ("dflt", "eq"):
                                add("equal", ty, a, f, l, "%s ov=4 eq=%s" % (bs, eq))
                                add("mismatch", ty, a, f, l, "%s ov=4 eq=%s" % (bs, eq))
                                add("search", ty, a, f, l, "%s eq=%s" % (bs, eq))
                                add("find_end", ty, a, f, l, "%s eq=%s" % (bs, eq))
                            add("is_permutation", ty, a, f, l, bs + " ov=4")
        # (3) random values of the whole type range
        lo, hi = {"sc": (-128, 127), "uc": (0, 255), "c": (-128, 127), "sh": (-32768, 32767), "b": (0, 1)}[ty]
        for _ in range(3000 if thorough else 400):
            n = g.rnd.randint(0, 8)
            r = [g.rnd.choice([lo, hi, g.rnd.randint(lo, hi), g.rnd.randint(lo, hi) // 16]) for _ in range(n)]
            b = list(r)
            if b and g.rnd.random() < 0.7:
                b[g.rnd.randrange(len(b))] = g.rnd.randint(lo, hi)
            if g.rnd.random() < 0.3:
                b = b[: g.rnd.randint(0, len(b))]
            a, f, l = [ctx] + r + [ctx], 1, 1 + n
            cmp = g.rnd.choice(["dflt", "less", "greater"])
            add("lexicographical_compare", ty, a, f, l, "b=%s cmp=%s" % (fmt_list(b), cmp))
            add("mismatch", ty, a, f, l, "b=%s ov=4" % fmt_list(b))
            add("equal", ty, a, f, l, "b=%s ov=4" % fmt_list(b))
            add(g.rnd.choice(ARITH_SORTS), ty, a, f, l, "cmp=" + cmp)
            add(g.rnd.choice(["min_element", "max_element", "minmax_element"]), ty, a, f, l, "cmp=" + cmp)


def gen_random(g, count, thorough):
    rnd = g.rnd
    ops1 = ["rotate", "reverse", "remove_if", "unique", "partition", "stable_partition", "sort", "stable_sort", "merge_sort",
            "gnome_sort", "nth_element", "partial_sort", "inplace_merge", "shift_left", "shift_right", "search_n",
            "lower_bound", "upper_bound", "equal_range", "minmax_element", "is_sorted_until", "adjacent_find", "unique_copy",
            "rotate_copy", "copy_if", "remove_copy_if", "find_if", "partition_copy"]
    ops2 = ["search", "find_end", "find_first_of", "mismatch", "equal", "is_permutation", "lexicographical_compare",
            "merge", "set_union", "set_difference", "set_intersection", "set_symmetric_difference", "includes"]
    for _ in range(count):
        nkeys = rnd.choice([2, 3, 4])
        n = rnd.randint(0, 14)
        ks = [rnd.randrange(nkeys) for _ in range(n)]
        cmp = rnd.choice(CMPS)
        eq = rnd.choice(EQS)
        if rnd.random() < 0.55:
            op = rnd.choice(ops1)
            if op in ("lower_bound", "upper_bound", "equal_range"):
                ks.sort(key=lambda k: (-k if cmp == "greater" else k % 3 if cmp == "mod3" else k))
            m = rnd.randint(0, n)
            if op == "inplace_merge":
                kf = (lambda k: (-k if cmp == "greater" else k % 3 if cmp == "mod3" else k))
                ks = sorted(ks[:m], key=kf) + sorted(ks[m:], key=kf)
            r = [100 * k + i for i, k in enumerate(ks)]
            a, f, l = [700] + r + [701], 1, 1 + n
            extra = {"rotate": "m=%d" % (f + m), "rotate_copy": "m=%d" % (f + m), "nth_element": "m=%d cmp=%s" % (f + m, cmp),
                     "partial_sort": "m=%d cmp=%s" % (f + m, cmp), "inplace_merge": "m=%d cmp=%s" % (f + m, cmp),
                     "shift_left": "n=%d" % rnd.randint(0, n + 1), "shift_right": "n=%d" % rnd.randint(0, n + 1),
                     "search_n": "n=%d v=%d eq=%s" % (rnd.randint(0, 4), 100 * rnd.randrange(nkeys) + 99, eq)}.get(op)
            if extra is None:
                if op in ("remove_if", "partition", "stable_partition", "copy_if", "remove_copy_if", "find_if", "partition_copy"):
                    extra = "p=%d" % rnd.randrange(1 << nkeys)
                elif op in ("unique", "adjacent_find", "unique_copy"):
                    extra = "eq=" + eq
                elif op in ("lower_bound", "upper_bound", "equal_range"):
                    extra = "v=%d cmp=%s" % (100 * rnd.randrange(nkeys) + 99, cmp)
                elif op == "reverse":
                    extra = ""
                else:
                    extra = "cmp=" + cmp
            kinds = {"reverse": BIDI, "shift_right": BIDI, "gnome_sort": BIDI, "unique_copy": IN, "stable_partition": BIDI,
                     "inplace_merge": BIDI, "sort": RA, "stable_sort": RA, "merge_sort": RA, "nth_element": RA,
                     "partial_sort": RA}.get(op, FWD)
            g.add(op, a, f, l, extra, kinds, tag=op + "/rand")
        else:
            op = rnd.choice(ops2)
            bn = rnd.randint(0, 5)
            if rnd.random() < 0.5 and n > 0:
                s = rnd.randrange(n)
                kb = ks[s:s + bn]
            else:
                kb = [rnd.randrange(nkeys) for _ in range(bn)]
            if op in ("merge", "set_union", "set_difference", "set_intersection", "set_symmetric_difference", "includes"):
                kf = (lambda k: (-k if cmp == "greater" else k % 3 if cmp == "mod3" else k))
                ks = sorted(ks, key=kf)
                kb = sorted(kb, key=kf)
                extra = "cmp=" + cmp
            elif op == "lexicographical_compare":
                extra = "cmp=" + cmp
            elif op == "is_permutation":
                kb = list(ks)
                rnd.shuffle(kb)
                if kb and rnd.random() < 0.4:
                    kb[rnd.randrange(len(kb))] = rnd.randrange(nkeys)
                if rnd.random() < 0.2:
                    kb = kb[:-1] if kb else [0]
                extra = "ov=4"
            elif op in ("mismatch", "equal"):
                kb = list(ks)
                if kb and rnd.random() < 0.6:
                    kb[rnd.randrange(len(kb))] = rnd.randrange(nkeys)
                if rnd.random() < 0.3:
                    kb = kb[: rnd.randint(0, len(kb))]
                extra = "ov=4 eq=" + eq
            else:
                extra = "eq=" + eq
            r = [100 * k + i for i, k in enumerate(ks)]
            b = [100 * k + 50 + i for i, k in enumerate(kb)]
            a, f, l = [700] + r + [701], 1, 1 + len(r)
            kinds = FWD if op in ("search", "find_end", "is_permutation") else IN
            g.add(op, a, f, l, "b=%s %s" % (fmt_list(b), extra), kinds, tag=op + "/rand")


def generate(tier, seed):
    thorough = tier == "thorough"
    g = Gen(seed)
    K3 = [0, 1, 2]
    K4 = [0, 1, 2, 3]
    # element type with a user-provided swap (ADL): iter_swap, reverse, swap_ranges over n = 0..8 elements
    for k in range(9):
        g.add("adl_swap", [], 0, 0, "n=%d" % k)
    # single-range operations
    L3 = 6 if thorough else 5
    for r in seqs(K3, L3):
        for a, f, l in in_ctx(r):
            gen_for_range(g, r, a, f, l, 3, thorough, True)
    # sequences that really use the fourth key (cmp=mod3 differs from less only there): up to 3 (quick) / 5 elements
    for r in seqs(K4, 5 if thorough else 3, 1):
        if 300 <= max(r):
            a, f, l = in_ctx(r)[0]
            gen_for_range(g, r, a, f, l, 4, thorough, True)
    # the index-arithmetic mechanisms on longer ranges (contents matter less than positions: 2 keys)
    LL = 7 if thorough else 6
    for r in seqs([0, 1], LL, L3 + 1):
        a, f, l = in_ctx(r)[0]
        n = len(r)
        for m in range(f, l + 1):
            g.add("rotate", a, f, l, "m=%d" % m, FWD)
            for cmp in ("less", "greater"):
                if is_sorted(cmp, r[: m - f]) and is_sorted(cmp, r[m - f:]):
                    g.add("inplace_merge", a, f, l, "m=%d cmp=%s" % (m, cmp), BIDI)
        for it in BIDI:
            g.add("reverse", a, f, l, "it=" + it)
        for cnt in range(0, n + 2):
            g.add("shift_left", a, f, l, "n=%d" % cnt, FWD)
            g.add("shift_right", a, f, l, "n=%d" % cnt, BIDI)
        for p in (1, 2):
            g.add("remove_if", a, f, l, "p=%d" % p, FWD)
            g.add("stable_partition", a, f, l, "p=%d" % p, BIDI)
            g.add("partition", a, f, l, "p=%d" % p, FWD)
        g.add("unique", a, f, l, "eq=eq", FWD)
        for cmp in ("less", "greater"):
            for op in ("sort", "stable_sort", "merge_sort", "bubble_sort", "exchange_sort"):
                g.add(op, a, f, l, "cmp=" + cmp, RA)
            for v in (99, 199):
                if is_sorted(cmp, r):
                    for op in ("lower_bound", "upper_bound", "equal_range", "binary_search"):
                        g.add(op, a, f, l, "v=%d cmp=%s" % (v, cmp), FWD)
        for cnt in range(0, n + 2):
            g.add("search_n", a, f, l, "v=99 n=%d eq=eq" % cnt, FWD)
    # two ranges
    A2, B2 = (5, 4) if thorough else (4, 3)
    bl = [[100 * k + 50 + i for i, k in enumerate(t)] for nb in range(B2 + 1) for t in itertools.product(K3, repeat=nb)]
    for r in seqs(K3, A2):
        a, f, l = in_ctx(r)[0]
        for b in bl:
            gen_two_ranges(g, r, b, a, f, l)
    # ... and two ranges over the 4-key alphabet (merge / set operations / includes under key%3)
    bl4 = [[100 * k + 50 + i for i, k in enumerate(t)] for nb in range(3) for t in itertools.product(K4, repeat=nb)]
    for r in seqs(K4, 3 if thorough else 2):
        a, f, l = in_ctx(r)[0]
        for b in bl4:
            if (r and 300 <= max(r)) or (b and 350 <= max(b)):
                gen_two_ranges(g, r, b, a, f, l)
    gen_copies(g, 6 if thorough else 5)
    gen_minmax(g)
    gen_numeric(g, 5 if thorough else 4, 3 if thorough else 2)
    gen_arith(g, thorough)
    gen_random(g, 150000 if thorough else 15000, thorough)
    return g.cases, False, g.dist


_RNG = re.compile(r" f=(\d+) l=(\d+)")
_B = re.compile(r" b=\[([^\]]*)\]")


def nontrivial(case, rows):
    ln = case.lines[0]
    m = _RNG.search(ln)
    if not m:
        return False
    n = int(m.group(2)) - int(m.group(1))
    mb = _B.search(ln)
    if mb is not None:
        return n >= 1 and mb.group(1) != ""
    if ln.split(" ")[0] in ("min", "max", "minmax", "clamp"):
        return True
    return n >= 2


def classify(case, k, row):
    return None


def group_of(case):
    return case.lines[0].split(" ")[0]


CLAIMED = True
TECHNIQUE = ("Lean 4 proof: hand model (checked reads/writes confined to the given range) = declarative spec for all inputs; "
             "model tied to the code by exhaustive small-scope + random correspondence run against tetl and libstdc++")
LEVEL_TEXT = ("Every function of etl/algorithm.hpp and the folds of etl/numeric.hpp is modelled loop by loop in Lean 4 over a list "
              "`P ++ range ++ S` with every dereference checked to lie inside the range the algorithm was given. For every modelled "
              "algorithm (coverage.theorems) the model is proved, for all element types, ranges, contexts, predicates, split points and "
              "counts (no size bound), to return `.ok` (never touches anything outside the range; fuelled loops such as gnome_sort, "
              "rotate, merge_sort terminate within their fuel) of exactly the declaratively specified std result with the context "
              "unchanged: unstable sorts / partition = a sorted (partitioned) permutation, stable sorts and inplace_merge = the unique "
              "stable sorted permutation (List.mergeSort / List.merge), set operations = the standard's multiplicity rules. The "
              "algorithms that write through an output iterator (copy_if, copy_n, remove_copy(_if), unique_copy (both branches), "
              "reverse_copy, rotate_copy, transform, partition_copy, merge, set_*, partial_sum, adjacent_difference, copy/move into "
              "another object) are modelled with the destination storage, the window the caller provides and the output index: the "
              "`_out` theorems prove destination = D_pre ++ result ++ untouched rest of the window ++ D_post and the RETURNED output "
              "iterator = start + |result| (the pre-fix copy_n and remove_copy_if code is proved to violate them). The second range of "
              "search / find_end / find_first_of is read through checked reads too. Single-pass input iterators: for find / find_if / "
              "find_if_not / all_of / any_of / none_of / count / count_if / for_each / for_each_n / is_partitioned / mismatch / equal "
              "(3 iterators; 4 iterators, non-random-access branch) / lexicographical_compare / includes / accumulate / reduce / "
              "inner_product the loop is modelled a second time on a stream whose cursor is shared by all iterator copies (using a "
              "stale copy is an error) and proved to return the same specified result (`X_singlePass`): one forward pass, no position "
              "re-read after it was passed; the distance-first 4-iterator equal is proved to violate this on every pair of non-empty "
              "ranges of equal length. reverse_iterator's six relations and difference are proved to order the designated positions "
              "(and to exclude the un-inverted relations), reverse over reverse iterators is proved. Hypotheses are the standard's preconditions only "
              "(comparator is a strict weak order, binary predicate of is_permutation an equivalence, partitioned inputs for the "
              "binary searches, sorted inputs for set operations and inplace_merge, non-overlap rule of copy / copy_backward, room in "
              "the second range and in the destination). All algorithms are tied to the current source on every run: model, "
              "implementation (ASan/UBSan, exact-size heap ranges, context sentinels, predicate-touch log, pointer / input / genuinely "
              "single-pass input / forward / bidirectional / write-only output / range-checked random-access iterator wrappers; struct "
              "elements with identity tags and signed char / unsigned char / char / short / bool arrays, a sample of the latter also "
              "evaluated in constant expressions) and libstdc++ are run on the same inputs — exhaustive over a small box (3 keys up to length 5 quick / 6 thorough, the 4th key up to length 3 / 5, 2 keys up "
              "to length 6 / 7 for the index-arithmetic mechanisms: smaller than the 6-7 x 3-4 box the property names, see rule) and "
              "random beyond; the spec is validated against libstdc++ on the same inputs.")
LEVEL_NOTE = ("Trusted: Lean kernel + propext/Classical.choice/Quot.sound; the hand model's fidelity outside the explored inputs; "
              "g++-12/ASan; libstdc++ as oracle for spec validation. nth_element / partial_sort are proved to leave a fully sorted "
              "permutation (what this library does), which implies the standard's weaker postconditions. Iterator arithmetic is "
              "modelled on Nat indices; where the code forms an iterator before testing it (exchange_sort's prev(last)) the model "
              "uses a checked `prevR`; elsewhere a decrement is guarded in the code and in the model, and the range-checked "
              "random-access wrapper of the harness reports any iterator that leaves [first,last]. Iterator-category requirements "
              "(an algorithm must COMPILE for the weakest category its signature names) are observed by instantiating the harness "
              "with those wrappers, not proved. See coverage.unproved_observed for what is observed only or not covered.")
# members modelled and compared on every run but without a Lean theorem yet
CORRESPONDENCE_ONLY = []
# algorithms whose model is proved equal to the spec for all inputs (TetlProofs/C06/Props.lean)
WITH_THEOREM = [
    "find", "find_if", "find_if_not", "all_of", "any_of", "none_of", "count", "count_if", "for_each", "for_each_n",
    "transform (unary; values + destination/returned iterator)", "copy_if (+ destination/returned iterator)",
    "copy_n (+ destination/returned iterator)", "remove_copy (+ destination/returned iterator)",
    "remove_copy_if (+ destination/returned iterator)", "partition_copy (+ both destinations/returned iterators)",
    "reverse_copy (+ destination/returned iterator)", "rotate_copy (+ destination/returned iterator)",
    "copy / move into another object through an output iterator",
    "is_partitioned", "partition_point", "find_first_of (needle as list and as checked range)", "rotate", "reverse (both branches)",
    "reverse over reverse_iterators", "reverse_iterator relations ==, !=, <, <=, >, >= and difference",
    "lower_bound", "upper_bound",
    "equal_range", "mismatch (3/4 iterators)", "equal (3 iterators, 4 iterators both branches)", "lexicographical_compare",
    "single-pass discipline of find / find_if / find_if_not / all_of / any_of / none_of / count / count_if / for_each / for_each_n / "
    "is_partitioned / mismatch / equal / lexicographical_compare / includes / accumulate / reduce / inner_product",
    "accumulate", "reduce", "transform_reduce (unary)", "min", "max", "minmax", "clamp", "remove", "remove_if", "fill", "fill_n",
    "generate", "generate_n", "iota", "replace", "replace_if", "swap_ranges",
    "merge (+ destination/returned iterator)", "stable_partition", "inner_product", "transform_reduce (binary)",
    "adjacent_difference (+ destination/returned iterator)",
    "copy", "move", "copy_backward", "move_backward", "shift_left (both branches)",
    "shift_right (with and without default-constructible value type)",
    "unique_copy (read-back branch and value-copy branch, + destination/returned iterator)", "unique",
    "adjacent_find", "is_sorted_until", "is_sorted", "partition", "transform (binary; + destination/returned iterator)",
    "binary_search", "partial_sum (+ destination/returned iterator)",
    "search (needle as list and as checked range)", "find_end (needle as list and as checked range)", "search_n",
    "sort", "gnome_sort (incl. termination)", "nth_element", "partial_sort", "bubble_sort",
    "exchange_sort (checked prev(last))",
    "stable_sort", "insertion_sort (stability)",
    "min_element", "max_element", "minmax_element", "is_permutation (3/4 iterators)", "includes",
    "set_difference (+ destination/returned iterator)", "set_intersection (+ destination/returned iterator)",
    "set_symmetric_difference (+ destination/returned iterator)", "set_union (+ destination/returned iterator)",
    "inplace_merge (stable merge)", "merge_sort (stability)"]
UNPROVED_OBSERVED = [
    "iterator-category requirements (inplace_merge / stable_partition for bidirectional iterators, unique_copy for a pure output "
    "iterator, ...): observed by instantiating and running the harness with the weakest category each signature names, no theorem",
    "the functor returned by for_each (observed: its call count), the predicate-call ORDER of stable_partition's two recursive "
    "calls (unspecified evaluation order of function arguments)",
    "search(first, last, searcher) / default_searcher and iter_swap with two different iterator types: neither modelled nor run",
    "adl_swap (iter_swap / reverse / swap_ranges over an element type with a user-provided swap found by ADL only: number of user-swap "
    "calls 1, n/2, n and the payload/tag layout): closed-form expectation in the driver ([alg.swap], [alg.reverse]), no loop model",
    "min / max / minmax / clamp return REFERENCES to their arguments: the harness compares values (and identity tags), not addresses",
    "single-pass behaviour of the remaining input-iterator algorithms (copy, move, copy_if, copy_n, remove_copy(_if), unique_copy, "
    "transform 1/2, partition_copy, merge, set_*, partial_sum, adjacent_difference, transform_reduce, find_first_of's first range): "
    "observed by running them on the single-pass iterator `in1` (stale copy => !multipass), no single-pass model/theorem",
    "agreement of the run-time path with the constant-evaluated path (no `is_constant_evaluated` fork, no memcmp-style fast path for "
    "narrow arithmetic types): observed on the constexpr tables of the harness (`ce=`) for lexicographical_compare, equal, mismatch, "
    "search, min/max_element, sort, stable_sort, find, count over signed char / unsigned char / char / short / bool; the theorems are "
    "about the one generic loop the source has",
    "complexity requirements of the standard (not part of the property; partition_point is linear here)"]
