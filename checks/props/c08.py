"""C08 — string_view searches and comparisons equal std::string_view (DESIGN §4 C08)."""
import itertools
import random

from lib import Case, fmt_list

PROP = "C08"
DRIVER = "drv-c08"
PROOF_MODULES = ["TetlProofs.C08.Props"]
HARNESS = "harness/c08.cpp"
SOURCES = ["include/etl/_string_view/basic_string_view.hpp", "include/etl/_string/char_traits.hpp",
           "include/etl/_algorithm/find_end.hpp", "include/etl/_algorithm/search.hpp",
           "include/etl/_algorithm/clamp.hpp"]
RULE = ("exhaustive: every (haystack, needle) over a 3-letter alphabet incl. NUL and a unit >= 0x80, |h|<=4 (5 thorough), "
        "|n|<=3 (4), every pos in [0,|h|+2] and npos, every count in [0,|h|+1] and npos, for each member and overload "
        "(view / char / C string / pointer+count); plus seeded random strings up to length 64 and the five character "
        "types.  A case is non-trivial when the haystack is non-empty and the expected result is not the trivial "
        "answer (npos / 0 / empty) or the needle is empty; distinct = distinct case text.")
ASSUMPTIONS = ["std::basic_string_view of libstdc++ 12 is the reference for spec validation (R2)",
               "views are modelled as lists of unsigned code units; the character type is a parameter of the harness only",
               "wchar_t is a signed 32-bit type on this platform and both tetl and libstdc++ order it as signed: the generator only "
               "produces non-negative wchar_t units, for which the unsigned order of the spec coincides",
               "substr_eq, remove_prefix_eq, remove_suffix_eq state little beyond 'no error under the precondition' (the members are "
               "one-liners whose model is their specification)"]
TRUSTED = ["hand model Tetl/C08/Model.lean tied to the source by the correspondence run (R1) on every run",
           "spec Tetl/C08/Spec.lean validated against libstdc++ (R2) on every run"]
SEARCH_CAP = 600000

SEARCH_OPS = ["find", "rfind", "find_first_of", "find_last_of", "find_first_not_of", "find_last_not_of"]


def strings(alpha, maxlen):
    for n in range(maxlen + 1):
        for t in itertools.product(alpha, repeat=n):
            yield list(t)


def positions(n):
    return list(range(0, n + 3)) + ["npos"]


def generate(tier, seed):
    rnd = random.Random(seed)
    thorough = tier == "thorough"
    A = [97, 98, 0]
    B = [97, 200, 0]
    hmax, nmax = (5, 4) if thorough else (4, 3)
    cases = []
    dist = {}

    def add(line, tag):
        cases.append(Case(line, tag))
        dist[tag] = dist.get(tag, 0) + 1

    hs = list(strings(A, hmax))
    ns = list(strings(A, nmax))
    for op in SEARCH_OPS:
        for h in hs:
            for n in ns:
                for p in positions(len(h)):
                    add("%s h=%s n=%s pos=%s" % (op, fmt_list(h), fmt_list(n), p), op)
                    if len(h) <= 3:
                        if len(n) == 1:
                            add("%s h=%s n=%s pos=%s ov=ch" % (op, fmt_list(h), fmt_list(n), p), op + "/ch")
                        if 0 not in n and len(n) <= 2:
                            add("%s h=%s n=%s pos=%s ov=cstr" % (op, fmt_list(h), fmt_list(n), p), op + "/cstr")
                        if len(n) <= 2:
                            add("%s h=%s n=%s pos=%s ov=ptrn" % (op, fmt_list(h), fmt_list(n), p), op + "/ptrn")
    # comparisons, with a unit >= 0x80 (negative as plain char)
    cs = list(strings(B, 3 if not thorough else 4))
    for a in cs:
        for b in cs:
            add("compare a=%s b=%s" % (fmt_list(a), fmt_list(b)), "compare")
            add("rel a=%s b=%s" % (fmt_list(a), fmt_list(b)), "rel")
            if 0 not in b:
                add("compare a=%s b=%s ov=cstr" % (fmt_list(a), fmt_list(b)), "compare/cstr")
    small = list(strings(B, 3))
    tiny = list(strings(B, 2))
    for a in small:
        for p1 in range(len(a) + 1):
            for c1 in list(range(len(a) + 2)) + ["npos"]:
                for b in tiny:
                    add("compare a=%s pos1=%s count1=%s b=%s" % (fmt_list(a), p1, c1, fmt_list(b)), "compare3")
                    if 0 not in b:
                        add("compare a=%s pos1=%s count1=%s b=%s ov=cstr" % (fmt_list(a), p1, c1, fmt_list(b)), "compare3/cstr")
                    add("compare a=%s pos1=%s count1=%s b=%s ov=ptrn" % (fmt_list(a), p1, c1, fmt_list(b)), "compare3/ptrn")
                    if len(a) <= 2:
                        for p2 in range(len(b) + 1):
                            for c2 in [0, 1, "npos"]:
                                add("compare a=%s pos1=%s count1=%s b=%s pos2=%s count2=%s"
                                    % (fmt_list(a), p1, c1, fmt_list(b), p2, c2), "compare5")
    for h in list(strings(B, 4)):
        for n in small:
            add("starts_with h=%s n=%s" % (fmt_list(h), fmt_list(n)), "starts_with")
            add("ends_with h=%s n=%s" % (fmt_list(h), fmt_list(n)), "ends_with")
            add("contains h=%s n=%s" % (fmt_list(h), fmt_list(n)), "contains")
            if len(n) == 1:
                for op in ("starts_with", "ends_with", "contains"):
                    add("%s h=%s n=%s ov=ch" % (op, fmt_list(h), fmt_list(n)), op + "/ch")
            if 0 not in n:
                for op in ("starts_with", "ends_with", "contains"):
                    add("%s h=%s n=%s ov=cstr" % (op, fmt_list(h), fmt_list(n)), op + "/cstr")
        for p in range(len(h) + 1):
            for c in list(range(len(h) + 2)) + ["npos"]:
                add("substr h=%s pos=%s count=%s" % (fmt_list(h), p, c), "substr")
                add("copy h=%s pos=%s count=%s" % (fmt_list(h), p, c), "copy")
        for n in range(len(h) + 1):
            add("remove_prefix h=%s n=%d" % (fmt_list(h), n), "remove_prefix")
            add("remove_suffix h=%s n=%d" % (fmt_list(h), n), "remove_suffix")
    # other character types (exhaustive on a smaller box)
    W = [97, 98, 0x80]
    for ct, hi in (("wchar", 0x7FFFFFF0), ("c8", 200), ("c16", 0xFFF0), ("c32", 0xFFFFFFF0)):
        alpha = [97, hi, 0]
        for op in SEARCH_OPS:
            for h in strings(alpha, 3):
                for n in strings(alpha, 2):
                    for p in positions(len(h)):
                        add("%s h=%s n=%s pos=%s ct=%s" % (op, fmt_list(h), fmt_list(n), p, ct), op + "/" + ct)
        for a in strings(alpha, 2):
            for b in strings(alpha, 2):
                add("compare a=%s b=%s ct=%s" % (fmt_list(a), fmt_list(b), ct), "compare/" + ct)
                add("rel a=%s b=%s ct=%s" % (fmt_list(a), fmt_list(b), ct), "rel/" + ct)
    # code units whose order by value differs from the order of their low bytes (a byte-wise memcmp on a little-endian
    # target orders these wrongly), for the multi-byte character types; sign-crossing units for the one-byte types
    for ct, units in (("c16", [0xFF, 0x100, 0x1FE, 0x201, 0xFF00]), ("c32", [0xFF, 0x100, 0xFFFF, 0x10000, 0x01000000]),
                      ("wchar", [0xFF, 0x100, 0x10000, 0x7FFFFF00, 0x80000010, 0xFFFFFFFF]), ("c8", [0x7F, 0x80, 0xFF, 1])):
        for a in strings(units, 2):
            for b in strings(units, 2):
                add("compare a=%s b=%s ct=%s" % (fmt_list(a), fmt_list(b), ct), "compare/" + ct)
                add("rel a=%s b=%s ct=%s" % (fmt_list(a), fmt_list(b), ct), "rel/" + ct)
    del W
    # random longer strings
    nrand = 200000 if thorough else 20000
    for _ in range(nrand):
        alpha = rnd.choice([[97, 98], [97, 98, 99, 0], [1, 200, 255]])
        hl = rnd.randint(0, 64)
        h = [rnd.choice(alpha) for _ in range(hl)]
        if rnd.random() < 0.6 and hl > 0:
            s = rnd.randint(0, hl - 1)
            n = h[s:s + rnd.randint(0, 6)]
            if rnd.random() < 0.3 and n:
                n[-1] = rnd.choice(alpha)
        else:
            n = [rnd.choice(alpha) for _ in range(rnd.randint(0, 5))]
        p = rnd.choice([0, 0, rnd.randint(0, hl + 2), "npos", hl, max(hl - 1, 0)])
        op = rnd.choice(SEARCH_OPS + ["compare", "rel", "starts_with", "ends_with"])
        if op in SEARCH_OPS:
            add("%s h=%s n=%s pos=%s" % (op, fmt_list(h), fmt_list(n), p), op + "/rand")
        elif op in ("compare", "rel"):
            b = list(h)
            if b and rnd.random() < 0.7:
                b[rnd.randrange(len(b))] = rnd.choice(alpha)
            if rnd.random() < 0.3:
                b = b[: rnd.randint(0, len(b))]
            add("%s a=%s b=%s" % (op, fmt_list(h), fmt_list(b)), op + "/rand")
        else:
            add("%s h=%s n=%s" % (op, fmt_list(h), fmt_list(n)), op + "/rand")
    return cases, False, dist


def nontrivial(case, rows):
    ln = case.lines[0]
    r = rows[0]
    if "h=[]" in ln or "a=[]" in ln:
        return False
    return r.spec not in ("npos", "0", "[]", "0:[]") or "n=[]" in ln


def classify(case, k, row):
    return None


def group_of(case):
    return case.tag.split("/")[0]

CLAIMED = True
TECHNIQUE = "Lean 4 proof: hand model = declarative spec for all inputs; model tied to the code by exhaustive small-scope + random correspondence run"
LEVEL_TEXT = ("Each modelled member of basic_string_view (reading only through a checked accessor) is proved in Lean 4 to return, "
              "without any out-of-view read, exactly the declaratively specified std result for every haystack, needle, pos and count "
              "(no size bound). The model is tied to the current source on every run by running model and implementation on the same "
              "~4e5 inputs (exhaustive up to |h|<=4,|n|<=3 with every pos/count/overload, five character types, random longer strings) "
              "under ASan/UBSan with exact-size heap views; the spec is validated against libstdc++ on the same inputs.")
LEVEL_NOTE = ("Trusted: Lean kernel + propext/Classical.choice/Quot.sound; the hand model's fidelity outside the explored inputs; "
              "g++-12/ASan; libstdc++ as oracle for spec validation. Members without a theorem yet are listed in evidence "
              "coverage.correspondence_only and are covered by the differential run only.")
# members modelled and compared on every run but without a Lean theorem yet
CORRESPONDENCE_ONLY = []
THEOREMS = {
    "find": ["Tetl.C08.Props.find_eq"], "rfind": ["Tetl.C08.Props.rfind_eq", "Tetl.C08.Props.rfind_char_eq"],
    "find_first_of": ["Tetl.C08.Props.find_first_of_eq"], "find_last_of": ["Tetl.C08.Props.find_last_of_eq"],
    "find_first_not_of": ["Tetl.C08.Props.find_first_not_of_eq", "Tetl.C08.Props.find_first_not_of_char_eq"],
    "find_last_not_of": ["Tetl.C08.Props.find_last_not_of_eq"],
    "compare": ["Tetl.C08.Props.compare_eq", "Tetl.C08.Props.compare3_eq", "Tetl.C08.Props.compare5_eq", "Tetl.C08.Props.cmpSigned_eq_cmp_key"],
    "rel": ["Tetl.C08.Props.viewEq_eq", "Tetl.C08.Props.compare_eq", "Tetl.C08.Props.cmpSigned_eq_cmp_key", "Tetl.C08.Props.signedKey32_inj"],
    "starts_with": ["Tetl.C08.Props.starts_with_eq", "Tetl.C08.Props.starts_with_char_eq"],
    "ends_with": ["Tetl.C08.Props.ends_with_eq", "Tetl.C08.Props.ends_with_char_eq"],
    "contains": ["Tetl.C08.Props.contains_eq"], "substr": ["Tetl.C08.Props.substr_eq"], "copy": ["Tetl.C08.Props.copy_eq"],
    "remove_prefix": ["Tetl.C08.Props.remove_prefix_eq"], "remove_suffix": ["Tetl.C08.Props.remove_suffix_eq"],
}
