"""C12 — duration arithmetic and rounding casts are exact rational arithmetic (DESIGN §4 C12)."""
import concurrent.futures as cf_
import hashlib
import os
import random
from fractions import Fraction
from math import gcd

import lib
from lib import Case

PROP = "C12"
DRIVER = "drv-c12"
PROOF_MODULES = ["TetlProofs.C12.Props", "TetlProofs.C12.PropsExt", "TetlProofs.C12.PropsMixed", "TetlProofs.C12.GenProps"]
HARNESS = "harness/c12.cpp"
HARNESS_FLAGS = ["-g0", "-Wno-unused-function"]
SOURCES = ["include/etl/_chrono/duration.hpp", "include/etl/_chrono/duration_cast.hpp", "include/etl/_chrono/floor.hpp",
           "include/etl/_chrono/ceil.hpp", "include/etl/_chrono/round.hpp", "include/etl/_chrono/abs.hpp",
           "include/etl/_chrono/time_point.hpp", "include/etl/_chrono/time_point_cast.hpp", "include/etl/_ratio",
           "include/etl/_numeric/gcd.hpp", "include/etl/_numeric/lcm.hpp"]
RULE = ("integer representations (int64 x int64): every ordered pair of the ten periods {nano, micro, milli, 1, 60, 3600, 86400, "
        "1/3, 5/7, 1001/30000} x every count in [-2000, 2000] for duration_cast / floor / ceil / round (all counts, incl. every "
        "exact tie and every sign), and for + - / % == != < <= > >= and the conversion to the common type with every first "
        "count in [-2000, 2000] against a fixed and seeded set of second counts; plus counts 2^31 + k, -2^31 + k, 2^62 + k, "
        "-2^62 + k, int64 min/max - k (|k| <= 3) and seeded random 20..62-bit counts, restricted to the cases whose intermediate "
        "products and exact result are representable (the same predicate as the hypotheses of the Lean theorems, evaluated with "
        "exact Python integers; floor / ceil: c * CF::num in intmax_t, the argument in the common type of the comparison, the exact "
        "result - the hypotheses of floor_eq_of_result / ceil_eq_of_result); int32 and mixed int32/int64 representations for the "
        "periods {milli, 60, 1001/30000}; int16 x int16, uint32 x uint32, int64 x int16, uint32 x int32, int64 x uint32, uint32 x int64, "
        "int16 x int64, int32 x uint32, int16 x int32, int32 x int16 on the same periods "
        "(all of int16's and uint32's boundary values, every function incl. the one-type operations on all twelve periods; "
        "for + - / % the comparisons, time_point (+ -) duration, time_point - time_point and the compound assignments += -= %= "
        "with a duration of the OTHER type, second operands 1, 3, 5, 1000, -7, -1 resp. 7, 2^31, 2^32 - 5, the least and the "
        "greatest value of the second representation and a seeded one: an unsigned or most-negative second operand next to a "
        "wider common type; a difference is inside the domain when the two converted operands and the DIFFERENCE are "
        "representable - the sum need not be); "
        "single evaluations of the two known-finding classes (c * CF::num outside intmax_t with a representable result: the "
        "harness process ends with a UBSan report; floor / ceil / round on int32 x int32 around the count where the argument "
        "leaves the 32-bit common type, std column masked); two "
        "periods that are not in lowest terms (ratio<10,14>, ratio<-1001,-30000>).  Floating point (double x double on all "
        "100 pairs; int64 x double and double x int64 on 9 pairs): counts k/8 for k in [-2000, 2000] (every half is a tie) "
        "and seeded random magnitudes, compared bit for bit.  time_point: the same functions through "
        "time_point_cast / floor / ceil / round / comparisons / += / -= / ++ / --, and time_point + duration, duration + "
        "time_point, time_point - duration, time_point - time_point on 36 ordered pairs of int64 periods (ring of first "
        "counts x fixed, seeded and large second counts incl. int64 min, min + 1, max; result in the common period) and on the "
        "int32 / mixed / narrow / unsigned pairs (second counts incl. the least and greatest value of the representation).  "
        "duration * rep, rep * duration, duration / rep, duration % rep: every period x duration representation int32/int64 x "
        "scalar type int32/int64 (mixed pairs: the result has the wider representation) x counts x fixed, seeded and large "
        "scalars, restricted to representable products and to divisors other than 0 and min / -1; double x double.  A line carries up to 64 evaluations.  "
        "A line is non-trivial when its expected results are not all equal; distinct = distinct line text.")
ASSUMPTIONS = ["std::chrono of libstdc++ 12 is the reference for spec validation (R2); the Lean spec (exact core `Rat` arithmetic) "
               "is the primary oracle and replaces the __int128 arithmetic of the design",
               "a representation is modelled as (width, signed); explored: int16, int32, int64, uint32 (int8, uint8, uint16 only in the "
               "theorems; uint64 nowhere: its CR is uint64 and the cast arithmetic modular)",
               "on the inputs of finding F-C12-rounding-compare-narrow-common-type libstdc++ 12 returns the same off-by-one value as "
               "tetl; the reference there is the Returns clause of [time.duration.cast] (floor: greatest t <= d), so the std column "
               "is masked (`ns=1`) on exactly those lines",
               "floating-point representations: IEEE-754 binary64 on both sides (Lean `Float`, x86-64 SSE2 double), no theorem",
               "ratio / ratio_multiply / ratio_divide / common_type are compile-time constants: an overflow there is a compile error, modelled as an error value"]
TRUSTED = ["hand model Tetl/C12/Model.lean tied to the source by the correspondence run (R1) on every run; its four "
           "duration_cast_impl::cast bodies (castCore) additionally by translation (gen/translate.py job set DURCAST_JOBS -> "
           "Tetl/C12/Gen.lean on every run; TetlProofs/C12/GenProps.lean: generated = castCore and generated UB obligation = "
           "castCore returns a value, for all 16 ordered pairs of the representations i16/i32/i64/u32, every count, and "
           "every conversion factor CF::num, CF::den as a parameter); everything that selects a body (ratio_divide, common_type, "
           "CF::num == 1 / CF::den == 1) and floor / ceil / round stay hand-modelled (they go through the comparison and "
           "converting-constructor templates of duration, which the translator does not carry)",
           "gen/translate.py v3 and clang-16's AST for the generated cast bodies; the constructor duration(Rep2 const&) is "
           "translated as the conversion to the constructed type's rep (its mem-initialiser, not re-derived from the AST)",
           "gcd/lcm: the C14 model and its theorems (TetlProofs/C14) are reused",
           "spec Tetl/C12/Spec.lean validated against libstdc++ (R2) on every run",
           "Tetl/C12/FModel.lean (floating point) has no theorem: differential only"]
SEARCH_CAP = 400000
UNPROVED_OBSERVED = ["durations with a floating-point representation (FModel): compared bit for bit with the implementation and "
                     "libstdc++ on every run, no theorem (Lean Float is opaque to the kernel)"]

PER = [(1, 10 ** 9), (1, 10 ** 6), (1, 1000), (1, 1), (60, 1), (3600, 1), (86400, 1), (1, 3), (5, 7), (1001, 30000),
       (10, 14), (-1001, -30000)]
PQ = [Fraction(n, d) for n, d in PER]
REPS = {"i16": (16, True), "i32": (32, True), "i64": (64, True), "u32": (32, False)}      # (width, signed)
I64 = (64, True)
NARROW = (("i16", "i16"), ("u32", "u32"), ("i64", "i16"), ("u32", "i32"),                # harness rc 7..10
          # rc 11..16: an unsigned / narrow operand next to a wider one (the common type differs from an operand's type)
          ("i64", "u32"), ("u32", "i64"), ("i16", "i64"), ("i32", "u32"), ("i16", "i32"), ("i32", "i16"))
SUB = (2, 4, 9)
TPSET = (0, 2, 3, 4, 7, 9)
CHUNK = 64


def alias_pair(a, b):
    return (a == 10 and b in (10, 8, 3)) or (a == 11 and b in (11, 9, 3))


def enabled(r1, r2, k1, k2):
    """the combinations instantiated by harness/c12.cpp (same predicate there)"""
    if (r1, r2) in NARROW:
        return k1 in SUB and k2 in SUB
    full = (r1, r2) in (("i64", "i64"), ("f64", "f64"))
    if k1 < 10 and k2 < 10:
        return True if full else (k1 in SUB and k2 in SUB)
    return (r1, r2) == ("i64", "i64") and (alias_pair(k1, k2) or alias_pair(k2, k1))


def tp_enabled(r1, r2, k1, k2):
    if (r1, r2) in NARROW:
        return k1 in SUB and k2 in SUB
    if (r1, r2) == ("i64", "i64"):
        return (k1 in TPSET and k2 in TPSET) or k1 >= 10 or k2 >= 10
    if (r1, r2) == ("f64", "f64") or "f64" not in (r1, r2):
        return k1 in SUB and k2 in SUB
    return False


# ---------------------------------------------------------------- exact reference / domain predicates (integers)
# These are the decidable hypotheses of the theorems in TetlProofs/C12/Props.lean, evaluated with Python integers.

def rmin(t):
    return -(1 << (t[0] - 1)) if t[1] else 0


def rmax(t):
    return (1 << (t[0] - 1)) - 1 if t[1] else (1 << t[0]) - 1


def fits(t, x):
    """x is a value of the integer type t = (width, signed) (an int t means the signed type of that width)"""
    if isinstance(t, int):
        t = (t, True)
    return rmin(t) <= x <= rmax(t)


def promote(t):
    return (32, True) if t[0] < 32 else t


def usual(a, b):
    a, b = promote(a), promote(b)
    if a[1] == b[1]:
        return a if a[0] >= b[0] else b
    sg, un = (a, b) if a[1] else (b, a)
    return un if un[0] >= sg[0] else sg


def common(a, b):
    """common_type_t<A, B> (ITy.common of the Lean model)"""
    return a if a == b else usual(a, b)


def tdiv(a, b):
    q = abs(a) // abs(b)
    return q if (a < 0) == (b < 0) else -q


def common_period(k1, k2):
    p, q = PQ[k1], PQ[k2]
    g = gcd(p.numerator, q.numerator)
    l = p.denominator * q.denominator // gcd(p.denominator, q.denominator)
    return Fraction(g, l)


# conversion factor N/D of duration_cast<k2>(k1) and the integer multipliers (m1, m2) into the common period
CF = [[((PQ[i] / PQ[j]).numerator, (PQ[i] / PQ[j]).denominator) for j in range(12)] for i in range(12)]
CM = [[((PQ[i] / common_period(i, j)).numerator, (PQ[j] / common_period(i, j)).numerator) for j in range(12)] for i in range(12)]
assert all((PQ[i] / common_period(i, j)).denominator == 1 for i in range(12) for j in range(12))
I64MIN, I64MAX = -(1 << 63), (1 << 63) - 1


def cast_ok(r1, k1, r2, k2, a):
    n, d = CF[k1][k2]
    if not fits(REPS[r1], a) or not (I64MIN <= a * n <= I64MAX):
        return None
    t = tdiv(a * n, d)
    return t if fits(REPS[r2], t) else None


def both_common(r1, k1, r2, k2, a, b):
    """both counts in the common type, None if an intermediate is not representable"""
    w = common(REPS[r1], REPS[r2])
    if not fits(REPS[r1], a) or not fits(REPS[r2], b):
        return None
    m1, m2 = CM[k1][k2]
    x, y = a * m1, b * m2
    if not (I64MIN <= x <= I64MAX and I64MIN <= y <= I64MAX and fits(w, x) and fits(w, y)):
        return None
    return w, x, y


def exact_result(op, k1, k2, a):
    n, d = CF[k1][k2]
    if op == "cast":
        return tdiv(a * n, d)
    if op == "floor":
        return (a * n) // d
    if op == "ceil":
        return -((-a * n) // d)
    if op == "round":
        lo = (a * n) // d
        r2 = 2 * (a * n - lo * d)
        return lo if r2 < d else lo + 1 if r2 > d else lo if lo % 2 == 0 else lo + 1
    raise ValueError(op)


def rounding_ok(op, r1, k1, r2, k2, a):
    n, d = CF[k1][k2]
    if not fits(REPS[r1], a) or not fits(I64, a * n):
        return False
    m1 = CM[k1][k2][0]
    if not (fits(I64, a * m1) and fits(common(REPS[r1], REPS[r2]), a * m1)):
        return False
    return fits(REPS[r2], exact_result(op, k1, k2, a))


def finding_class(op, r1, k1, r2, k2, a):
    """The two known findings, recomputed from the evaluation itself (same predicates as the hypotheses that the Lean
    counterexamples violate): the exact result is representable, but
      * c * CF::num is not a value of intmax_t (durationCast_overflow / durationCast_intermediate_counterexample), or
      * (floor / ceil / round) the argument converted to the common type of the comparison is not a value of its
        representation (floor_narrow_common_counterexample)."""
    op = op[3:] if op.startswith("tp_") else op
    if op not in ("cast", "floor", "ceil", "round") or r1 not in REPS or r2 not in REPS:
        return None
    if not fits(REPS[r1], a) or not fits(REPS[r2], exact_result(op, k1, k2, a)):
        return None
    n, d = CF[k1][k2]
    if not fits(I64, a * n):
        return "F-C12-cast-intermediate-overflow"
    if op != "cast":
        m1 = CM[k1][k2][0]
        if not fits(common(REPS[r1], REPS[r2]), a * m1):
            return "F-C12-rounding-compare-narrow-common-type"
    return None


def dom2(op, r1, k1, r2, k2, a, b=0):
    """is the evaluation inside the documented domain (no intermediate overflow, exact result representable)?"""
    if r1 == "i64" and r2 == "i64" and -2000 <= a <= 2000 and -2000 <= b <= 2000:
        return b != 0 or op not in ("div", "mod")          # every multiplier of the table is below 2^47
    op = op[3:] if op.startswith("tp_") else op
    if op == "cast":
        return cast_ok(r1, k1, r2, k2, a) is not None
    if op in ("floor", "ceil"):
        # floor_eq_of_result / ceil_eq_of_result: the two products the code forms (c * CF::num in intmax_t, the argument in the
        # common type of the comparison) and the exact result; int16 / uint32: the same predicate, no theorem
        return rounding_ok(op, r1, k1, r2, k2, a)
    if op == "round":
        t = cast_ok(r1, k1, r2, k2, a)
        if t is None:
            return False
        # the comparison t > d converts both to the common type of (From, To)
        if both_common(r1, k1, r2, k2, a, t) is None or not fits(REPS[r2], t - 1) or not fits(REPS[r2], t + 1):
            return False
        n, d = CF[k1][k2]
        low = (a * n) // d
        for v in (low, low + 1):
            c = both_common(r1, k1, r2, k2, a, v)
            if c is None or not fits(c[0], c[1] - c[2]) or not fits(c[0], c[2] - c[1]):
                return False
        return fits(REPS[r2], low + 2)
    if op in ("add", "plus"):
        # add_exact_builtin / tpPlus_exact_builtin: both operands converted to the common type FIRST, then the exact sum
        c = both_common(r1, k1, r2, k2, a, b)
        return c is not None and fits(c[0], c[1] + c[2])
    if op in ("sub", "minus", "diff"):
        # only the DIFFERENCE has to be representable: time_point<minutes>{-1} - minutes{INT32_MIN} is inside
        c = both_common(r1, k1, r2, k2, a, b)
        return c is not None and fits(c[0], c[1] - c[2])
    if op in ("adda2", "moda2"):
        # D1 x{a}; x += D2{b} / x -= D2{b} / x %= D2{b}: D2{b} is converted to D1 by the implicit converting constructor
        n, d = CF[k2][k1]
        if d != 1:
            return fits(REPS[r1], a)            # does not convert implicitly: `n/a` on all sides
        e = b * n
        if not (fits(REPS[r1], a) and fits(REPS[r2], b) and fits(I64, e) and fits(REPS[r1], e)):
            return False
        if op == "moda2":
            return e != 0 and not (a == rmin(REPS[r1]) and e == -1)
        return fits(REPS[r1], a + e) and fits(REPS[r1], a - e)
    if op in ("div", "mod"):
        c = both_common(r1, k1, r2, k2, a, b)
        return c is not None and c[2] != 0 and not (c[1] == rmin(c[0]) and c[2] == -1)
    if op in ("cmp", "common"):
        return both_common(r1, k1, r2, k2, a, b) is not None
    if op == "conv":
        if CF[k1][k2][1] != 1:
            return fits(REPS[r1], a)            # not convertible: `n/a` on all sides
        return cast_ok(r1, k1, r2, k2, a) is not None
    if op == "ctype":
        return True
    raise ValueError(op)


def dom1(op, r, a, b, rs=None):
    w = REPS[r]
    op = op[3:] if op.startswith("tp_") else op
    if not fits(w, a):
        return False
    if op in ("mul", "divr", "modr"):
        # duration<r> op scalar of type rs: evaluated in common_type_t<r, rs> (MulIn / DivIn of Props.lean)
        ws = REPS[rs or r]
        wc = common(w, ws)
        if not fits(ws, b) or not fits(wc, b) or not fits(wc, a):
            return False               # (a negative scalar with an unsigned common type is converted modulo 2^32: outside)
        if op == "mul":
            return fits(wc, a * b)
        return b != 0 and not (a == rmin(wc) and b == -1)
    if op in ("abs", "neg"):
        return fits(w, -a)
    if op == "pos":
        return True
    if op in ("inc", "dec"):
        return fits(w, a + 2) and fits(w, a - 2)
    if op == "adda":
        return fits(w, b) and fits(w, a + b)
    if op == "suba":
        return fits(w, b) and fits(w, a - b)        # x -= min is inside for x < 0: only the difference has to be representable
    if op == "mula":
        return fits(w, b) and fits(w, a * b)
    if op in ("diva", "moda", "modad"):
        return fits(w, b) and b != 0 and not (a == rmin(w) and b == -1)
    if op == "limits":
        return True
    raise ValueError(op)


# ---------------------------------------------------------------- generator

OPS_CAST = ["cast", "floor", "ceil", "round"]
OPS_BIN = ["add", "sub", "div", "mod", "cmp", "common"]
OPS_TP2 = ["tp_cast", "tp_floor", "tp_ceil", "tp_round", "tp_cmp", "tp_conv"]
OPS_ONE = ["abs", "neg", "pos", "inc", "dec", "adda", "suba", "mula", "diva", "moda", "modad", "tp_adda", "tp_suba", "tp_inc"]
OPS_TPD = ["tp_plus", "tp_minus", "tp_diff"]          # [time.point.nonmember]
EDGE_B = ("adda", "suba", "tp_adda", "tp_suba")       # second operand also the least / greatest value of the representation
OPS_ASSIGN2 = ["adda2", "moda2", "tp_adda2"]           # compound assignment with a duration of another type
OPS_SCALAR = ["mul", "divr", "modr"]                   # [time.duration.nonmember]: duration and a tick count


def lst(xs):
    return "[" + ",".join(str(x) for x in xs) + "]"


def big_counts(rnd, n):
    vs = set()
    for base in (1 << 31, -(1 << 31), 1 << 62, -(1 << 62), (1 << 63) - 4, -(1 << 63) + 4, 1 << 32, 1 << 53, -(1 << 53)):
        for k in range(-3, 4):
            vs.add(base + k)
    for _ in range(n):
        bits = rnd.randint(12, 62)
        v = rnd.getrandbits(bits)
        vs.add(v)
        vs.add(-v)
    vs.add(I64MIN)
    return sorted(v for v in vs if fits(64, v))


def generate(tier, seed):
    rnd = random.Random(seed)
    thorough = tier == "thorough"
    cases, dist = [], {}

    def add(line, tag, n=1):
        cases.append(Case(line, tag))
        dist[tag] = dist.get(tag, 0) + n

    def emit(op, r1, k1, r2, k2, avals, b=None, fp=False, rs=None):
        """chunked list lines, only in-domain counts"""
        if fp:
            ok = list(avals)
        elif r2 is None:
            ok = [a for a in avals if dom1(op, r1, a, b or 0, rs)]
        else:
            ok = [a for a in avals if dom2(op, r1, k1, r2, k2, a, b or 0)]
        head = ("%s r1=%s p1=%d" % (op, r1, k1) + ("" if r2 is None else " r2=%s p2=%d" % (r2, k2))
                + ("" if rs is None else " rs=%s" % rs))
        tail = "" if b is None else " b=%d" % b
        tag = "%s/%s%s" % (op, r1, "" if r2 is None else "," + r2) + ("" if rs is None else "*" + rs)
        for i in range(0, len(ok), CHUNK):
            ch = ok[i:i + CHUNK]
            add("%s as=%s%s" % (head, lst(ch), tail), tag, len(ch))

    small = list(range(-2000, 2001))
    ring = list(range(-130, 131)) + [-2000, -1999, -1001, -1000, -999, 999, 1000, 1001, 1999, 2000]
    big = big_counts(rnd, 200 if thorough else 40)
    bs_fixed = [-7, -1, 1, 3]
    nb = 6 if thorough else 2
    for k in range(10):
        add("named k=%d" % k, "named")

    # ---- int64 x int64: the property's box
    for k1 in range(12):
        for k2 in range(12):
            if not enabled("i64", "i64", k1, k2):
                continue
            alias = k1 >= 10 or k2 >= 10
            av = ring if alias else small
            for op in OPS_CAST:
                emit(op, "i64", k1, "i64", k2, av)
                emit(op, "i64", k1, "i64", k2, big)
            emit("conv", "i64", k1, "i64", k2, ring + big)
            bs = bs_fixed + [rnd.randint(-2000, 2000) for _ in range(nb)] + [rnd.choice(big)]
            for op in OPS_BIN:
                for b in bs:
                    wide = (not alias) and (thorough or b == 3) and b in bs_fixed     # every first count of the box
                    emit(op, "i64", k1, "i64", k2, av if wide else ring, b)
                emit(op, "i64", k1, "i64", k2, big, rnd.choice(bs_fixed))
                emit(op, "i64", k1, "i64", k2, big, rnd.choice(big))
                if op in ("add", "sub", "cmp"):
                    for b in (I64MIN, I64MAX):
                        emit(op, "i64", k1, "i64", k2, ring + big[::3], b)
            add("ctype r1=i64 p1=%d r2=i64 p2=%d a=0" % (k1, k2), "ctype/i64,i64")
            if tp_enabled("i64", "i64", k1, k2):
                for op in OPS_TP2:
                    emit(op, "i64", k1, "i64", k2, ring + big[::3], 5)
                for op in OPS_TPD:            # different periods: the result is in the common period
                    for b in (bs_fixed if thorough else [-7, 3]) + [rnd.randint(-2000, 2000), rnd.choice(big)]:
                        emit(op, "i64", k1, "i64", k2, (small if (thorough and b == 3) else ring) + big[::3], b)
                    emit(op, "i64", k1, "i64", k2, big, rnd.choice(big))
                    for b in (I64MIN, I64MIN + 1, I64MAX):     # the most negative second operand: x - min is representable for x < 0
                        emit(op, "i64", k1, "i64", k2, ring + big, b)
                for op in OPS_ASSIGN2:
                    for b in [-7, 3, rnd.choice(big)]:
                        emit(op, "i64", k1, "i64", k2, ring + big[::3], b)

    # ---- int32 and mixed representations
    i32big = sorted({(1 << 31) - 1 - k for k in range(4)} | {-(1 << 31) + k for k in range(4)}
                    | {s * (rnd.getrandbits(rnd.randint(12, 30))) for s in (1, -1) for _ in range(30)})
    for (r1, r2) in (("i32", "i32"), ("i32", "i64"), ("i64", "i32")):
        for k1 in SUB:
            for k2 in SUB:
                a_big = i32big if r1 == "i32" else big
                for op in OPS_CAST + ["conv"]:
                    emit(op, r1, k1, r2, k2, (small if thorough else ring) + a_big)
                for op in OPS_BIN:
                    for b in bs_fixed + [rnd.choice(i32big)]:
                        emit(op, r1, k1, r2, k2, ring + a_big, b)
                b_edge = [rmin(REPS[r2]), rmin(REPS[r2]) + 1, rmax(REPS[r2])]
                for op in OPS_TPD + ["tp_cmp"]:
                    for b in bs_fixed + [rnd.choice(i32big)] + b_edge:
                        emit(op, r1, k1, r2, k2, ring + a_big, b)
                for op in ("add", "sub", "cmp"):
                    for b in b_edge:
                        emit(op, r1, k1, r2, k2, ring + a_big, b)
                for op in OPS_ASSIGN2:
                    for b in [-7, 3, rnd.choice(i32big)] + b_edge[:1]:
                        emit(op, r1, k1, r2, k2, ring + a_big, b)
                add("ctype r1=%s p1=%d r2=%s p2=%d a=0" % (r1, k1, r2, k2), "ctype/%s,%s" % (r1, r2))

    # ---- representations narrower than int and unsigned ones: int16 x int16, uint32 x uint32, int64 -> int16, uint32 x int32
    # (cast / converting constructor / unary minus / compound assignments: theorems on `builtinReps`; the rest differential)
    nvals = {"i16": sorted(set(range(-130, 131)) | {32767 - k for k in range(4)} | {-32768 + k for k in range(4)}
                           | {s_ * rnd.getrandbits(rnd.randint(8, 15)) for s_ in (1, -1) for _ in range(20)}),
             "u32": sorted(set(range(0, 261)) | {(1 << 32) - 1 - k for k in range(4)} | {(1 << 31) + k for k in range(-3, 4)}
                           | {rnd.getrandbits(rnd.randint(9, 32)) for _ in range(30)}),
             "i32": ring + i32big, "i64": ring + big}
    for (r1, r2) in NARROW:
        for k1 in SUB:
            for k2 in SUB:
                for op in OPS_CAST + ["conv"]:
                    emit(op, r1, k1, r2, k2, nvals[r1])
                # second operands: small ones of both signs, the least and the greatest value of r2 (for a signed r2 the value whose
                # negation is not representable, for an unsigned r2 values whose negation in r2 wraps), values above the signed range
                t2 = REPS[r2]
                bs = [1, 3, 5, 1000] + ([-7, -1] if t2[1] else [7, (1 << 31), (1 << 32) - 5])
                bs += [rmin(t2), rmin(t2) + 1, rmax(t2), rnd.choice(nvals[r2])]
                bs = sorted(set(bs))
                for op in OPS_BIN:
                    for b in (bs if op in ("add", "sub", "cmp") or thorough else bs[:4] + bs[-1:]):
                        emit(op, r1, k1, r2, k2, nvals[r1], b)
                # time_point<D1> (+ -) D2, time_point<D1> - time_point<D2>, comparisons, time_point casts: mixed representations
                for op in OPS_TPD + ["tp_cmp"]:
                    for b in bs:
                        emit(op, r1, k1, r2, k2, nvals[r1], b)
                for op in ["tp_cast", "tp_floor", "tp_ceil", "tp_round", "tp_conv"]:
                    emit(op, r1, k1, r2, k2, nvals[r1], 5)
                for op in OPS_ASSIGN2:
                    for b in (bs if thorough else bs[:6] + bs[-2:]):
                        emit(op, r1, k1, r2, k2, nvals[r1], b)
                add("ctype r1=%s p1=%d r2=%s p2=%d a=0" % (r1, k1, r2, k2), "ctype/%s,%s" % (r1, r2))

    # ---- the two known findings: the exact result is representable, an intermediate of the code is not (single evaluations;
    # every line of the first class ends the harness process with a UBSan report, so there are few of them)
    for (k1, k2) in ((8, 7), (9, 8), (7, 9)):
        n, d = CF[k1][k2]
        assert n != 1 and d != 1
        for a in (I64MAX // n + 1, -(I64MAX // n) - 2):
            for op in ("cast", "floor") if k1 == 8 else ("cast",):
                assert finding_class(op, "i64", k1, "i64", k2, a) == "F-C12-cast-intermediate-overflow"
                add("%s r1=i64 p1=%d r2=i64 p2=%d a=%d" % (op, k1, k2, a), op + "/i64,i64/finding")
    add("cast r1=i64 p1=8 r2=i64 p2=7 a=%d" % (1 << 60), "cast/i64,i64/finding")
    add("round r1=i64 p1=8 r2=i64 p2=7 a=%d" % -(1 << 60), "round/i64,i64/finding")
    for (k1, k2) in ((2, 9), (9, 2), (4, 9), (9, 4)):
        m1 = CM[k1][k2][0]
        for base in ((1 << 31) // m1, -((1 << 31) // m1)):
            vs = [a for a in range(base - 3, base + 4) if finding_class("floor", "i32", k1, "i32", k2, a)
                  == "F-C12-rounding-compare-narrow-common-type"]
            for op in ("floor", "ceil", "round"):
                for a in (vs[:1] if op == "round" else vs):       # round: the differences overflow int32 as well (UBSan abort)
                    if finding_class(op, "i32", k1, "i32", k2, a) == "F-C12-rounding-compare-narrow-common-type":
                        add("%s r1=i32 p1=%d r2=i32 p2=%d a=%d ns=1" % (op, k1, k2, a), op + "/i32,i32/finding")

    # ---- one-type operations
    for r1 in ("i16", "u32"):
        for k1 in (range(12) if thorough else (2, 4, 9, 10)):      # (these operations do not look at the period)
            for op in OPS_ONE:
                if op == "abs" and not REPS[r1][1]:
                    continue                     # abs participates only for a signed representation
                for b in ([0] if op in ("abs", "neg", "pos", "inc", "dec", "tp_inc") else [1, 3, 7, rnd.choice(nvals[r1])] + ([-7, -1] if REPS[r1][1] else [])
                          + ([rmin(REPS[r1]), rmax(REPS[r1])] if op in EDGE_B else [])):
                    emit(op, r1, k1, None, None, nvals[r1], b)
            for rs in ("i32", "i64"):
                for op in OPS_SCALAR:
                    for b in [-7, -1, 3, rnd.choice(i32big if rs == "i32" else big)]:
                        emit(op, r1, k1, None, None, nvals[r1], b, rs=rs)
            add("limits r1=%s p1=%d a=0" % (r1, k1), "limits/" + r1)
    for r1 in ("i32", "i64"):
        a_big = i32big if r1 == "i32" else big
        for k1 in range(12):
            for op in OPS_ONE:
                for b in ([0] if op in ("abs", "neg", "pos", "inc", "dec", "tp_inc") else [-7, -1, 1, 3, rnd.choice(a_big)]
                          + ([rmin(REPS[r1]), rmax(REPS[r1])] if op in EDGE_B else [])):
                    emit(op, r1, k1, None, None, ring + a_big, b)
            # duration<r1> (* / %) scalar of type rs, incl. the mixed pairs (the result has the wider representation)
            for rs in ("i32", "i64"):
                s_big = i32big if rs == "i32" else big
                for op in OPS_SCALAR:
                    for b in ([-7, -1, 1, 2, 3, 1000] if thorough else [-7, -1, 3]) + [rnd.randint(-2000, 2000), rnd.choice(s_big), rnd.choice(s_big)]:
                        emit(op, r1, k1, None, None, ((small if thorough else ring) if b in (-7, 3) else ring) + a_big, b, rs=rs)
            add("limits r1=%s p1=%d a=0" % (r1, k1), "limits/" + r1)

    # ---- floating point: counts a/8 (every half is a tie of `round`)
    fbig = sorted({s * rnd.getrandbits(rnd.randint(12, 40)) for s in (1, -1) for _ in range(60 if thorough else 16)})
    for (r1, r2) in (("f64", "f64"), ("i64", "f64"), ("f64", "i64")):
        for k1 in range(10):
            for k2 in range(10):
                if not enabled(r1, r2, k1, k2):
                    continue
                av = (small if (thorough or (r1, r2) != ("f64", "f64")) else ring) + fbig
                for op in ["cast", "floor", "ceil", "conv"] + (["round"] if r2 == "i64" else []):
                    emit(op, r1, k1, r2, k2, av, fp=True)
                for op in ("add", "sub", "div", "cmp", "common"):
                    for b in (-7, 3, 8, rnd.choice(fbig)):
                        emit(op, r1, k1, r2, k2, ring + fbig, b, fp=True)
                add("ctype r1=%s p1=%d r2=%s p2=%d a=0" % (r1, k1, r2, k2), "ctype/%s,%s" % (r1, r2))
                if tp_enabled(r1, r2, k1, k2):
                    for op in ("tp_cast", "tp_floor", "tp_ceil", "tp_cmp", "tp_conv", "tp_plus", "tp_minus", "tp_diff"):
                        emit(op, r1, k1, r2, k2, ring, 5, fp=True)
    for k1 in range(12):
        for op in ("abs", "neg", "pos", "inc", "dec", "adda", "suba", "mula", "diva", "mul", "divr", "tp_adda", "tp_suba", "tp_inc"):
            for b in ([0] if op in ("abs", "neg", "pos", "inc", "dec", "tp_inc") else [-7, 3]):
                emit(op, "f64", k1, None, None, ring + fbig, b, fp=True)
        add("limits r1=f64 p1=%d a=0" % k1, "limits/f64")
    return cases, False, dist


def _items(s):
    return s[1:-1].split(",") if s.startswith("[") else [s]


def nontrivial(case, rows):
    return len(set(_items(rows[0].spec))) > 1


def classify(case, k, row):
    """The finding id of a failing single evaluation, recomputed from the case line (op, types, count) with `finding_class` —
    never taken from the tag.  A list line is never classified (the generator puts no element of a finding class into a
    list: they are outside `dom2`), so every other impl != spec is a violation (in particular `missing`, which the harness
    prints when one of the free functions of [time.duration.nonmember] / [time.point.nonmember] is not declared)."""
    kv = dict(t.split("=", 1) for t in case.lines[k].split(" ")[1:] if "=" in t)
    op = case.lines[k].split(" ")[0]
    if "r2" not in kv:
        return None
    if "a" in kv:
        a = int(kv["a"])
    elif "as" in kv and "," not in kv["as"]:
        a = int(kv["as"][1:-1])
    else:
        return None
    try:
        return finding_class(op, kv["r1"], int(kv["p1"]), kv["r2"], int(kv["p2"]), a)
    except (KeyError, ValueError):
        return None


def group_of(case):
    return case.tag.split("/")[0]


# ---------------------------------------------------------------- build: parts in parallel, std:: parts cached
NPARTS = 8


def _build_parts(src, out_name, extra_flags=(), repo=None, std_flags=None):
    """Replacement for lib.build_harness: harness/c12.cpp instantiates ~500 (representation, period) combinations for each
    of the two libraries; one translation unit takes minutes.  The etl parts are recompiled on every run (the tree may have
    changed) in parallel; the std:: parts do not include anything from the repository and are cached by source hash."""
    repo = repo or lib.REPO
    os.makedirs(lib.BUILD, exist_ok=True)
    srcp = os.path.join(lib.VERIF, src)
    flags = (std_flags if std_flags is not None else lib.CXXFLAGS) + list(extra_flags)
    base = [lib.CXX] + flags + ["-I", os.path.join(repo, "include"), "-I", os.path.join(lib.VERIF, "harness"),
                                "-DC12_NPARTS=%d" % NPARTS]
    h = hashlib.sha256()
    for f in (srcp, os.path.join(lib.VERIF, "harness", "proto.hpp")):
        h.update(open(f, "rb").read())
    h.update((" ".join(flags) + " NPARTS=%d" % NPARTS).encode())
    h.update(lib.sh([lib.CXX, "--version"])[1].encode())
    key = h.hexdigest()[:12]
    tag = "%s_%d" % (out_name, os.getpid())
    jobs = []
    for k in range(NPARTS):
        so = os.path.join(lib.BUILD, "c12_std_%s_%d.o" % (key, k))
        if not os.path.exists(so):
            jobs.append((base + ["-DC12_PART=%d" % k, "-DC12_LIB_S", "-c", srcp, "-o", so + ".tmp%d" % os.getpid()], so))
        jobs.append((base + ["-DC12_PART=%d" % k, "-c", srcp, "-o", os.path.join(lib.BUILD, "%s_e%d.o" % (tag, k))], None))
    jobs.append((base + ["-c", srcp, "-o", os.path.join(lib.BUILD, "%s_main.o" % tag)], None))

    def one(job):
        cmd, final = job
        rc, o, e = lib.sh(cmd, timeout=3000)
        if rc == 0 and final:
            os.replace(cmd[-1], final)
        return rc, o + e

    errs = []
    with cf_.ThreadPoolExecutor(max_workers=min(lib.NPROC, len(jobs))) as ex:
        for rc, msg in ex.map(one, jobs):
            if rc != 0:
                errs.append(msg)
    objs = [os.path.join(lib.BUILD, "%s_e%d.o" % (tag, k)) for k in range(NPARTS)] + [os.path.join(lib.BUILD, "%s_main.o" % tag)]
    try:
        if errs:
            return None, errs[0]
        out = os.path.join(lib.BUILD, out_name)
        rc, o, e = lib.sh([lib.CXX, "-fsanitize=address,undefined"] + objs
                          + [os.path.join(lib.BUILD, "c12_std_%s_%d.o" % (key, k)) for k in range(NPARTS)] + ["-o", out],
                          timeout=1200)
        if rc != 0:
            return None, o + e
        return out, ""
    finally:
        for f in objs:
            if os.path.exists(f):
                os.unlink(f)


def _scalar_lines(line):
    toks = line.split(" ")
    for i, tk in enumerate(toks):
        if tk.startswith("as="):
            return [" ".join(toks[:i] + ["a=" + v] + toks[i + 1:]) for v in tk[4:-1].split(",")]
    return [line]


def run(ctx, replay=None):
    """Standard flow with the parallel harness build; afterwards every replay whose case is a list line is reduced to the
    first single evaluation that still fails (re-executed on all four sides)."""
    import json
    import __main__ as chk
    mod = __import__("props.c12", fromlist=["c12"])
    orig = lib.build_harness
    lib.build_harness = _build_parts
    try:
        rc = chk.standard(mod, ctx, replay)
    finally:
        lib.build_harness = orig
    if replay or not ctx.violations:
        return rc
    exe = os.path.join(lib.BUILD, "c12_harness")
    for path in ctx.violations:
        try:
            rp = json.load(open(path))
            if len(rp.get("cases", [])) != 1:
                continue
            singles = _scalar_lines(rp["cases"][0])
            if len(singles) <= 1:
                continue
            cs = [Case(ln, "shrunk") for ln in singles]
            rows = lib.run_batch(ctx, cs, exe, DRIVER, jobs=1)
            for c, r in zip(cs, rows):
                r = r[0]
                if not lib.eq(r.impl, r.spec) or not lib.eq(r.impl, r.model):
                    rp["unshrunk_case"] = rp["cases"]
                    rp["cases"] = c.lines
                    rp.update(r.as_dict())
                    json.dump(rp, open(path, "w"), indent=1)
                    lib.log("  minimal case for %s: %s  impl=%s model=%s spec=%s std=%s"
                            % (os.path.basename(path), c.lines[0], r.impl, r.model, r.spec, r.std))
                    break
        except (OSError, ValueError, lib.MachineryError) as e:   # shrinking is best effort
            lib.log("  (replay %s not shrunk: %s)" % (path, e))
    return rc


CLAIMED = True
TECHNIQUE = ("Lean 4 proof: hand model of ratio / ratio_divide / common_type / the four duration_cast bodies / converting "
             "constructor / operators (incl. duration and tick count, time_point and duration) / floor / ceil / round / abs / "
             "the time_point members and casts / compound assignment with a duration of another type / zero, min, max / the named aliases "
             "(C++ integer types, overflow = error) = exact rational (Q) "
             "semantics for all periods and counts in the documented domain; model tied to the code by an exhaustive-box + "
             "boundary + seeded correspondence run against the implementation and libstdc++; the four duration_cast_impl::cast "
             "bodies additionally by translation from the clang AST (regenerated on every run) and Lean proofs generated = hand "
             "model for all counts and conversion factors")
LEVEL_TEXT = ("Proved in Lean 4, for every pair of periods with positive numerator and denominator, to return (never an error: no "
              "signed overflow, no division by zero, no constructor dropped from overload resolution) exactly the value that exact "
              "rational arithmetic over Q prescribes: "
              "(1) duration_cast and time_point_cast = trunc(c*p/q), on the representations int8..int64, uint8..uint32: for EVERY "
              "count whose exact result is representable when the conversion factor CF has numerator 1 or denominator 1 (three of "
              "the four duration_cast_impl bodies: every cast among nano..days) or when (To::rep max + 2) * CF::den fits intmax_t "
              "(e.g. every target of at most 32 bits with CF::den < 2^31); in general exactly when c * CF::num is a value of "
              "intmax_t (durationCast_exact_iff), which follows from (|result| + 1) * CF::den <= intmax max; the remaining inputs "
              "(result representable, c * CF::num not) are undefined behaviour of the expression [time.duration.cast] prescribes - "
              "known finding F-C12-cast-intermediate-overflow with a proved counterexample. "
              "(2) floor and ceil (duration and time_point) = floor / ceil of c*p/q for every count whose exact result is "
              "representable, given the two products the code forms: c * CF::num in intmax_t and the argument in the common type "
              "of the comparison (signed 32..64-bit representations); when that common representation is 32 bits wide the second "
              "can fail although the result fits: known finding F-C12-rounding-compare-narrow-common-type with proved "
              "counterexamples. round (nearest, ties to even) under the hypothesis that every intermediate is representable "
              "(RoundIn, eleven conjuncts). "
              "(3) the conversion to the common type (converting constructors of duration and time_point, common_type = gcd of "
              "numerators / lcm of denominators), == != < <= > >= of durations and of time_points, + - / % of two durations, "
              "duration * rep, rep * duration, duration / rep, duration % rep, time_point + duration, duration + time_point, "
              "time_point - duration, time_point - time_point, abs, unary plus: signed 32..64-bit representations, operands "
              "representable in the common type, exact result representable; unary minus and += -= *= ++ -- (duration and "
              "time_point) also on int8/int16/uint8/uint16/uint32; /= %=. "
              "(3b) MIXED representations: the conversion to the common type, + - / % of two durations, == != < <= > >= of "
              "durations and of time_points, time_point + duration, duration + time_point, time_point - duration, time_point - "
              "time_point for EVERY ordered pair of the representations int8..int64, uint8..uint32 (49 pairs, `_builtin` theorems): "
              "both operands are converted to the common type first ([time.duration.nonmember], [time.point.nonmember]) and the "
              "result is the exact sum / difference / quotient / remainder / comparison, under exactly 'both converted operands "
              "and the exact result are values of the common representation' - a difference does not need the negated second "
              "operand to be representable in ITS representation (tpMinus_ne_plus_neg_counterexample: lhs + (-rhs) differs for "
              "an unsigned rhs narrower than the common type, for the most negative signed rhs and for int16 min); "
              "+= -= %= of a duration and += -= of a time_point with a duration of another type (converted first by the "
              "implicit constructor, assign2_eq); floor / ceil / round / abs and duration * rep, rep * duration, duration / rep, "
              "duration % rep on the same representations (floor_eq_builtin, floor_eq_of_result_builtin, ceil_eq_builtin, ceil_eq_of_result_builtin, round_eq_builtin, abs_eq_builtin, "
              "mulRep_/divRep_/modRep_exact_builtin: hypotheses as in (2) / (3), every intermediate representable; for the scalar "
              "operators both operands must be values of common_type_t<Rep1, Rep2>, i.e. no negative operand next to an unsigned "
              "common type). "
              "(4) zero / min / max of duration and time_point are 0 and the least / greatest value of the representation; the ten "
              "named aliases nanoseconds..years have the periods of [time.syn] and signed representations of at least the required "
              "width (complete check). "
              "(5) tie T: the four duration_cast_impl<To, CF, CR, CF::num == 1, CF::den == 1>::cast bodies are translated from the "
              "clang AST of the current duration_cast.hpp on every run (CF::num, CF::den symbolic) for the 16 ordered pairs of the "
              "harness' integer representations and proved equal to the model's castCore for every count and every conversion "
              "factor, their undefined-behaviour obligations (product in intmax_t, divisor non-zero, not min / -1) being exactly "
              "'castCore returns a value'. "
              "Every operation on floating-point representations is compared differentially only; the time_point forms of floor / "
              "ceil / round on int16 and uint32 representations are the duration functions by definition of the model. The model is tied to the current source on every run "
              "by running model, implementation, Lean spec and libstdc++ on the same inputs under ASan/UBSan: all 100 ordered "
              "period pairs x all counts in [-2000, 2000] for the four casts (int64), boundary values around 2^31 and 2^62, int32, "
              "int16, uint32 and mixed representations, periods not in lowest terms, double representations bit for bit, the same "
              "functions through time_point, and single inputs of the two finding classes.")
LEVEL_NOTE = ("Trusted: Lean kernel + propext/Classical.choice/Quot.sound; the hand model's fidelity outside the explored inputs "
              "(for the four cast bodies: gen/translate.py + clang-16 instead) "
              "(templates are modelled at the value level: a duration type is (representation, period); a time_point is its "
              "time_since_epoch(), and tpCast/tpFloor/.../tpEq... of the model are by definition the duration functions the source "
              "forwards to); the C14 gcd/lcm model; g++-12/ASan/UBSan; libstdc++ std::chrono as oracle for spec validation. The "
              "hypotheses of the theorems are decidable predicates (RepOk, Builtin, PerOk, DivOk, CommonOk, CastTyOkB, CastIn, "
              "PairIn, PairTyOkB, RoundIn, RoundTyOkB, ScalarTyOk, ScalarTyOkB, MulIn, MulInB, DivIn, DivInB) that the generator evaluates "
              "with exact integers. "
              "DEVIATION from the property text ('every tick count whose exact result is representable'), now exact: "
              "duration_cast meets the wording except on the class {CF::num != 1, CF::den != 1, c * CF::num outside intmax_t} "
              "(example: duration_cast<duration<int64, ratio<1,3>>>(duration<int64, ratio<5,7>>{2^60}); the review's example 2^62 "
              "has a non-representable result); [time.duration.cast]/2 prescribes that expression, libstdc++ has the same undefined "
              "behaviour, so the class is a known finding, not repaired. floor/ceil need in addition the argument in the common "
              "type of their comparison; for int64 x int64 that product equals c * CF::num for periods in lowest terms (not proved "
              "in general: the generator checks both), for 32-bit common representations it is the second known finding (libstdc++ "
              "returns the same off-by-one values; the std column is masked with ns=1 there because the standard's Returns clause is "
              "the reference). round keeps the every-intermediate hypothesis (low + 1 is formed even when low is returned). "
              "uint64 representations are outside theorems and exploration (CR = uint64: modular arithmetic); int8/uint8/uint16 "
              "are inside the cast / assignment theorems but not instantiated in the harness. Floating-point representations have "
              "no theorem (coverage.unproved_observed). The free functions of [time.duration.nonmember] / [time.point.nonmember] "
              "were added to tetl by two fix commits (fixed findings); if one of them is not declared the harness prints "
              "`missing`, which is a violation.")
# members modelled and compared on every run but without a Lean theorem yet
CORRESPONDENCE_ONLY = ["all operations on floating-point representations"]
THEOREMS = {
    "cast": ["C12.GenProps.gen_cast_%s_%s_%s" % (sh, t, f) for sh in ("nd", "d", "n", "id")
             for t in ("i16", "i32", "i64", "u32") for f in ("i16", "i32", "i64", "u32")] + ["C12.Props.durationCast_eq", "C12.Props.durationCast_eq_builtin", "C12.Props.durationCast_eq_of_result",
             "C12.Props.durationCast_eq_narrow_target", "C12.Props.durationCast_exact_iff"],
    "tp_cast": ["C12.Props.tpCast_eq", "C12.Props.tp_casts_forward", "C12.Props.durationCast_eq_of_result"],
    "floor": ["C12.Props.floor_eq", "C12.Props.floor_eq_of_result", "C12.Props.floor_eq_builtin", "C12.Props.floor_eq_of_result_builtin"], "tp_floor": ["C12.Props.tpRounding_eq"],
    "ceil": ["C12.Props.ceil_eq", "C12.Props.ceil_eq_of_result", "C12.Props.ceil_eq_builtin", "C12.Props.ceil_eq_of_result_builtin"], "tp_ceil": ["C12.Props.tpRounding_eq"],
    "round": ["C12.Props.round_eq", "C12.Props.round_eq_builtin"], "tp_round": ["C12.Props.tpRounding_eq"],
    "add": ["C12.Props.add_exact", "C12.Props.add_exact_builtin"], "sub": ["C12.Props.sub_exact", "C12.Props.sub_exact_builtin"],
    "cmp": ["C12.Props.eq_eq", "C12.Props.lt_eq", "C12.Props.cmp_derived_eq", "C12.Props.eq_eq_builtin", "C12.Props.lt_eq_builtin",
            "C12.Props.cmp_derived_eq_builtin"],
    "tp_cmp": ["C12.Props.tpCmp_eq", "C12.Props.tpCmp_eq_builtin"],
    "common": ["C12.Props.common_exact", "C12.Props.common_exact_builtin"], "ctype": ["C12.Props.commonPeriod_eq"],
    "conv": ["C12.Props.common_exact", "C12.Props.convert_exact", "C12.Props.convert_exact_builtin"],
    "tp_conv": ["C12.Props.tpConvert_exact"], "pos": ["C12.Props.pos_eq"],
    "abs": ["C12.Props.abs_eq", "C12.Props.abs_eq_builtin"], "neg": ["C12.Props.neg_eq", "C12.Props.assign_builtin"],
    "adda": ["C12.Props.addAssign_eq", "C12.Props.assign_builtin"], "tp_adda": ["C12.Props.tpAssign_eq"],
    "inc": ["C12.Props.addAssign_eq", "C12.Props.assign_builtin"],
    "suba": ["C12.Props.subAssign_eq", "C12.Props.assign_builtin"], "tp_suba": ["C12.Props.tpAssign_eq"],
    "dec": ["C12.Props.subAssign_eq", "C12.Props.assign_builtin"], "tp_inc": ["C12.Props.tpAssign_eq"],
    "mula": ["C12.Props.mulAssign_eq", "C12.Props.assign_builtin"], "div": ["C12.Props.div_eq", "C12.Props.div_eq_builtin"],
    "mod": ["C12.Props.mod_exact", "C12.Props.mod_exact_builtin"],
    "diva": ["C12.Props.divAssign_eq"], "moda": ["C12.Props.modAssign_eq"], "modad": ["C12.Props.modAssign_eq"],
    "mul": ["C12.Props.mulRep_exact", "C12.Props.mulRep_exact_builtin"], "divr": ["C12.Props.divRep_exact", "C12.Props.divRep_exact_builtin"],
    "modr": ["C12.Props.modRep_exact", "C12.Props.modRep_exact_builtin"],
    "tp_plus": ["C12.Props.tpPlus_exact", "C12.Props.tpPlus_exact_builtin"],
    "tp_minus": ["C12.Props.tpMinus_exact", "C12.Props.tpMinus_exact_builtin", "C12.Props.tpMinus_ne_plus_neg_counterexample"],
    "tp_diff": ["C12.Props.tpDiff_exact", "C12.Props.tpDiff_exact_builtin"],
    "adda2": ["C12.Props.assign2_eq"], "moda2": ["C12.Props.assign2_eq"], "tp_adda2": ["C12.Props.assign2_eq"],
    "limits": ["C12.Props.limits_eq"], "named": ["C12.Props.named_eq"],
}


# ---- tie T for the four duration_cast_impl::cast bodies: regenerated from the clang AST on every run (gen/translate.py,
# job set DURCAST_JOBS); TetlProofs/C12/GenProps.lean is re-checked against the regenerated Tetl/C12/Gen.lean and the driver
# compares the generated body with castCore on every `cast` / `tp_cast` line (`!gen=`).
def regenerate(ctx):
    import sys
    sys.path.insert(0, os.path.join(lib.VERIF, "gen"))
    import translate
    out = os.path.join(lib.LEAN, "Tetl", "C12", "Gen.lean")
    try:
        info = translate.translate_durcast(lib.REPO, out)
    except translate.Unsupported as e:      # the translation unit itself is refused by clang
        return {"generated_files": [os.path.relpath(out, lib.VERIF)], "hash": [], "changed": False, "functions": [],
                "translator": translate.VERSION3, "error": str(e)}
    res = {"generated_files": [os.path.relpath(out, lib.VERIF)], "hash": [lib.file_hash(out)], "changed": info["changed"],
           "functions": info["functions"], "translator": info["translator"]}
    if info["errors"]:
        res["error"] = "; ".join(info["errors"])
    return res
