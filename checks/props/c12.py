"""C12 — duration arithmetic and rounding casts are exact rational arithmetic (DESIGN §4 C12)."""
import concurrent.futures as cf_
import hashlib
import os
import random
from fractions import Fraction
from math import gcd

import lib
from lib import Case

PROP = "C12"
DRIVER = "drv-c12"
PROOF_MODULES = ["TetlProofs.C12.Props"]
HARNESS = "harness/c12.cpp"
HARNESS_FLAGS = ["-g0", "-Wno-unused-function"]
SOURCES = ["include/etl/_chrono/duration.hpp", "include/etl/_chrono/duration_cast.hpp", "include/etl/_chrono/floor.hpp",
           "include/etl/_chrono/ceil.hpp", "include/etl/_chrono/round.hpp", "include/etl/_chrono/abs.hpp",
           "include/etl/_chrono/time_point.hpp", "include/etl/_chrono/time_point_cast.hpp", "include/etl/_ratio",
           "include/etl/_numeric/gcd.hpp", "include/etl/_numeric/lcm.hpp"]
RULE = ("integer representations (int64 x int64): every ordered pair of the ten periods {nano, micro, milli, 1, 60, 3600, 86400, "
        "1/3, 5/7, 1001/30000} x every count in [-2000, 2000] for duration_cast / floor / ceil / round (all counts, incl. every "
        "exact tie and every sign), and for + - / % == != < <= > >= and the conversion to the common type with every first "
        "count in [-2000, 2000] against a fixed and seeded set of second counts; plus counts 2^31 + k, -2^31 + k, 2^62 + k, "
        "-2^62 + k, int64 min/max - k (|k| <= 3) and seeded random 20..62-bit counts, restricted to the cases whose intermediate "
        "products and exact result are representable (the same predicate as the hypotheses of the Lean theorems, evaluated with "
        "exact Python integers); int32 and mixed int32/int64 representations for the periods {milli, 60, 1001/30000}; two "
        "periods that are not in lowest terms (ratio<10,14>, ratio<-1001,-30000>).  Floating point (double x double on all "
        "100 pairs; int64 x double and double x int64 on 9 pairs): counts k/8 for k in [-2000, 2000] (every half is a tie) "
        "and seeded random magnitudes, compared bit for bit.  time_point: the same functions through "
        "time_point_cast / floor / ceil / round / comparisons / += / -= / ++ / --, and time_point + duration, duration + "
        "time_point, time_point - duration, time_point - time_point on 36 ordered pairs of int64 periods (ring of first "
        "counts x fixed, seeded and large second counts, result in the common period) and on the int32 / mixed pairs.  "
        "duration * rep, rep * duration, duration / rep, duration % rep: every period x duration representation int32/int64 x "
        "scalar type int32/int64 (mixed pairs: the result has the wider representation) x counts x fixed, seeded and large "
        "scalars, restricted to representable products and to divisors other than 0 and min / -1; double x double.  A line carries up to 64 evaluations.  "
        "A line is non-trivial when its expected results are not all equal; distinct = distinct line text.")
ASSUMPTIONS = ["std::chrono of libstdc++ 12 is the reference for spec validation (R2); the Lean spec (exact core `Rat` arithmetic) "
               "is the primary oracle and replaces the __int128 arithmetic of the design",
               "a representation is modelled as (width, signed) for int32/int64; narrower or unsigned representations are not explored",
               "floating-point representations: IEEE-754 binary64 on both sides (Lean `Float`, x86-64 SSE2 double), no theorem",
               "ratio / ratio_multiply / ratio_divide / common_type are compile-time constants: an overflow there is a compile error, modelled as an error value"]
TRUSTED = ["hand model Tetl/C12/Model.lean (incl. the four duration_cast_impl::cast bodies, modelled by hand) tied to the source by the "
           "correspondence run (R1) on every run",
           "gcd/lcm: the C14 model and its theorems (TetlProofs/C14) are reused",
           "spec Tetl/C12/Spec.lean validated against libstdc++ (R2) on every run",
           "Tetl/C12/FModel.lean (floating point) has no theorem: differential only"]
SEARCH_CAP = 400000
UNPROVED_OBSERVED = ["durations with a floating-point representation (FModel): compared bit for bit with the implementation and "
                     "libstdc++ on every run, no theorem (Lean Float is opaque to the kernel)"]

PER = [(1, 10 ** 9), (1, 10 ** 6), (1, 1000), (1, 1), (60, 1), (3600, 1), (86400, 1), (1, 3), (5, 7), (1001, 30000),
       (10, 14), (-1001, -30000)]
PQ = [Fraction(n, d) for n, d in PER]
W = {"i32": 32, "i64": 64}
SUB = (2, 4, 9)
TPSET = (0, 2, 3, 4, 7, 9)
CHUNK = 64


def alias_pair(a, b):
    return (a == 10 and b in (10, 8, 3)) or (a == 11 and b in (11, 9, 3))


def enabled(r1, r2, k1, k2):
    """the combinations instantiated by harness/c12.cpp (same predicate there)"""
    full = (r1, r2) in (("i64", "i64"), ("f64", "f64"))
    if k1 < 10 and k2 < 10:
        return True if full else (k1 in SUB and k2 in SUB)
    return (r1, r2) == ("i64", "i64") and (alias_pair(k1, k2) or alias_pair(k2, k1))


def tp_enabled(r1, r2, k1, k2):
    if (r1, r2) == ("i64", "i64"):
        return (k1 in TPSET and k2 in TPSET) or k1 >= 10 or k2 >= 10
    if (r1, r2) == ("f64", "f64") or "f64" not in (r1, r2):
        return k1 in SUB and k2 in SUB
    return False


# ---------------------------------------------------------------- exact reference / domain predicates (integers)
# These are the decidable hypotheses of the theorems in TetlProofs/C12/Props.lean, evaluated with Python integers.

def fits(w, x):
    return -(1 << (w - 1)) <= x <= (1 << (w - 1)) - 1


def tdiv(a, b):
    q = abs(a) // abs(b)
    return q if (a < 0) == (b < 0) else -q


def common_period(k1, k2):
    p, q = PQ[k1], PQ[k2]
    g = gcd(p.numerator, q.numerator)
    l = p.denominator * q.denominator // gcd(p.denominator, q.denominator)
    return Fraction(g, l)


# conversion factor N/D of duration_cast<k2>(k1) and the integer multipliers (m1, m2) into the common period
CF = [[((PQ[i] / PQ[j]).numerator, (PQ[i] / PQ[j]).denominator) for j in range(12)] for i in range(12)]
CM = [[((PQ[i] / common_period(i, j)).numerator, (PQ[j] / common_period(i, j)).numerator) for j in range(12)] for i in range(12)]
assert all((PQ[i] / common_period(i, j)).denominator == 1 for i in range(12) for j in range(12))
I64MIN, I64MAX = -(1 << 63), (1 << 63) - 1


def cast_ok(r1, k1, r2, k2, a):
    n, d = CF[k1][k2]
    if not fits(W[r1], a) or not (I64MIN <= a * n <= I64MAX):
        return None
    t = tdiv(a * n, d)
    return t if fits(W[r2], t) else None


def both_common(r1, k1, r2, k2, a, b):
    """both counts in the common type, None if an intermediate is not representable"""
    w = max(W[r1], W[r2])
    if not fits(W[r1], a) or not fits(W[r2], b):
        return None
    m1, m2 = CM[k1][k2]
    x, y = a * m1, b * m2
    if not (I64MIN <= x <= I64MAX and I64MIN <= y <= I64MAX and fits(w, x) and fits(w, y)):
        return None
    return w, x, y


def dom2(op, r1, k1, r2, k2, a, b=0):
    """is the evaluation inside the documented domain (no intermediate overflow, exact result representable)?"""
    if r1 == "i64" and r2 == "i64" and -2000 <= a <= 2000 and -2000 <= b <= 2000:
        return b != 0 or op not in ("div", "mod")          # every multiplier of the table is below 2^47
    op = op[3:] if op.startswith("tp_") else op
    if op == "cast":
        return cast_ok(r1, k1, r2, k2, a) is not None
    if op in ("floor", "ceil", "round"):
        t = cast_ok(r1, k1, r2, k2, a)
        if t is None:
            return False
        # the comparison t > d / t < d converts both to the common type of (To, From)
        if both_common(r1, k1, r2, k2, a, t) is None or not fits(W[r2], t - 1) or not fits(W[r2], t + 1):
            return False
        if op != "round":
            return True
        n, d = CF[k1][k2]
        low = (a * n) // d
        for v in (low, low + 1):
            c = both_common(r1, k1, r2, k2, a, v)
            if c is None or not fits(c[0], c[1] - c[2]) or not fits(c[0], c[2] - c[1]):
                return False
        return fits(W[r2], low + 2)
    if op in ("add", "sub", "plus", "minus", "diff"):
        c = both_common(r1, k1, r2, k2, a, b)
        return c is not None and fits(c[0], c[1] + c[2]) and fits(c[0], c[1] - c[2])
    if op in ("div", "mod"):
        c = both_common(r1, k1, r2, k2, a, b)
        return c is not None and c[2] != 0 and not (c[1] == -(1 << (c[0] - 1)) and c[2] == -1)
    if op in ("cmp", "common"):
        return both_common(r1, k1, r2, k2, a, b) is not None
    if op == "conv":
        if CF[k1][k2][1] != 1:
            return fits(W[r1], a)               # not convertible: `n/a` on all sides
        return cast_ok(r1, k1, r2, k2, a) is not None
    if op == "ctype":
        return True
    raise ValueError(op)


def dom1(op, r, a, b, rs=None):
    w = W[r]
    op = op[3:] if op.startswith("tp_") else op
    if not fits(w, a):
        return False
    if op in ("mul", "divr", "modr"):
        # duration<r> op scalar of type rs: evaluated in common_type_t<r, rs> (MulIn / DivIn of Props.lean)
        ws = W[rs or r]
        wc = max(w, ws)
        if not fits(ws, b):
            return False
        if op == "mul":
            return fits(wc, a * b)
        return b != 0 and not (a == -(1 << (wc - 1)) and b == -1)
    if op in ("abs", "neg"):
        return fits(w, -a)
    if op == "pos":
        return True
    if op in ("inc", "dec"):
        return fits(w, a + 2) and fits(w, a - 2)
    if op in ("adda", "suba"):
        return fits(w, b) and fits(w, a + b) and fits(w, a - b)
    if op == "mula":
        return fits(w, b) and fits(w, a * b)
    if op in ("diva", "moda", "modad"):
        return fits(w, b) and b != 0 and not (a == -(1 << (w - 1)) and b == -1)
    if op == "limits":
        return True
    raise ValueError(op)


# ---------------------------------------------------------------- generator

OPS_CAST = ["cast", "floor", "ceil", "round"]
OPS_BIN = ["add", "sub", "div", "mod", "cmp", "common"]
OPS_TP2 = ["tp_cast", "tp_floor", "tp_ceil", "tp_round", "tp_cmp", "tp_conv"]
OPS_ONE = ["abs", "neg", "pos", "inc", "dec", "adda", "suba", "mula", "diva", "moda", "modad", "tp_adda", "tp_suba", "tp_inc"]
OPS_TPD = ["tp_plus", "tp_minus", "tp_diff"]          # [time.point.nonmember]
OPS_SCALAR = ["mul", "divr", "modr"]                   # [time.duration.nonmember]: duration and a tick count


def lst(xs):
    return "[" + ",".join(str(x) for x in xs) + "]"


def big_counts(rnd, n):
    vs = set()
    for base in (1 << 31, -(1 << 31), 1 << 62, -(1 << 62), (1 << 63) - 4, -(1 << 63) + 4, 1 << 32, 1 << 53, -(1 << 53)):
        for k in range(-3, 4):
            vs.add(base + k)
    for _ in range(n):
        bits = rnd.randint(12, 62)
        v = rnd.getrandbits(bits)
        vs.add(v)
        vs.add(-v)
    return sorted(v for v in vs if fits(64, v))


def generate(tier, seed):
    rnd = random.Random(seed)
    thorough = tier == "thorough"
    cases, dist = [], {}

    def add(line, tag, n=1):
        cases.append(Case(line, tag))
        dist[tag] = dist.get(tag, 0) + n

    def emit(op, r1, k1, r2, k2, avals, b=None, fp=False, rs=None):
        """chunked list lines, only in-domain counts"""
        if fp:
            ok = list(avals)
        elif r2 is None:
            ok = [a for a in avals if dom1(op, r1, a, b or 0, rs)]
        else:
            ok = [a for a in avals if dom2(op, r1, k1, r2, k2, a, b or 0)]
        head = ("%s r1=%s p1=%d" % (op, r1, k1) + ("" if r2 is None else " r2=%s p2=%d" % (r2, k2))
                + ("" if rs is None else " rs=%s" % rs))
        tail = "" if b is None else " b=%d" % b
        tag = "%s/%s%s" % (op, r1, "" if r2 is None else "," + r2) + ("" if rs is None else "*" + rs)
        for i in range(0, len(ok), CHUNK):
            ch = ok[i:i + CHUNK]
            add("%s as=%s%s" % (head, lst(ch), tail), tag, len(ch))

    small = list(range(-2000, 2001))
    ring = list(range(-130, 131)) + [-2000, -1999, -1001, -1000, -999, 999, 1000, 1001, 1999, 2000]
    big = big_counts(rnd, 200 if thorough else 40)
    bs_fixed = [-7, -1, 1, 3]
    nb = 6 if thorough else 2
    for k in range(10):
        add("named k=%d" % k, "named")

    # ---- int64 x int64: the property's box
    for k1 in range(12):
        for k2 in range(12):
            if not enabled("i64", "i64", k1, k2):
                continue
            alias = k1 >= 10 or k2 >= 10
            av = ring if alias else small
            for op in OPS_CAST:
                emit(op, "i64", k1, "i64", k2, av)
                emit(op, "i64", k1, "i64", k2, big)
            emit("conv", "i64", k1, "i64", k2, ring + big)
            bs = bs_fixed + [rnd.randint(-2000, 2000) for _ in range(nb)] + [rnd.choice(big)]
            for op in OPS_BIN:
                for b in bs:
                    wide = (not alias) and (thorough or b == 3) and b in bs_fixed     # every first count of the box
                    emit(op, "i64", k1, "i64", k2, av if wide else ring, b)
                emit(op, "i64", k1, "i64", k2, big, rnd.choice(bs_fixed))
                emit(op, "i64", k1, "i64", k2, big, rnd.choice(big))
            add("ctype r1=i64 p1=%d r2=i64 p2=%d a=0" % (k1, k2), "ctype/i64,i64")
            if tp_enabled("i64", "i64", k1, k2):
                for op in OPS_TP2:
                    emit(op, "i64", k1, "i64", k2, ring + big[::3], 5)
                for op in OPS_TPD:            # different periods: the result is in the common period
                    for b in (bs_fixed if thorough else [-7, 3]) + [rnd.randint(-2000, 2000), rnd.choice(big)]:
                        emit(op, "i64", k1, "i64", k2, (small if (thorough and b == 3) else ring) + big[::3], b)
                    emit(op, "i64", k1, "i64", k2, big, rnd.choice(big))

    # ---- int32 and mixed representations
    i32big = sorted({(1 << 31) - 1 - k for k in range(4)} | {-(1 << 31) + k for k in range(4)}
                    | {s * (rnd.getrandbits(rnd.randint(12, 30))) for s in (1, -1) for _ in range(30)})
    for (r1, r2) in (("i32", "i32"), ("i32", "i64"), ("i64", "i32")):
        for k1 in SUB:
            for k2 in SUB:
                a_big = i32big if r1 == "i32" else big
                for op in OPS_CAST + ["conv"]:
                    emit(op, r1, k1, r2, k2, (small if thorough else ring) + a_big)
                for op in OPS_BIN:
                    for b in bs_fixed + [rnd.choice(i32big)]:
                        emit(op, r1, k1, r2, k2, ring + a_big, b)
                for op in OPS_TPD:
                    for b in bs_fixed + [rnd.choice(i32big)]:
                        emit(op, r1, k1, r2, k2, ring + a_big, b)
                add("ctype r1=%s p1=%d r2=%s p2=%d a=0" % (r1, k1, r2, k2), "ctype/%s,%s" % (r1, r2))

    # ---- one-type operations
    for r1 in ("i32", "i64"):
        a_big = i32big if r1 == "i32" else big
        for k1 in range(12):
            for op in OPS_ONE:
                for b in ([0] if op in ("abs", "neg", "pos", "inc", "dec", "tp_inc") else [-7, -1, 1, 3, rnd.choice(a_big)]):
                    emit(op, r1, k1, None, None, ring + a_big, b)
            # duration<r1> (* / %) scalar of type rs, incl. the mixed pairs (the result has the wider representation)
            for rs in ("i32", "i64"):
                s_big = i32big if rs == "i32" else big
                for op in OPS_SCALAR:
                    for b in ([-7, -1, 1, 2, 3, 1000] if thorough else [-7, -1, 3]) + [rnd.randint(-2000, 2000), rnd.choice(s_big), rnd.choice(s_big)]:
                        emit(op, r1, k1, None, None, ((small if thorough else ring) if b in (-7, 3) else ring) + a_big, b, rs=rs)
            add("limits r1=%s p1=%d a=0" % (r1, k1), "limits/" + r1)

    # ---- floating point: counts a/8 (every half is a tie of `round`)
    fbig = sorted({s * rnd.getrandbits(rnd.randint(12, 40)) for s in (1, -1) for _ in range(60 if thorough else 16)})
    for (r1, r2) in (("f64", "f64"), ("i64", "f64"), ("f64", "i64")):
        for k1 in range(10):
            for k2 in range(10):
                if not enabled(r1, r2, k1, k2):
                    continue
                av = (small if (thorough or (r1, r2) != ("f64", "f64")) else ring) + fbig
                for op in ["cast", "floor", "ceil", "conv"] + (["round"] if r2 == "i64" else []):
                    emit(op, r1, k1, r2, k2, av, fp=True)
                for op in ("add", "sub", "div", "cmp", "common"):
                    for b in (-7, 3, 8, rnd.choice(fbig)):
                        emit(op, r1, k1, r2, k2, ring + fbig, b, fp=True)
                add("ctype r1=%s p1=%d r2=%s p2=%d a=0" % (r1, k1, r2, k2), "ctype/%s,%s" % (r1, r2))
                if tp_enabled(r1, r2, k1, k2):
                    for op in ("tp_cast", "tp_floor", "tp_ceil", "tp_cmp", "tp_conv", "tp_plus", "tp_minus", "tp_diff"):
                        emit(op, r1, k1, r2, k2, ring, 5, fp=True)
    for k1 in range(12):
        for op in ("abs", "neg", "pos", "inc", "dec", "adda", "suba", "mula", "diva", "mul", "divr", "tp_adda", "tp_suba", "tp_inc"):
            for b in ([0] if op in ("abs", "neg", "pos", "inc", "dec", "tp_inc") else [-7, 3]):
                emit(op, "f64", k1, None, None, ring + fbig, b, fp=True)
        add("limits r1=f64 p1=%d a=0" % k1, "limits/f64")
    return cases, False, dist


def _items(s):
    return s[1:-1].split(",") if s.startswith("[") else [s]


def nontrivial(case, rows):
    return len(set(_items(rows[0].spec))) > 1


def classify(case, k, row):
    """no known finding is open: every impl != spec is a violation (in particular `missing`, which the harness prints when
    one of the free functions of [time.duration.nonmember] / [time.point.nonmember] is not declared)"""
    return None


def group_of(case):
    return case.tag.split("/")[0]


# ---------------------------------------------------------------- build: parts in parallel, std:: parts cached
NPARTS = 8


def _build_parts(src, out_name, extra_flags=(), repo=None, std_flags=None):
    """Replacement for lib.build_harness: harness/c12.cpp instantiates ~500 (representation, period) combinations for each
    of the two libraries; one translation unit takes minutes.  The etl parts are recompiled on every run (the tree may have
    changed) in parallel; the std:: parts do not include anything from the repository and are cached by source hash."""
    repo = repo or lib.REPO
    os.makedirs(lib.BUILD, exist_ok=True)
    srcp = os.path.join(lib.VERIF, src)
    flags = (std_flags if std_flags is not None else lib.CXXFLAGS) + list(extra_flags)
    base = [lib.CXX] + flags + ["-I", os.path.join(repo, "include"), "-I", os.path.join(lib.VERIF, "harness"),
                                "-DC12_NPARTS=%d" % NPARTS]
    h = hashlib.sha256()
    for f in (srcp, os.path.join(lib.VERIF, "harness", "proto.hpp")):
        h.update(open(f, "rb").read())
    h.update((" ".join(flags) + " NPARTS=%d" % NPARTS).encode())
    h.update(lib.sh([lib.CXX, "--version"])[1].encode())
    key = h.hexdigest()[:12]
    tag = "%s_%d" % (out_name, os.getpid())
    jobs = []
    for k in range(NPARTS):
        so = os.path.join(lib.BUILD, "c12_std_%s_%d.o" % (key, k))
        if not os.path.exists(so):
            jobs.append((base + ["-DC12_PART=%d" % k, "-DC12_LIB_S", "-c", srcp, "-o", so + ".tmp%d" % os.getpid()], so))
        jobs.append((base + ["-DC12_PART=%d" % k, "-c", srcp, "-o", os.path.join(lib.BUILD, "%s_e%d.o" % (tag, k))], None))
    jobs.append((base + ["-c", srcp, "-o", os.path.join(lib.BUILD, "%s_main.o" % tag)], None))

    def one(job):
        cmd, final = job
        rc, o, e = lib.sh(cmd, timeout=3000)
        if rc == 0 and final:
            os.replace(cmd[-1], final)
        return rc, o + e

    errs = []
    with cf_.ThreadPoolExecutor(max_workers=min(lib.NPROC, len(jobs))) as ex:
        for rc, msg in ex.map(one, jobs):
            if rc != 0:
                errs.append(msg)
    objs = [os.path.join(lib.BUILD, "%s_e%d.o" % (tag, k)) for k in range(NPARTS)] + [os.path.join(lib.BUILD, "%s_main.o" % tag)]
    try:
        if errs:
            return None, errs[0]
        out = os.path.join(lib.BUILD, out_name)
        rc, o, e = lib.sh([lib.CXX, "-fsanitize=address,undefined"] + objs
                          + [os.path.join(lib.BUILD, "c12_std_%s_%d.o" % (key, k)) for k in range(NPARTS)] + ["-o", out],
                          timeout=1200)
        if rc != 0:
            return None, o + e
        return out, ""
    finally:
        for f in objs:
            if os.path.exists(f):
                os.unlink(f)


def _scalar_lines(line):
    toks = line.split(" ")
    for i, tk in enumerate(toks):
        if tk.startswith("as="):
            return [" ".join(toks[:i] + ["a=" + v] + toks[i + 1:]) for v in tk[4:-1].split(",")]
    return [line]


def run(ctx, replay=None):
    """Standard flow with the parallel harness build; afterwards every replay whose case is a list line is reduced to the
    first single evaluation that still fails (re-executed on all four sides)."""
    import json
    import __main__ as chk
    mod = __import__("props.c12", fromlist=["c12"])
    orig = lib.build_harness
    lib.build_harness = _build_parts
    try:
        rc = chk.standard(mod, ctx, replay)
    finally:
        lib.build_harness = orig
    if replay or not ctx.violations:
        return rc
    exe = os.path.join(lib.BUILD, "c12_harness")
    for path in ctx.violations:
        try:
            rp = json.load(open(path))
            if len(rp.get("cases", [])) != 1:
                continue
            singles = _scalar_lines(rp["cases"][0])
            if len(singles) <= 1:
                continue
            cs = [Case(ln, "shrunk") for ln in singles]
            rows = lib.run_batch(ctx, cs, exe, DRIVER, jobs=1)
            for c, r in zip(cs, rows):
                r = r[0]
                if not lib.eq(r.impl, r.spec) or not lib.eq(r.impl, r.model):
                    rp["unshrunk_case"] = rp["cases"]
                    rp["cases"] = c.lines
                    rp.update(r.as_dict())
                    json.dump(rp, open(path, "w"), indent=1)
                    lib.log("  minimal case for %s: %s  impl=%s model=%s spec=%s std=%s"
                            % (os.path.basename(path), c.lines[0], r.impl, r.model, r.spec, r.std))
                    break
        except (OSError, ValueError, lib.MachineryError) as e:   # shrinking is best effort
            lib.log("  (replay %s not shrunk: %s)" % (path, e))
    return rc


CLAIMED = True
TECHNIQUE = ("Lean 4 proof: hand model of ratio / ratio_divide / common_type / the four duration_cast bodies / converting "
             "constructor / operators (incl. duration and tick count, time_point and duration) / floor / ceil / round / abs "
             "(C++ integer types, overflow = error) = exact rational (Q) "
             "semantics for all periods and counts in the documented domain; model tied to the code by an exhaustive-box + "
             "boundary + seeded correspondence run against the implementation and libstdc++")
LEVEL_TEXT = ("duration_cast (all four duration_cast_impl bodies), the conversion to the common type (the converting constructor and "
              "common_type = gcd of numerators / lcm of denominators), == != < <= > >=, + and - of two durations, floor, ceil, "
              "round (nearest, ties to even), abs, unary minus and plus, the converting constructors of duration and time_point, the compound assignments += -= *= /= %= (also as used by time_point), "
              "duration / duration and duration % duration, duration * rep, rep * duration, duration / rep, duration % rep, "
              "time_point + duration, duration + time_point, time_point - duration and time_point - time_point are proved in Lean 4 — for every pair of periods with positive numerator and denominator, every signed 32..64-bit "
              "representation and every tick count for which the intermediate products and the exact result are representable — "
              "to return (never an error: no signed overflow, no division by zero, no constructor dropped from overload "
              "resolution) exactly the value that exact rational arithmetic over Q prescribes: trunc / floor / ceil / "
              "round-half-even of c*p/q, comparison of the two values in seconds, and a sum / difference whose value in seconds is "
              "the sum / difference of the operands, the truncated quotient of the two values, the exact remainder, c*s ticks for a "
              "product with a tick count, the truncated quotient and the exact remainder of a division by a tick count. The members "
              "listed in coverage.correspondence_only (the named aliases, zero/min/max) and every operation on floating-point representations are compared "
              "differentially only. The model is tied to the current source on every run by running model, implementation, Lean "
              "spec and libstdc++ on the same inputs under ASan/UBSan: all 100 ordered period pairs x all counts in [-2000, 2000] "
              "for the four casts (int64), boundary values around 2^31 and 2^62, int32 and mixed representations, periods not in "
              "lowest terms, double representations bit for bit, and the same functions through time_point.")
LEVEL_NOTE = ("Trusted: Lean kernel + propext/Classical.choice/Quot.sound; the hand model's fidelity outside the explored inputs "
              "(templates are modelled at the value level: a duration type is (representation, period)); the C14 gcd/lcm model; "
              "g++-12/ASan/UBSan; libstdc++ std::chrono as oracle for spec validation. The hypotheses of the theorems are decidable "
              "predicates (RepOk, PerOk, DivOk, CommonOk, CastIn, PairIn, RoundIn, ScalarTyOk, MulIn, DivIn) that the generator evaluates with exact integers; "
              "narrower or unsigned representations are outside the theorems and the exploration. Floating-point "
              "representations have no theorem (coverage.unproved_observed). A time_point is modelled as its time_since_epoch(); the "
              "free functions of [time.duration.nonmember] / [time.point.nonmember] were added to tetl by two fix commits (fixed "
              "findings); if one of them is not declared the harness prints `missing`, which is a violation. "
              "DEVIATION from the property text ('every tick count whose exact result is representable'): the theorems cover "
              "the tick counts for which every INTERMEDIATE of the code is representable (c*CF::num in intmax_t; for floor/ceil "
              "also the operands of the comparison and cast +/- 1; for round the eleven conjuncts of RoundIn) - that is the "
              "UB-free domain of the code as written (and of libstdc++); an input whose exact result is representable only "
              "through 128-bit intermediates, e.g. duration_cast<duration<i64, ratio<1,3>>>(duration<i64, ratio<5,7>>{2^62}), "
              "is outside every theorem and outside the generator (which evaluates the same predicates).")
# members modelled and compared on every run but without a Lean theorem yet
CORRESPONDENCE_ONLY = ["named duration aliases (periods of nanoseconds … years)",
                       "duration::zero/min/max, time_point::min/max",
                       "time_point is not an object of the model: operator+=/-=/++/--, the comparisons, time_point_cast and "
                       "floor/ceil/round(time_point) forward to the duration functions and are covered through the duration "
                       "theorems; the forwarding itself is tied by the harness (R1/R3) only",
                       "all operations on floating-point representations"]
THEOREMS = {
    "cast": ["C12.Props.durationCast_eq"], "tp_cast": ["C12.Props.durationCast_eq"],
    "floor": ["C12.Props.floor_eq"], "tp_floor": ["C12.Props.floor_eq"],
    "ceil": ["C12.Props.ceil_eq"], "tp_ceil": ["C12.Props.ceil_eq"],
    "round": ["C12.Props.round_eq"], "tp_round": ["C12.Props.round_eq"],
    "add": ["C12.Props.add_exact"], "sub": ["C12.Props.sub_exact"],
    "cmp": ["C12.Props.eq_eq", "C12.Props.lt_eq", "C12.Props.cmp_derived_eq"],
    "tp_cmp": ["C12.Props.eq_eq", "C12.Props.lt_eq", "C12.Props.cmp_derived_eq"],
    "common": ["C12.Props.common_exact"], "ctype": ["C12.Props.commonPeriod_eq"],
    "conv": ["C12.Props.common_exact", "C12.Props.convert_exact"], "tp_conv": ["C12.Props.convert_exact"], "pos": ["C12.Props.pos_eq"],
    "abs": ["C12.Props.abs_eq"], "neg": ["C12.Props.neg_eq"],
    "adda": ["C12.Props.addAssign_eq"], "tp_adda": ["C12.Props.addAssign_eq"], "inc": ["C12.Props.addAssign_eq"],
    "suba": ["C12.Props.subAssign_eq"], "tp_suba": ["C12.Props.subAssign_eq"], "dec": ["C12.Props.subAssign_eq"],
    "mula": ["C12.Props.mulAssign_eq"], "div": ["C12.Props.div_eq"], "mod": ["C12.Props.mod_exact"],
    "diva": ["C12.Props.divAssign_eq"], "moda": ["C12.Props.modAssign_eq"], "modad": ["C12.Props.modAssign_eq"],
    "mul": ["C12.Props.mulRep_exact"], "divr": ["C12.Props.divRep_exact"], "modr": ["C12.Props.modRep_exact"],
    "tp_plus": ["C12.Props.tpPlus_exact"], "tp_minus": ["C12.Props.tpMinus_exact"], "tp_diff": ["C12.Props.tpDiff_exact"],
}
