"""C15 — type traits, concepts, numeric_limits and ratio agree with the language and std (DESIGN §4 C15).

The property is decided at compile time, so the flow differs from lib/check.py's `standard`:

  lake build (driver + proofs) -> audit -> the Lean driver enumerates the type zoo and evaluates model and spec
  for every case line -> this module writes generated row files (one call `urow<T,...>(id);` per case line),
  compiles harness/c15.cpp once per part against $VERIF_REPO/include (in parallel) and runs the parts: they
  print the etl and the std value of every trait / member / operation -> item-wise comparison:

    R1 impl = model   (correspondence; modelled items only)
    R2 spec = std     (the Lean spec really is what libstdc++ does; modelled items only)
    R3 impl = spec    (the property; for items without a model the oracle is std: differential only)

A translation unit that does not compile because an *etl* instantiation is ill-formed is a failing obligation
(VIOLATION naming the row), not a machinery error.
"""
import concurrent.futures as cf
import json
import os
import random
import re
import shutil
import subprocess
import time

import sys

import lib
from lib import Case, log

sys.path.insert(0, os.path.join(lib.VERIF, "gen"))
import c15_defs  # noqa: E402

PROP = "C15"
DRIVER = "drv-c15"
PROOF_MODULES = ["TetlProofs.C15.Props", "TetlProofs.C15.PropsGen", "TetlProofs.C15.PropsInvoke"]
HARNESS = "harness/c15.cpp"
SOURCES = ["include/etl/_type_traits", "include/etl/_concepts", "include/etl/_limits/numeric_limits.hpp",
           "include/etl/_ratio", "include/etl/_meta", "include/etl/_numeric/gcd.hpp", "include/etl/_math/abs.hpp",
           "include/etl/_math/sign.hpp", "include/etl/_functional/invoke.hpp", "include/etl/_functional/reference_wrapper.hpp"]
CXXSTD = ["-std=c++2b", "-O0", "-w"]

RULE = ("(c) every type of the Lean-enumerated zoo of depth 0 (31 base types x 4 cv; eight enumerations with underlying types of 1, 2, 4 and 8 bytes) and a seeded sample (thorough: all) of "
        "depths 1-2 plus a sample of depth 3 and random deeper terms: 55 structural traits/concepts per type, each trait in "
        "both forms (X_v<T> / X_t<T> and the class template X<T>::value / ::type); is_same/same_as "
        "over all ordered pairs of a near-miss list; where model and spec call make_signed/make_unsigned ill-formed a seeded "
        "sample of etl::make_(un)signed<T>::type is compiled alone and must be rejected; (d) 60 intrinsic-backed "
        "traits/concepts (the traits in both forms) over a 50-class zoo, its cv/ref/"
        "pointer/array variants and a zoo sample, 22 relational traits/concepts + common_type of 1, 2 and 3 types/common_reference/invoke_result "
        "over all ordered pairs of a relation list; (e) INVOKE: is_invocable, is_invocable_r<R> (R = void, int, int&, int&&, int const&), "
        "invoke_result (each in both forms) and the concepts invocable, regular_invocable, predicate for every pointer to a member "
        "function of a class S (no / & / && ref-qualifier x none / const / const volatile, noexcept, arity 0 and 1; 12 of them) and to a "
        "data member (int, int const) x 15 first arguments (S, derived D, reference_wrapper<S / S const / D> of etl resp. std, S*, "
        "S const*, D*, five pointer-like classes whose operator* is unqualified / const / & / && / returns S const&, an unrelated "
        "class, int) x the six forms T, T&, T&&, T const, T const&, T const&& - all 1260 combinations on every run, plus a seeded "
        "sample (thorough: all) of the member pointer itself in the forms F&, F const&, ..., of wrong arities and of a missing "
        "object argument; 11 function objects (const / & / && / const& / const&& / const volatile& / overloaded / noexcept / void "
        "call operators), 4 functions (type, pointer, reference, noexcept pointer) and 2 non-callables x the six forms x 0, 1, 2 "
        "int arguments and a sample with an object argument; one fixed row of plain etl-vs-std items for aligned_storage, "
        "aligned_union, conditional, enable_if, void_t, unwrap_reference, unwrap_ref_decay, predicate, relation, "
        "equivalence_relation, strict_weak_order, boolean_testable, the <cstdint>/<cstddef> typedefs, the SI ratios and an "
        "incomplete class type; the definitions of all traits are re-extracted from the preprocessed headers "
        "(g++ and clang++ branches) and the table theorems re-checked; a seeded sample of 240 (thorough: 1200) trait and limits rows is "
        "compiled a second time with clang++, which takes the other #if branch of eight traits; (b) all 32 numeric_limits members x 19 arithmetic types x 4 cv; "
        "(a) ratio<n,d> over a small grid and near-overflow values, the four arithmetic aliases and six comparisons over "
        "all ordered pairs of a small ratio list, seeded near-overflow pairs and six targeted families (common denominator with a "
        "cancelling numerator, Bezout-type cancellation n1/a - n2/b = 1/(ab) with products near 2^93, large integer parts of "
        "opposite sign with a fractional carry, completely cancelling products, Fibonacci neighbours for the comparison loop, "
        "lcm(d1,d2) not representable while the sum is); where model and spec say ill-formed a seeded sample of the "
        "instantiations (and ratio<n,0>, ratio<INTMAX_MIN,d>) is compiled alone and must be rejected.  A case is non-trivial when the type is "
        "compound / the pair differs / the callable is a member pointer or not in the plain form F / the ratio is not already reduced or an intermediate exceeds 2^31; distinct = distinct "
        "case text.")
ASSUMPTIONS = ["libstdc++ 12 <type_traits>, <concepts>, <limits>, <ratio> are the reference (R2 validates the Lean spec against them)",
               "x86-64 Linux data model (LP64; char and wchar_t signed) for sizes, signedness and underlying types",
               "compiler intrinsics (__is_class, __is_enum, __is_union, __underlying_type, __is_trivially_*, ...) implement "
               "their documented meaning: for part (d) the theorems say WHICH builtin is asked WHAT (tie), the answer of the "
               "builtin is compared with libstdc++ (differential testing), it has no model"]
TRUSTED = ["hand model Tetl/C15/Model.lean tied to the source by the compile-time correspondence matrix (R1) on every run",
           "spec Tetl/C15/Spec.lean validated against libstdc++ (R2) on every run",
           "type encoder `Enc` of harness/c15.cpp (partial specialisations independent of etl and std)",
           "the named INVOKE zoo: `namespace inv` of harness/c15.cpp and its transcription Inv.callableOf / Inv.abaseOf "
           "(Tetl/C15/Invoke.lean); a mismatch shows as spec != std (R2) on every run",
           "the language rules Inv.Lang (value category of declval, which implicit object arguments a cv-/ref-qualified member "
           "function accepts, overload resolution among call operators, convertibility of the zoo's result types), shared by "
           "model and spec and validated against g++/libstdc++ by R2 on every row",
           "extractors gen/c15_defs.py (trait definitions), gen/c15_invoke.py (INVOKE overload set) and gen/c15_limits.py (numeric_limits members) over the headers as "
           "preprocessed by the compiler under test: tokeniser + recursive descent; what they do not understand becomes an "
           "`opaque` node, which no theorem accepts"]

# ------------------------------------------------------------------ manifest text
CLAIMED = True
TECHNIQUE = ("Three parts are Lean 4 proofs about a hand model that is tied to the source by a compile-time matrix on every "
             "run: (a) <ratio>, (b) numeric_limits of the integer types - here additionally the members AS THE HEADER SPELLS "
             "THEM are extracted from the preprocessed header on every run and evaluated by a small C-expression semantics -, "
             "(c) the structural traits/concepts over a C++ type grammar (incl. make_signed/make_unsigned/underlying_type), "
             "(e) INVOKE (is_invocable, is_invocable_r, invoke_result, invocable, regular_invocable, predicate): a Lean model of "
             "tetl's overload set detail::invoke_impl by types, [func.require]/1.1-1.7 by expressions as the spec, model = spec "
             "for the whole grammar; the overload set is re-extracted from the preprocessed header on every run (gen/c15_invoke.py) "
             "and proved to be the transcribed one.  "
             "Part (d) - about 80 intrinsic-backed class traits, relational traits and concepts, common_type/common_reference "
             "- is tied + observed: the DEFINITION of every trait (which builtin with which arguments, the formula "
             "of a composite trait, the argument pattern of the copy/move families, agreement of the _v and the class-template "
             "form) is extracted from the preprocessed headers on every run and proved to be the prescribed one by decide over "
             "the generated table; the ANSWER of the compiler builtins is a differential etl-vs-libstdc++ matrix only, as are the "
             "floating-point numeric_limits and the logical traits")
LEVEL_TEXT = ("PROVED in Lean 4 for all inputs (coverage.theorems): (c) each of 47 structural traits/concepts, as tetl computes "
              "it (partial specialisations, SFINAE helpers, the not-const-qualifiable test of is_function, the portable "
              "branches of is_scalar/is_object), equals the standard's definition for every well-formed type of a grammar with "
              "cv, pointers, member pointers, references, arrays, qualified function types and eight enumerations (underlying "
              "types of 1/2/4/8 bytes, signed/unsigned, scoped/unscoped), and the standard's laws hold (exactly one primary "
              "category, reference collapsing, remove_cvref = remove_cv after remove_reference); make_signed/make_unsigned "
              "name the type of [meta.trans.sign] (corresponding type; smallest rank of equal size for enumerations and "
              "character types; cv kept) and are ill-formed for the same types, underlying_type is the fixed underlying type; "
              "for the 18 traits/concepts that are formulas over other traits (is_arithmetic, is_fundamental, is_compound, "
              "is_scalar, is_object, is_function, is_void, is_integral ..., signed_integral ...) the formula EXTRACTED from the "
              "header, in both forms, evaluates to the hand model for every type (composite_formulas); "
              "(b) numeric_limits<integer>: is_signed, digits, digits10, min, max, lowest, is_modulo AS SPELLED in the header "
              "(<climits> macros as the preprocessor expands them, literals, casts, the shift expression of "
              "detail::integer_numeric_limits with integral promotion) evaluate without undefined behaviour to 2^digits-1, "
              "-2^digits / 0, floor(digits*log10 2) ... for each of the 16 integer types, the template for every width "
              "8/16/32/64 and both signednesses, and equal the hand model member by member (traps included); digits*3/10 = "
              "floor(digits*log10 2) for every width below 103 bits; (a) ratio, after three fix: commits, against Mathlib's "
              "rational numbers Q: "
              "ratio<n,d> is n/d in lowest terms with a positive denominator for all admissible template arguments and ill-formed "
              "for the others (zero denominator, INTMAX_MIN); ratio_add/subtract/multiply/divide are the canonical "
              "specialisation of the exact sum/difference/product/quotient in Q exactly when numerator and denominator of "
              "that number fit intmax_t - no intermediate of the gcd-first products, of detail::ratio_add_impl or of "
              "detail::ratio_less_impl overflows - and ill-formed otherwise (or when the divisor is zero); ratio_equal/"
              "not_equal/less/less_equal/greater/greater_equal are =, !=, <, <=, >, >= of Q for all operands (the "
              "continued-fraction loop terminates within den+1 iterations).  (e) INVOKE: for every callable of a grammar (function type/pointer/reference, function object "
              "with any list of cv-/ref-qualified call operators, pointer to a member function of S with any cv-qualifier-seq, "
              "ref-qualifier, noexcept and arity, pointer to a data member, non-callable), in each of the six forms F, F&, F&&, "
              "F const, F const&, F const&&, every first argument (S, a derived class, reference_wrapper of either, pointer to "
              "either, a pointer-like class whose operator* has any qualifiers, an unrelated type; six forms each) and any number "
              "of trailing int arguments, tetl's overload set (forwarding-reference deduction, etl::forward, the three constrained "
              "get overloads T&& / t.get() / *forward<T>(t), the two member call overloads, detail::is_invocable_impl) yields "
              "exactly the INVOKE expression of [func.require]/1.1-1.7: well-formed together, same result type and value category "
              "(invoke_eq, invoke_object_expression_eq), hence is_invocable, is_invocable_r<R>, invoke_result, invocable, "
              "regular_invocable and predicate agree; the ref-qualifier rule is a theorem about the spec (an && member function "
              "needs an rvalue object expression, an & one an lvalue unless its cv-qualifier-seq is exactly const - "
              "[expr.mptr.oper]/6 of C++20 -, an unqualified one takes both, a const object needs a const function); the overload "
              "set extracted from the header IS the transcribed one (invoke_overloads_as_modelled), in particular the object "
              "argument is etl::forward<T>(t) and not the named parameter, for which the theorem is shown to fail "
              "(invoke_named_parameter_differs).  (d) TIED, by decide over the table of definitions "
              "extracted from the preprocessed headers on every run: each of 19 intrinsic-backed traits (is_trivial, "
              "is_trivially_copyable, is_standard_layout, is_empty, is_polymorphic, is_abstract, is_final, is_aggregate, "
              "has_virtual_destructor, has_unique_object_representations, is_(trivially_|nothrow_)constructible, "
              "is_(trivially_)assignable, is_trivially_destructible, is_enum/is_class/is_union) is, in both forms, the builtin "
              "of its own name applied to all its template arguments - except is_trivially_constructible, which drops Args... "
              "(known finding; _partial + _counterexample) -, the same for the clang-only #if branches (also executed on a sample: the harness is compiled a second time with clang++), no other builtin is "
              "called anywhere, every _v variable agrees with its class template, and the 17 default/copy/move/swappable "
              "family members pass exactly the argument types [meta.unary.prop] names for every well-formed type.  TIED TO THE "
              "SOURCE on every run by a generated "
              "compile-time matrix (etl = model, std = spec, etl = spec) over a Lean-enumerated zoo of 1.5e3 (quick) / 1e4 "
              "(thorough) types - every trait in both forms -, all arithmetic types and a ratio grid incl. near-overflow values "
              "and targeted families; "
              "instantiations that model and spec call ill-formed (ratio, make_signed/make_unsigned) are compiled alone on a "
              "sample and must be rejected.  "
              "The INVOKE rows (e) compare etl with std, model and spec for all 1260 member-pointer combinations on every run.  "
              "NOT PROVED, differential matrix against libstdc++ only (coverage.unproved_observed): the VALUE of the about 80 "
              "intrinsic-backed class traits and relational traits/concepts over a class zoo (what the compiler builtins and "
              "the SFINAE probes answer), floating-point numeric_limits, conjunction/disjunction/negation.")
LEVEL_NOTE = ("Trusted: Lean kernel + propext/Classical.choice/Quot.sound; fidelity of the hand model outside the explored "
              "types; the extractors gen/c15_defs.py / gen/c15_limits.py; g++ 12 front end and intrinsics; libstdc++ as "
              "oracle.  Part (d) (coverage.unproved_observed): the theorems pin the definitions (which builtin, which "
              "arguments, which formula), not the answers - those are differential testing, not proof; traits defined by "
              "SFINAE probes or partial specialisations the extractor does not read (is_convertible, is_base_of, "
              "is_destructible, is_nothrow_*, is_swappable_with, common_type, the concepts with "
              "requires-expressions) are observed only.  The clang++ #if branches are tied for every trait and executed on a seeded sample of rows only.  "
              "Floating-point numeric_limits members are compared with std only; of the integer members is_specialized, "
              "is_integer, is_exact, radix, is_bounded and the zero-valued floating-point members are compared only.  "
              "numeric_limits<bool>::traps differs from libstdc++ (known finding, implementation-defined member).  INVOKE (e): the "
              "language rules Inv.Lang (what a qualified member function accepts, overload resolution, convertibility) are "
              "shared by model and spec - the theorems are about tetl's case analysis and forwarding, the rules themselves are "
              "validated against g++ by R2 only; volatile objects, abominable function types, arguments other than int and "
              "is_invocable_r<R> for R outside {void, int, int&, int&&, int const&} are outside the grammar.  tetl has no "
              "is_nothrow_invocable / is_nothrow_invocable_r (nothing to compare: the property is about the traits etl has); "
              "aligned_storage<Len> with the default alignment is implementation-defined (libstdc++: the maximum, etl: like "
              "libc++/MSVC) and int_least/int_fast are implementation-defined choices: only what the standard requires is compared.")
CORRESPONDENCE_ONLY = ["add_cv",
                       "the 14 traits defined by partial specialisation (is_const, is_volatile, is_reference, is_lvalue_reference, "
                       "is_rvalue_reference, is_array, is_bounded_array, is_unbounded_array, is_pointer, is_member_pointer, "
                       "is_member_function_pointer, is_signed, is_unsigned, is_scoped_enum) and the type transformations: the "
                       "specialisation patterns are hand-modelled, not extracted (their _v forms and the remove_cv_t wrapping of "
                       "the helpers are: forwarding_vars, helper_traits_strip_cv)",
                       "numeric_limits<floating-point>::* (compared with std only)",
                       "numeric_limits<integer>: is_specialized, is_integer, is_exact, radix, is_bounded and the "
                       "zero-valued floating-point members (compared with std and with constants of the driver only)",
                       "conjunction, disjunction, negation, integral_constant (fixed row, etl vs std)"]
UNPROVED_OBSERVED = [
    "VALUES (the definitions are tied by theorems over the extracted table; what the builtin answers is compared with std only): "
    "is_trivial", "is_trivially_copyable", "is_standard_layout", "is_empty", "is_polymorphic", "is_abstract", "is_final",
    "is_aggregate", "has_virtual_destructor", "has_unique_object_representations",
    "is_(trivially_|nothrow_)?(default_|copy_|move_)?constructible", "is_(trivially_)?(copy_|move_)?assignable",
    "is_trivially_destructible",
    "DEFINITION NOT EXTRACTED (SFINAE probes, noexcept / requires-expressions, partial specialisations), compared with std only: "
    "alignment_of", "is_nothrow_(copy_|move_)?assignable", "is_(nothrow_)?destructible", "is_(nothrow_)?swappable(_with)?",
    "is_(nothrow_)?convertible", "is_base_of",
    "common_type (1, 2 and 3 arguments)", "common_reference",
    "is_invocable / invoke_result / invocable for the class zoo of part (d) (Callable, CallableRef, ... as T1 with T2 as the only "
    "argument: outside the INVOKE grammar of part (e), compared with std only)",
    "concepts: destructible, default_initializable, move_constructible, copy_constructible, movable, copyable, semiregular, "
    "regular, equality_comparable, swappable, convertible_to, derived_from, assignable_from, constructible_from, common_with, "
    "common_reference_with",
    "fixed row, etl vs std only: aligned_storage (explicit alignment), aligned_union, conditional, enable_if, void_t, unwrap_reference, "
    "unwrap_ref_decay, relation, equivalence_relation, strict_weak_order, boolean_testable (against libstdc++'s exposition-only "
    "__boolean_testable), int8_t ... uintptr_t, size_t, ptrdiff_t, nullptr_t, byte, max_align_t, the SI ratios atto ... exa, "
    "17 traits of an incomplete class type",
    "never instantiated by the matrix: the _meta type lists (no std facility of the same name); absent from tetl: "
    "is_nothrow_invocable(_r)"]
THEOREMS = {
    "rn": ["Tetl.C15.Props.mkRatio_rat", "Tetl.C15.Props.mkRatio_eq", "Tetl.C15.Props.mkRatio_illformed",
           "Tetl.C15.Props.mkRatio_valid", "Tetl.C15.Props.valid_num_den", "Tetl.C15.Props.reduce_lowest_terms",
           "Tetl.C15.Props.ratioType_canonical"],
    "ra": ["Tetl.C15.Props.ratioAdd_rat", "Tetl.C15.Props.ratioSub_rat", "Tetl.C15.Props.ratioMul_rat",
           "Tetl.C15.Props.ratioDiv_rat", "Tetl.C15.Props.ratioEqual_rat", "Tetl.C15.Props.ratioNotEqual_rat",
           "Tetl.C15.Props.ratioLess_rat", "Tetl.C15.Props.ratioLessEqual_rat", "Tetl.C15.Props.ratioGreater_rat",
           "Tetl.C15.Props.ratioGreaterEqual_rat", "Tetl.C15.Props.ratioAdd_eq", "Tetl.C15.Props.ratioAdd_illformed",
           "Tetl.C15.Props.ratioSub_eq", "Tetl.C15.Props.ratioSub_illformed", "Tetl.C15.Props.ratioMul_eq",
           "Tetl.C15.Props.ratioMul_illformed", "Tetl.C15.Props.ratioDiv_eq", "Tetl.C15.Props.ratioDiv_illformed"],
    "lim": ["Tetl.C15.Props.limits_spelled_members_eq", "Tetl.C15.Props.limits_template_eq", "Tetl.C15.Props.limits_model_eq_spelled",
            "Tetl.C15.Props.limits_table_complete", "Tetl.C15.Props.limits_shifts_representable",
            "Tetl.C15.Props.intLimits_eq", "Tetl.C15.Props.intLimits_char_eq", "Tetl.C15.Props.intLimits_bool_char8",
            "Tetl.C15.Props.intLimits_traps_partial", "Tetl.C15.Props.digits10_eq_floor_log", "Tetl.C15.Props.digits10_eq_spec"],
    "d": ["Tetl.C15.Props.intrinsic_traits_forward_partial", "Tetl.C15.Props.single_builtin_same_name_partial",
          "Tetl.C15.Props.builtin_inventory_complete", "Tetl.C15.Props.var_and_struct_forms_agree",
          "Tetl.C15.Props.copy_move_families", "Tetl.C15.Props.intrinsic_traits_forward_clang"],
    "db": ["Tetl.C15.Props.intrinsic_traits_forward_partial", "Tetl.C15.Props.single_builtin_same_name_partial",
           "Tetl.C15.Props.var_and_struct_forms_agree"],
    "ut": ["Tetl.C15.Props.exactly_one_primary_category", "Tetl.C15.Props.isFunction_eq", "Tetl.C15.Props.removeCv_eq",
           "Tetl.C15.Props.decay_eq", "Tetl.C15.Props.addPointer_eq", "Tetl.C15.Props.addLvalueReference_eq",
           "Tetl.C15.Props.addRvalueReference_eq", "Tetl.C15.Props.reference_collapsing", "Tetl.C15.Props.isObject_eq",
           "Tetl.C15.Props.isCompound_eq", "Tetl.C15.Props.rank_eq", "Tetl.C15.Props.extent_eq",
           "Tetl.C15.Props.makeSigned_eq", "Tetl.C15.Props.makeUnsigned_eq", "Tetl.C15.Props.underlyingType_eq",
           "Tetl.C15.Props.composite_formulas", "Tetl.C15.Props.forwarding_vars", "Tetl.C15.Props.helper_traits_strip_cv",
           "Tetl.C15.Props.var_and_struct_forms_agree"],
    "bt": ["Tetl.C15.Props.isSame_iff", "Tetl.C15.Props.sameAs_eq"],
    "inv": ["Tetl.C15.Props.invoke_eq", "Tetl.C15.Props.invoke_object_expression_eq", "Tetl.C15.Props.forward_preserves_category",
            "Tetl.C15.Props.invokeResult_eq", "Tetl.C15.Props.isInvocable_eq", "Tetl.C15.Props.isInvocableR_eq",
            "Tetl.C15.Props.invocable_eq", "Tetl.C15.Props.predicate_eq", "Tetl.C15.Props.invoke_ref_qualifier_rule",
            "Tetl.C15.Props.invoke_named_parameter_differs", "Tetl.C15.Props.invoke_overloads_as_modelled",
            "Tetl.C15.Props.invoke_object_argument_forwarded", "Tetl.C15.Props.invoke_extracted_eq_spec"],
}

# ------------------------------------------------------------------ the class zoo (names of harness/c15.cpp)
CLASS_ZOO = ["Cls", "Uni", "EU", "EUF", "ES", "ESC", "ESS", "EUS", "EL", "EULL", "Empty", "EmptyFinal", "Agg", "AggArr", "WithCtor", "ExplicitCtor",
             "NonTrivialDefault", "ThrowingDefault", "NonTrivialCopy", "NothrowCopyThrowingMove", "DeletedCopy", "MoveOnly",
             "DeletedDefault", "DeletedDtor", "ThrowingDtor", "NonTrivialDtor", "VirtualDtor", "Polymorphic", "Abstract",
             "AbstractProtDtor", "PrivateDtor", "Base", "Derived", "DerivedPriv", "DerivedVirt", "PolyFinal", "NonStdLayout",
             "Padded", "WithRef", "WithConst", "ConvToInt", "ConvToIntThrow", "ExplicitConv", "FromCls", "Callable",
             "CallableRef", "EqComparable", "Assignable", "CopyAssignConstOnly", "Swappable", "UnionNonTrivial", "BitField",
             "Lambdaish", "CopyNonConstNothrow", "MoveCtorOnlyNothrowAssignThrows"]
ARITH = ["bool", "char", "schar", "uchar", "wchar", "char8", "char16", "char32", "short", "ushort", "int", "uint", "long",
         "ulong", "llong", "ullong", "float", "double", "ldouble"]
CPP_OF = {"wchar": "wchar_t", "char8": "char8_t", "char16": "char16_t", "char32": "char32_t", "nullptr": "nullptr_t"}
RELATION_TYPES = ["int", "double", "bool", "P<void>", "P<int>", "P<C1<int>>", "L<int>", "L<C1<int>>", "R<int>", "Cls", "Base",
                  "Derived", "L<Derived>", "P<Derived>", "P<Base>", "DerivedPriv", "ConvToInt", "ConvToIntThrow",
                  "ExplicitConv", "FromCls", "Callable", "CallableRef", "Assignable", "L<Assignable>", "ES", "EU",
                  "A<int,3>", "F0000<int>", "P<F1000<int>>", "P<F1001<int>>", "M<int>", "M<F1000<int>>", "void", "nullptr_t",
                  "MoveOnly", "L<MoveOnly>", "Abstract", "L<Abstract>", "Swappable", "L<Swappable>", "long", "uchar"]
# the INVOKE zoo (names of `namespace inv` in harness/c15.cpp = keys of Inv.callableOf / Inv.abaseOf in Tetl/C15/Invoke.lean)
INV_PMF = ["pm_f0", "pm_fl", "pm_fr", "pm_fc", "pm_fcl", "pm_fcr", "pm_fn", "pm_fcn", "pm_fa", "pm_fv", "pm_fvl", "pm_frn"]
INV_PMD = ["pd_x", "pd_cx"]
INV_FOBJ = ["FoP", "FoC", "FoL", "FoR", "FoCL", "FoCR", "FoOv", "FoOv2", "FoN", "FoV", "FoCVL"]
INV_FN = ["fn_t", "fn_p", "fn_r", "fn_pn"]
INV_NC = ["nc_int", "nc_U"]
INV_ARGS = ["S", "D", "rwS", "rwCS", "rwD", "pS", "pCS", "pD", "smC", "smK", "smN", "smL", "smR", "U", "int"]
INV_ARG_CPP = {"S": "inv::S", "D": "inv::D", "U": "inv::U", "int": "int", "pS": "inv::S*", "pCS": "inv::S const*", "pD": "inv::D*",
               "rwS": "%s::reference_wrapper<inv::S>", "rwCS": "%s::reference_wrapper<inv::S const>",
               "rwD": "%s::reference_wrapper<inv::D>", "smC": "inv::smC", "smK": "inv::smK", "smN": "inv::smN", "smL": "inv::smL",
               "smR": "inv::smR"}
SAME_TYPES = ["bint;", "K1bint;", "K2bint;", "K3bint;", "buint;", "blong;", "bllong;", "bchar;", "bschar;", "Pbint;", "K1Pbint;",
              "PK1bint;", "Lbint;", "Rbint;", "LK1bint;", "A3;bint;", "A1;bint;", "Ubint;", "A3;K1bint;", "F0000bint;",
              "F0001bint;", "F0100bint;", "F0010bint;", "F1000bint;", "PF0000bint;", "PF0001bint;", "Mbint;", "MF0000bint;",
              "MF0100bint;", "bCls;", "bUni;", "bES;", "bEU;", "bvoid;", "K1bvoid;", "bnullptr;", "A3;A1;bint;", "A1;A3;bint;",
              "UA3;bint;", "LF0000bint;"]


def cpp_base(name):
    return CPP_OF.get(name, name)


# ------------------------------------------------------------------ generation of case lines

def zoo(level):
    exe = lib.driver_path(DRIVER)
    p = subprocess.run([exe, "zoo", str(level)], stdout=subprocess.PIPE, stderr=subprocess.PIPE, text=True)
    if p.returncode != 0:
        raise lib.MachineryError("driver zoo failed: " + p.stderr[-300:])
    out = []
    for ln in p.stdout.splitlines():
        enc, _, cpp = ln.partition("\t")
        out.append((enc, cpp))
    return out


def random_enc(rnd, depth):
    """A random term of the encoding grammar (not necessarily well-formed: the driver filters)."""
    if depth == 0:
        b = rnd.choice(["int", "void", "Cls", "char", "ES", "double", "Uni", "ullong", "nullptr", "EU", "bool", "EL", "EULL", "ESS", "EUS"])
        q = rnd.choice(["", "", "K1", "K2", "K3"])
        return q + "b" + b + ";"
    k = rnd.choice("PPMLRAUFF")
    inner = random_enc(rnd, depth - 1)
    if k in "PM":
        return rnd.choice(["", "", "K1", "K2", "K3"]) + k + inner
    if k in "LRU":
        return k + inner
    if k == "A":
        return "A%d;" % rnd.choice([1, 2, 3, 7]) + inner
    return "F%d%d%d%d" % (rnd.randrange(3), rnd.randrange(4), rnd.randrange(3), rnd.randrange(2)) + inner


BIG = [2 ** 31, 2 ** 31 - 1, 2 ** 32, 2 ** 32 + 1, 3037000499, 3037000500, 2 ** 62, 2 ** 62 - 1, 2 ** 63 - 1, 2 ** 63 - 2,
       10 ** 18, 10 ** 9, 999999937, 3 * 2 ** 61, 2 ** 61, 6 * 10 ** 17, 2 ** 40, 3 ** 39, 5 ** 27, 7 * 2 ** 59]


def generate(tier, seed):
    """Returns (cases, exhaustive, dist).  A case is one protocol line."""
    rnd = random.Random(seed)
    thorough = tier == "thorough"
    cases, dist = [], {}

    def add(line, tag):
        cases.append(Case(line, tag))
        dist[tag] = dist.get(tag, 0) + 1

    # (c) structural zoo
    z0, z1, z2, z3 = zoo(0), zoo(1), zoo(2), zoo(3)
    for enc, _ in z0:
        add("ut t=" + enc, "ut/depth0")
    for lvl, zs, nq in ((1, z1, 500), (2, z2, 450), (3, z3, 200 if not thorough else 4000)):
        pick = zs if (thorough and lvl < 3) else rnd.sample(zs, min(nq, len(zs)))
        for enc, _ in pick:
            add("ut t=" + enc, "ut/depth%d" % lvl)
    seen = set()
    for _ in range(400 if not thorough else 6000):
        e = random_enc(rnd, rnd.choice([2, 3, 3, 4, 5]))
        if e not in seen:
            seen.add(e)
            add("ut t=" + e, "ut/random")          # ill-formed terms are answered `illformed` by the driver and dropped
    same = SAME_TYPES if thorough else SAME_TYPES[:22]
    for a in same:
        for b in same:
            add("bt a=%s b=%s" % (a, b), "bt")
    # (d) class zoo and relations
    for c in CLASS_ZOO:
        add("d t=" + c, "d/class")
        for w in ("C1<%s>", "C3<%s>", "L<%s>", "R<%s>", "P<%s>", "A<%s,2>", "UA<%s>", "L<C1<%s>>"):
            if thorough or rnd.random() < 0.35:
                if c in ("Abstract", "AbstractProtDtor") and w.startswith(("A<", "UA<")):
                    continue                                    # array of abstract class: ill-formed type
                add("d t=" + (w % c), "d/class-variant")
    for b in ARITH + ["void", "nullptr"]:
        add("d t=" + cpp_base(b), "d/builtin")
    for enc, cpp in rnd.sample(z1 + z2, 150 if not thorough else 1500):
        add("d t=" + cpp, "d/zoo")
    rel = RELATION_TYPES if thorough else RELATION_TYPES[:26] + rnd.sample(RELATION_TYPES[26:], 4)
    for a in rel:
        for b in rel:
            add("db a=%s b=%s" % (a, b), "db")
    # INVOKE ([func.require]): every pointer to member x every first argument x its six cv/ref forms (the member pointer
    # itself in the form `F`; a seeded third also as `F&`, `F const&`, ...), wrong arities, no object argument; every
    # function object / function x its six forms x 0, 1, 2 int arguments; function objects with an object argument
    rnd_main, rnd = rnd, random.Random(seed * 7919 + 15)          # own stream: the later parts keep theirs
    def inv(f, fq, a, aq, n, tag):
        add("inv f=%s fq=%d a=%s aq=%d n=%d" % (f, fq, a, aq, n), tag)
    for f in INV_PMF + INV_PMD:
        arity = 1 if f == "pm_fa" else 0
        for a in INV_ARGS:
            for aq in range(6):
                inv(f, 0, a, aq, arity, "inv/member")
                if thorough or rnd.random() < 0.2:
                    inv(f, rnd.randrange(1, 6), a, aq, arity, "inv/member-fq")
                if thorough or rnd.random() < 0.1:
                    inv(f, 0, a, aq, 1 - arity, "inv/member-arity")
        for fq in range(6):
            inv(f, fq, "none", 0, 0, "inv/member-noobj")
    for f in INV_FOBJ + INV_FN + INV_NC:
        for fq in range(6):
            for n in (0, 1, 2):
                inv(f, fq, "none", 0, n, "inv/call")
            for a in (INV_ARGS if thorough else rnd.sample(INV_ARGS, 2)):
                inv(f, fq, a, rnd.randrange(6), rnd.randrange(2), "inv/call-obj")
    rnd = rnd_main
    # (b) numeric_limits
    for t in ARITH:
        for q in range(4):
            add("lim t=%s q=%d" % (t, q), "lim")
    # (a) ratio
    small = [-6, -4, -3, -2, -1, 0, 1, 2, 3, 4, 6, 10]
    for n in small:
        for d in small:
            if d != 0:
                add("rn n=%d d=%d" % (n, d), "rn/small")
    for n in BIG:
        for d in BIG[::2] + [1, 2, 3, 10]:
            add("rn n=%d d=%d" % (n, d), "rn/big")
            add("rn n=%d d=%d" % (-n, d), "rn/big")
            if thorough:
                add("rn n=%d d=%d" % (d, -n), "rn/big")
    rs = [(n, d) for n in (-3, -2, -1, 0, 1, 2, 3, 4) for d in (1, 2, 3, 4, -2, 6)]
    if not thorough:
        rs = rnd.sample(rs, 22)
    for (a, b) in rs:
        for (c, d) in rs:
            add("ra n1=%d d1=%d n2=%d d2=%d" % (a, b, c, d), "ra/small")
    vals = BIG + [1, 2, 3, 5, 6, 10, 1000, 10 ** 6]
    for _ in range(160 if not thorough else 2500):
        a, b, c, d = (rnd.choice(vals) * rnd.choice([1, 1, -1]) for _ in range(4))
        if rnd.random() < 0.3:
            d = b                      # same denominator: the reduced result is representable, tetl's product is not
        if rnd.random() < 0.2:
            c, d = b, a                # reciprocal
        add("ra n1=%d d1=%d n2=%d d2=%d" % (a, b, c, d), "ra/big")
    # families aimed at the overflow-free formulations (ratio_add_impl, gcd-first multiply, Euclid comparison):
    # the reduced result is representable although a naive product is not
    M = 2 ** 63 - 1
    import math
    for _ in range(60 if not thorough else 900):
        k = rnd.randrange(6)
        if k == 5:        # lcm(d1, d2) is not representable, the sum is: only the factor p of gcd(d1, d2) cancels
            a, b = rnd.choice([(2, 3), (3, 2), (3, 4), (5, 2), (2, 7), (3, 5)])
            p_ = rnd.choice([5, 7, 11, 13, 25, 49, 121]) if (a * b) % 5 else rnd.choice([7, 11, 13, 49, 121])
            if math.gcd(p_, a * b) != 1:
                continue
            e = 1
            while p_ * 2 ** (e + 1) * max(a, b) <= M:
                e += 1
            g = p_ * 2 ** e                                   # g max(a, b) <= M < 2 g max(a, b) <= g a b
            d1, d2 = g * a, g * b
            n1 = rnd.choice([1, 3, 9, 17, 19, 23, 27, 29, 31, 37, 41, 43, 47, 53])
            n1 *= rnd.choice([1, -1])
            if math.gcd(n1, d1) != 1:
                continue
            n2 = next((t for t in range(1, 4 * p_ * 30, 2) if (n1 * b + t * a) % p_ == 0 and math.gcd(t, d2) == 1), None)
            if n2 is None:
                continue
            line = (n1, d1, n2, d2)
        elif k == 0:      # common denominator g with a cancelling numerator: n1/g + n2/g, g2 = gcd(n1+n2, g) > 1
            g = rnd.choice([2 ** 62, 2 ** 61 * 3, 10 ** 18, 6 * 10 ** 17, 2 ** 40 * 3 ** 10])
            n1 = rnd.randrange(1, M) | 1
            n2 = (g * rnd.randrange(1, 4) - n1 % g) % g + g * rnd.randrange(0, 2)
            line = (n1 * rnd.choice([1, -1]), g, n2, g)
        elif k == 1:      # Bezout-type cancellation: n1/a - n2/b = 1/(a b) with n1 b ~ 2^93
            a, b = rnd.choice([(2 ** 31 - 1, 2 ** 31), (2 ** 31 + 11, 2 ** 31 - 1), (3037000499, 3037000500), (999999937, 10 ** 9)])
            x = pow(b, -1, a)                         # x b = 1 (mod a)
            t = rnd.randrange(2 ** 29, 2 ** 30)
            n1 = x + t * a
            n2 = (n1 * b - 1) // a
            line = (n1, a, -n2, b)
        elif k == 2:      # large integer parts of opposite sign, small fractional sum with carry
            d1, d2 = rnd.choice([(6, 4), (10, 15), (2 ** 20, 2 ** 21), (3 ** 20, 3 ** 19 * 2), (12, 18)])
            top = M // max(d1, d2)
            i = rnd.randrange(min(2 ** 40, top // 2), top)
            line = (i * d1 + rnd.randrange(1, d1), d1, -(i - rnd.randrange(0, 3)) * d2 + rnd.randrange(1, d2), d2)
        elif k == 3:      # products that cancel completely: (p/q) * (q'/p') with shared large factors
            p_, q_ = rnd.choice(BIG), rnd.choice(BIG)
            u, v = rnd.choice([1, 2, 3, 5, 7, 2 ** 20]), rnd.choice([1, 3, 4, 9, 11, 3 ** 12])
            line = (p_, q_, q_ // math.gcd(q_, v) * u if rnd.random() < 0.5 else q_, p_ // math.gcd(p_, u) * v if rnd.random() < 0.5 else p_)
        else:             # neighbours: continued-fraction comparison needs many steps (consecutive Fibonacci-like pairs)
            f0, f1 = 1, 1
            for _i in range(rnd.randrange(60, 90)):
                f0, f1 = f1, f0 + f1
            line = (f1, f0, f1 + f0, f1) if rnd.random() < 0.5 else (-f1, f0, -(f1 + f0), f1)
        if all(abs(v) <= M for v in line) and line[1] != 0 and line[3] != 0:
            add("ra n1=%d d1=%d n2=%d d2=%d" % line, "ra/targeted")
    for (n, d) in ((1, 0), (0, 0), (-(2 ** 63), 1), (1, -(2 ** 63)), (5, 0)):
        add("rn n=%d d=%d" % (n, d), "rn/ill-formed")
    add("misc", "misc")
    return cases, False, dist


def nontrivial(case, rows=None):
    ln = case.lines[0]
    op = ln.split(" ")[0]
    kv = dict(t.split("=", 1) for t in ln.split(" ")[1:])
    if op == "ut":
        return not kv["t"].lstrip("K123").startswith("b")
    if op == "d":
        return kv["t"] not in ARITH
    if op in ("bt", "db"):
        return kv["a"] != kv["b"]
    if op == "lim":
        return True
    if op == "inv":
        return kv["f"].startswith("p") or kv["fq"] != "0"
    if op == "rn":
        n, d = int(kv["n"]), int(kv["d"])
        import math
        return math.gcd(n, d) != 1 or d < 0
    if op == "ra":
        return True
    return True


def group_of(case):
    return case.tag.split("/")[0]


# ------------------------------------------------------------------ known findings (same predicates as the Lean `…_partial` hypotheses)

def _ra_args(line):
    kv = dict(t.split("=", 1) for t in line.split(" ")[1:])
    return int(kv["n1"]), int(kv["d1"]), int(kv["n2"]), int(kv["d2"])


def _reduce(n, d):
    import math
    g = math.gcd(n, d)
    if d < 0:
        n, d = -n, -d
    return n // g, d // g


def _fits(x):
    return -(2 ** 63) <= x <= 2 ** 63 - 1


def ra_intermediates(line, op):
    """The unreduced template arguments tetl forms for `op`, and whether every intermediate fits intmax_t
    (= hypothesis `Fits…` of Tetl.C15.Props.ratio*_eq)."""
    n1, d1, n2, d2 = _ra_args(line)
    (a, b), (c, d) = _reduce(n1, d1), _reduce(n2, d2)
    if op in ("add", "subtract"):
        x, y = a * d, c * b
        n = x + y if op == "add" else x - y
        dd = b * d
        return (n, dd), all(map(_fits, (x, y, n, dd)))
    if op == "multiply":
        return (a * c, b * d), _fits(a * c) and _fits(b * d)
    if op == "divide":
        return (a * d, b * c), _fits(a * d) and _fits(b * c)
    x, y = a * d, c * b                      # comparisons
    return (x, y), _fits(x) and _fits(y)


def classify_item(line, key, impl, spec, row=None):
    """Known-finding id for a failing item of a case line, or None.  `row` = all impl items of the line.
    `X::value` (the class-template form) is classified like `X` (the `_v` form), against the same form of the row."""
    form = "::value" if key.endswith("::value") else ""
    key = base_key(key)
    if line.startswith("db "):
        # common_reference<T, U> is only defined for identical T and U; the concepts built on it inherit the gap
        if key in ("common_reference_with", "common_with") and impl == "0":
            return "F-C15-common-reference-unimplemented"
        if key == "common_reference":        # an identity stub: no COMMON-REF, no decay of identical non-reference types
            return "F-C15-common-reference-unimplemented"
        if key == "assignable_from" and impl == "1" and spec == "0":
            return "F-C15-common-reference-unimplemented"
        if key == "is_trivially_constructible":
            # the defect: T2 is ignored, the answer is is_trivially_default_constructible<T1>; any other wrong answer is new
            dflt = (row or {}).get("is_trivially_default_constructible<T1>")
            if dflt is not None and impl == dflt:
                return "F-C15-is-trivially-constructible-ignores-args"
            return None
        return None
    if line.startswith("d "):
        if key == "swappable" and impl == "1" and spec == "0":
            return "F-C15-swappable-is-not-ranges-swap"
        if key.startswith("is_trivially_constructible<") or key in ("is_trivially_copy_constructible", "is_trivially_move_constructible"):
            # the defect: Args are ignored, the answer is is_trivially_default_constructible<T>; any other wrong answer is new
            dflt = (row or {}).get("is_trivially_default_constructible" + form)
            if dflt is None or impl == dflt:
                return "F-C15-is-trivially-constructible-ignores-args"
            return None
        return None
    if line.startswith("lim "):
        kv = dict(t.split("=", 1) for t in line.split(" ")[1:])
        if kv.get("t") == "bool" and key == "traps" and impl == "0" and spec == "1":
            return "F-C15-limits-bool-traps"          # implementation-defined member; libstdc++ 1, etl (libc++, MSVC) 0
        return None
    return None            # part (a), (c): no known finding (the three ratio findings are fixed)


def base_key(k):
    """`X::value` / `X::type` are the class-template forms of item `X`: same model, same spec"""
    for suf in ("::value", "::type"):
        if k.endswith(suf):
            return k[:-len(suf)]
    return k


def classify(case, k, row):            # interface of the standard flow (unused by run())
    return None


# ------------------------------------------------------------------ rows

def parse_items(s):
    out = {}
    for tok in s.strip().split(" "):
        if "=" in tok:
            k, _, v = tok.partition("=")
            out[k] = v
        elif tok:
            out["_"] = tok
    return out


class Item:
    __slots__ = ("case", "impl", "std", "model", "spec", "call", "skip", "cc")

    def __init__(self, case):
        self.case, self.call, self.skip, self.cc = case, None, False, ""
        self.impl = self.std = self.model = self.spec = ""


def driver_eval(ctx, lines):
    path = os.path.join(lib.BUILD, "%s_%s.cases" % (ctx.prop, ctx.run_id))
    with open(path, "w") as f:
        f.write("\n".join(lines) + "\n")
    out = lib.run_driver(DRIVER, path)
    os.unlink(path)
    if len(out) != len(lines):
        raise lib.MachineryError("driver output has %d lines, expected %d" % (len(out), len(lines)))
    return out


def ops_mask(items):
    m = 0
    for bit, k in ((1, "add"), (2, "subtract"), (4, "multiply"), (8, "divide"), (16, "less")):
        if items.get(k, "ill-formed") != "ill-formed":
            m |= bit
    return m


def make_items(ctx, cases):
    """Evaluate model and spec with the Lean driver and produce the C++ call of every case."""
    lines = [c.lines[0] for c in cases]
    dout = driver_eval(ctx, lines)
    # spellings of the encoded types
    encs = []
    for ln in lines:
        if ln.startswith(("ut ", "bt ")):
            for tok in ln.split(" ")[1:]:
                encs.append(tok.split("=", 1)[1])
    encs = sorted(set(encs))
    sp = driver_eval(ctx, ["spell t=" + e for e in encs]) if encs else []
    spell = {e: s.split("\t")[0] for e, s in zip(encs, sp)}
    items = []
    for idx, (c, ln, d) in enumerate(zip(cases, lines, dout)):
        it = Item(c)
        cols = d.split("\t")
        if "bad-op" in cols[0]:
            raise lib.MachineryError("driver: bad-op on %r" % ln)
        it.model, it.spec = cols[0], (cols[1] if len(cols) > 1 else "")
        op = ln.split(" ")[0]
        kv = dict(t.split("=", 1) for t in ln.split(" ")[1:])
        if op == "ut":
            if it.model == "illformed" or spell[kv["t"]] == "illformed":
                it.skip = True
            else:
                m, s = parse_items(it.model), parse_items(it.spec)
                mf = (1 if m["make_signed"] != "ill-formed" else 0) | (2 if m["make_unsigned"] != "ill-formed" else 0)
                sf = (1 if s["make_signed"] != "ill-formed" else 0) | (2 if s["make_unsigned"] != "ill-formed" else 0)
                it.call = "urow<%s, %d, %d>(%d);" % (spell[kv["t"]], mf, sf, idx)
        elif op == "bt":
            if "illformed" in (spell[kv["a"]], spell[kv["b"]]):
                it.skip = True
            else:
                it.call = "brow<%s, %s>(%d);" % (spell[kv["a"]], spell[kv["b"]], idx)
        elif op == "d":
            it.call = "drow<%s>(%d);" % (kv["t"], idx)
        elif op == "db":
            it.call = "dbrow<%s, %s, true>(%d);" % (kv["a"], kv["b"], idx)
        elif op == "lim":
            q = int(kv.get("q", "0"))
            t = cpp_base(kv["t"])
            it.call = "lrow<%s>(%d);" % (t if q == 0 else "C%d<%s>" % (q, t), idx)
        elif op == "rn":
            if it.model.strip() == "ill-formed" and it.spec.strip() == "ill-formed":
                it.skip = True            # ill-formed for both: not instantiated in the matrix (probed alone, see run())
            else:
                it.call = "rnrow<%sL, %sL>(%d);" % (kv["n"], kv["d"], idx)
        elif op == "ra":
            if "bad-operand" in (it.model, it.spec):
                it.skip = True
            else:
                mo, so = ops_mask(parse_items(it.model)), ops_mask(parse_items(it.spec))
                it.call = "rarow<%sL, %sL, %sL, %sL, %d, %d>(%d);" % (kv["n1"], kv["d1"], kv["n2"], kv["d2"], mo, so, idx)
        elif op == "inv":
            args_e, args_s = [], []
            if kv["a"] != "none":
                cpp = INV_ARG_CPP[kv["a"]]
                for ns, lst in (("etl", args_e), ("std", args_s)):
                    lst.append("inv::Q%s<%s>" % (kv["aq"], cpp % ns if "%s" in cpp else cpp))
            for lst in (args_e, args_s):
                lst.extend(["int"] * int(kv["n"]))
            it.call = "irow<inv::Q%s<inv::%s>, inv::TL<%s>, inv::TL<%s>>(%d);" % (kv["fq"], kv["f"], ", ".join(args_e),
                                                                                   ", ".join(args_s), idx)
        elif op == "misc":
            it.call = "mrow<0>(%d);" % idx
        else:
            raise lib.MachineryError("unknown op " + op)
        items.append(it)
    return items


ERR_RE = re.compile(r"^(\S+?):(\d+):\d+:\s+(required from here|error: .*)$")


def compile_part(ctx, part_no, rows, items, repo, cxx=None):
    """Compile and run one part.  Returns (outputs {idx: (impl, std)}, broken [(idx, error text)]), or raises."""
    cxx = cxx or lib.CXX
    inc = os.path.join(lib.BUILD, "c15_%s_p%d.inc" % (ctx.run_id, part_no))
    exe = os.path.join(lib.BUILD, "c15_%s_p%d" % (ctx.run_id, part_no))
    broken = []
    rows = list(rows)
    for _attempt in range(6):
        with open(inc, "w") as f:
            f.write("\n".join(items[i].call for i in rows) + "\n")
        cmd = [cxx] + CXXSTD + ["-I", os.path.join(repo, "include"), "-DC15_INC=\"%s\"" % inc,
                                    os.path.join(lib.VERIF, HARNESS), "-o", exe]
        rc, o, e = lib.sh(cmd, timeout=1800)
        if rc == 0:
            break
        # which rows are ill-formed?  (`<inc>:LINE:COL: required from here` / errors located in the inc file)
        bad = {}
        for ln in e.splitlines():
            m = ERR_RE.match(ln.strip())
            if m and os.path.basename(m.group(1)) == os.path.basename(inc):
                bad.setdefault(int(m.group(2)) - 1, None)
        first_err = [ln.strip() for ln in e.splitlines() if "error:" in ln][:3]
        if not bad:
            raise lib.MachineryError("harness part does not compile (no row identified):\n" + "\n".join(first_err)[:1500])
        etl_side = any("/include/etl/" in ln for ln in e.splitlines() if "error" in ln or "required from" in ln or "In instantiation" in ln)
        for k in sorted(bad):
            if k < len(rows):
                broken.append((rows[k], " | ".join(first_err)[:600], etl_side))
        rows = [r for k, r in enumerate(rows) if k not in bad]
    else:
        raise lib.MachineryError("harness part %d still does not compile after dropping rows" % part_no)
    p = subprocess.run([exe], stdout=subprocess.PIPE, stderr=subprocess.PIPE, text=True, errors="replace")
    for f in (inc, exe):
        try:
            os.unlink(f)
        except OSError:
            pass
    if p.returncode != 0:
        raise lib.MachineryError("harness part %d failed at run time: %s" % (part_no, p.stderr[-300:]))
    outs = {}
    for ln in p.stdout.splitlines():
        cols = ln.split("\t")
        if len(cols) != 3:
            raise lib.MachineryError("harness printed a malformed row: %r" % ln[:200])
        outs[int(cols[0])] = (cols[1].strip(), cols[2].strip())
    return outs, broken


def regenerate_limits(repo):
    """GenLimits.lean: numeric_limits<integer> members as the header spells them (gen/c15_limits.py)"""
    try:
        import c15_limits
    except ImportError:
        return None
    info = c15_limits.generate(repo, os.path.join(lib.LEAN, "Tetl", "C15", "GenLimits.lean"), cxx=lib.CXX)
    return {k: info.get(k) for k in ("hash", "changed", "entries", "opaque", "errors", "translator")}


def probe_make_sign(ctx, cpp_type, which, repo):
    """Observe that `etl::make_signed<T>::type` / `make_unsigned` is rejected where model and spec say ill-formed: the
    harness (with the zoo's type aliases) is parsed with a one-line body.  Returns True when it does not compile."""
    inc = os.path.join(lib.BUILD, "c15_%s_ms_%d.inc" % (ctx.run_id, abs(hash((cpp_type, which))) % 10 ** 8))
    with open(inc, "w") as f:
        f.write("{ using probe_t = typename etl::%s<%s>::type; static_assert(sizeof(probe_t*) > 0); }\n" % (which, cpp_type))
    rc, _, _ = lib.sh([lib.CXX] + CXXSTD + ["-fsyntax-only", "-I", os.path.join(repo, "include"), "-DC15_INC=\"%s\"" % inc,
                                            os.path.join(lib.VERIF, HARNESS)], timeout=600)
    os.unlink(inc)
    return rc != 0


def probe_illformed(ctx, line, op, repo):
    """Observe in a translation unit of its own that tetl's instantiation is ill-formed.
    `op` is add/subtract/multiply/divide, "compare" or "rn".  Returns True when the probe does not compile."""
    if op == "rn":
        kv = dict(t.split("=", 1) for t in line.split(" ")[1:])
        decl = "[[maybe_unused]] constexpr auto probe = etl::ratio<%s, %s>::den;" % (_lit(int(kv["n"])), _lit(int(kv["d"])))
        head = ""
    else:
        n1, d1, n2, d2 = _ra_args(line)
        name = {"add": "ratio_add", "subtract": "ratio_subtract", "multiply": "ratio_multiply", "divide": "ratio_divide"}.get(op)
        head = "using X = etl::ratio<%s, %s>;\nusing Y = etl::ratio<%s, %s>;\n" % (_lit(n1), _lit(d1), _lit(n2), _lit(d2))
        if name:
            decl = "[[maybe_unused]] constexpr auto probe = etl::%s<X, Y>::den;" % name
        else:
            decl = "[[maybe_unused]] constexpr bool probe = etl::ratio_less<X, Y>::value;"
    src = "#include <etl/ratio.hpp>\n%s%s\nint main() {}\n" % (head, decl)
    path = os.path.join(lib.BUILD, "c15_%s_probe_%d.cpp" % (ctx.run_id, abs(hash((line, op))) % 10 ** 8))
    open(path, "w").write(src)
    rc, _, _ = lib.sh([lib.CXX] + CXXSTD + ["-fsyntax-only", "-I", os.path.join(repo, "include"), path], timeout=300)
    rejected = rc != 0
    os.unlink(path)
    return rejected


def _lit(x):
    """C++ spelling of an intmax_t value (INTMAX_MIN has no literal)."""
    return "(-9223372036854775807L - 1)" if x == -(2 ** 63) else "%dL" % x


def evaluate_items(items):
    """Item-wise relations.  Yields (item, key, kind, impl, std, model, spec)."""
    fails = []
    for it in items:
        if it.skip or it.call is None:
            continue
        I, S, M, P = parse_items(it.impl), parse_items(it.std), parse_items(it.model), parse_items(it.spec)
        if set(I) != set(S):
            fails.append((it, "<members>", "BAD", " ".join(sorted(I)), " ".join(sorted(S)), "", ""))
            continue
        for k in I:
            i, s = I[k], S[k]
            m, p = M.get(base_key(k)), P.get(base_key(k))
            if p is not None and not lib.eq(p, s):
                fails.append((it, k, "R2", i, s, m, p))
                continue
            exp = s if p is None else p           # `*` = unspecified by the standard: not compared
            if not lib.eq(i, exp):
                fails.append((it, k, "R3", i, s, m, p))
                continue
            if m is not None and not lib.eq(i, m):
                fails.append((it, k, "R1", i, s, m, p))
        for k in set(M) | set(P):
            if k not in I:
                fails.append((it, k, "BAD", "", "", M.get(k), P.get(k)))
    return fails


def run(ctx, replay=None):
    prop = ctx.prop
    known = lib.load_known(prop)
    repo = lib.REPO
    hits = lib.lean_source_scan([os.path.join(lib.LEAN, "Tetl"), os.path.join(lib.LEAN, "TetlProofs")])
    if hits:
        log("MACHINERY-ERROR forbidden construct in Lean sources:\n  " + "\n  ".join(hits[:10]))
        return 2
    # tie of part (d): the definitions of the traits are re-extracted from the headers of the tree under test
    try:
        gen_info = c15_defs.generate(repo, os.path.join(lib.LEAN, "Tetl", "C15", "GenBuiltins.lean"), cxx=lib.CXX)
        gen_info["opaque"] = len(gen_info["opaque"])
        gen_info["limits"] = regenerate_limits(repo)
        import c15_invoke
        gen_info["invoke"] = c15_invoke.generate(repo, os.path.join(lib.LEAN, "Tetl", "C15", "GenInvoke.lean"), cxx=lib.CXX)
    except Exception as e:      # noqa: BLE001
        log("MACHINERY-ERROR extraction of the trait definitions failed: %s" % str(e)[:400])
        return 2
    ok, out = lib.lake_build([DRIVER])
    if not ok:
        log("MACHINERY-ERROR driver build failed: " + lib.first_lean_error(out))
        return 2
    proof_broken = None
    ok, out = lib.lake_build(PROOF_MODULES)
    if not ok:
        proof_broken = lib.first_lean_error(out)
        log("proof obligation no longer checks: " + proof_broken)
    thms, bad = ({}, [])
    if not proof_broken:
        thms, bad = lib.audit(PROOF_MODULES)
        if bad:
            log("MACHINERY-ERROR theorems with axioms outside the allow-list: %s" % bad)
            return 2
        if not thms:
            log("MACHINERY-ERROR no theorems found in %s" % PROOF_MODULES)
            return 2
    checker_ok = None
    if ctx.tier == "thorough" and not proof_broken and not replay:
        for m in PROOF_MODULES:
            checker_ok, msg = lib.leanchecker(m)
            if not checker_ok:
                log("MACHINERY-ERROR leanchecker rejected %s: %s" % (m, msg))
                return 2

    if replay:
        rp = json.load(open(replay))
        cases, dist = [Case(ln, "replay") for ln in rp["cases"]], {}
    else:
        cases, _, dist = generate(ctx.tier, ctx.seed)
        pre = []
        for fid, e in known.items():
            for w in e.get("witness", []):
                pre.append(Case(w, "finding:" + fid))
        cases = pre + cases
    items = make_items(ctx, cases)
    live = [i for i, it in enumerate(items) if it.call is not None and not it.skip]

    # parts: interleave so that every part has a similar mix; heavier rows first
    nparts = max(1, min(lib.NPROC, len(live) // 40 + 1))
    parts = [live[k::nparts] for k in range(nparts)]
    broken_rows = []
    t_c = time.time()
    with cf.ThreadPoolExecutor(max_workers=lib.NPROC) as ex:
        futs = [ex.submit(compile_part, ctx, k, rows, items, repo) for k, rows in enumerate(parts)]
        for f in futs:
            outs, broken = f.result()
            for idx, (i, s) in outs.items():
                items[idx].impl, items[idx].std = i, s
            broken_rows.extend(broken)
    compile_s = time.time() - t_c
    for idx, _, _ in broken_rows:
        items[idx].skip = True

    fails = evaluate_items(items)

    # clang leg: eight traits take another `#if` branch under clang++ (__is_integral, __is_member_pointer, __is_scalar,
    # __is_object, __is_trivially_destructible, ...).  A seeded sample of the trait and limits rows is compiled a second
    # time with clang++ (against the same libstdc++) and compared in the same way.  The leg is an extra: when clang++ is
    # missing or chokes on something outside etl it is recorded in the notes, never a machinery error.
    clang = shutil.which("clang++-16") or shutil.which("clang++")
    clang_info = {"compiler": clang, "rows": 0}
    if clang:
        pool = [i for i in live if i not in {b[0] for b in broken_rows}
                and items[i].case.lines[0].split(" ")[0] in ("ut", "bt", "d", "db", "lim", "misc", "inv")]
        pick_c = pool if replay else random.Random(ctx.seed + 7).sample(pool, min(len(pool), 240 if ctx.tier == "quick" else 1200))
        try:
            n_c = max(1, min(lib.NPROC, len(pick_c) // 60 + 1))
            with cf.ThreadPoolExecutor(max_workers=lib.NPROC) as ex:
                futs = [ex.submit(compile_part, ctx, 900 + k, pick_c[k::n_c], items, repo, clang) for k in range(n_c)]
                res = [f.result() for f in futs]
            citems = []
            for outs_c, broken_c in res:
                for idx, (i_, s_) in outs_c.items():
                    c = Item(items[idx].case)
                    c.call, c.model, c.spec, c.impl, c.std, c.cc = items[idx].call, items[idx].model, items[idx].spec, i_, s_, "clang++"
                    citems.append(c)
                for idx, err, etl_side in broken_c:
                    if etl_side:
                        broken_rows.append((idx, "[compiled by clang++] " + err, True))
                    else:
                        ctx.notes.append("clang leg: row dropped (error outside etl): %s" % items[idx].case.lines[0])
            clang_info["rows"] = len(citems)
            fails += evaluate_items(citems)
        except (lib.MachineryError, subprocess.SubprocessError, OSError) as e:
            ctx.notes.append("clang leg not run: %s" % str(e)[:300])
            clang_info["error"] = str(e)[:300]

    # negative probes: where model and spec agree on "ill-formed" the harness does not instantiate the alias (it could not
    # compile); observe on a sample, each in a translation unit of its own, that tetl really rejects the instantiation
    cand = []
    for it in items:
        ln = it.case.lines[0]
        if ln.startswith("rn ") and it.model.strip() == "ill-formed" and it.spec.strip() == "ill-formed":
            cand.append((ln, "rn"))
        elif ln.startswith("ra ") and not it.skip and it.call is not None:
            M_, P_ = parse_items(it.model), parse_items(it.spec)
            for op in ("add", "subtract", "multiply", "divide"):
                if M_.get(op) == "ill-formed" and P_.get(op) == "ill-formed":
                    cand.append((ln, op))
    ms_cand = []
    for it in items:
        ln = it.case.lines[0]
        if ln.startswith("ut ") and not it.skip and it.call is not None:
            M_, P_ = parse_items(it.model), parse_items(it.spec)
            for which in ("make_signed", "make_unsigned"):
                if M_.get(which) == "ill-formed" and P_.get(which) == "ill-formed":
                    ms_cand.append((ln, which, it.call.split("<", 1)[1].rsplit(",", 2)[0]))
    random.Random(ctx.seed + 1).shuffle(ms_cand)
    ms_cand = ms_cand[:8 if ctx.tier == "quick" else 40]
    cand = list(dict.fromkeys(cand))
    budget = 32 if ctx.tier == "quick" else 160
    head_n = min(len(cand), 10)                 # the witnesses of the fixed findings and the ill-formed `rn` rows come first
    rn_c = [c for c in cand if c[1] == "rn"]
    rest = [c for c in cand if c[1] != "rn"]
    pick = rn_c[:12] + rest[:head_n]
    more = [c for c in rest[head_n:]]
    random.Random(ctx.seed).shuffle(more)
    pick = (pick + more)[:budget] if not replay else cand[:budget]
    probed = {}
    with cf.ThreadPoolExecutor(max_workers=lib.NPROC) as ex:
        futs = {k: ex.submit(probe_illformed, ctx, k[0], k[1], repo) for k in pick}
        futs_ms = {(ln, which): ex.submit(probe_make_sign, ctx, cpp, which, repo) for (ln, which, cpp) in ms_cand}
        for k, f in futs.items():
            probed[k] = f.result()
        for k, f in futs_ms.items():
            probed[k] = f.result()
    accepted = [k for k, v in probed.items() if not v]

    if replay:
        for it in items:
            log("%s" % it.case.lines[0])
            I, S, M, P = parse_items(it.impl), parse_items(it.std), parse_items(it.model), parse_items(it.spec)
            for k in I:
                mark = "" if (I[k] == S.get(k) and (M.get(k) in (None, I[k])) and (P.get(k) in (None, "*", I[k]))) else "   <-- differs"
                if mark or len(items) == 1 and len(I) < 12:
                    log("   %-34s impl=%s model=%s spec=%s std=%s%s" % (k, I[k], M.get(k), P.get(k), S.get(k), mark))
        for idx, err, _ in broken_rows:
            log("%s\n   ill-formed: %s" % (items[idx].case.lines[0], err))
        for (ln, op) in accepted:
            log("%s\n   %s: model and spec say ill-formed, but tetl's instantiation compiles" % (ln, op))
        badk = sorted({f[2] for f in fails if f[2] in ("R1", "R3")} | ({"ILL-FORMED"} if broken_rows else set())
                      | ({"ACCEPTS-ILL-FORMED"} if accepted else set()))
        log("replay: %s" % ("FAILS " + ",".join(badk) if badk else "passes"))
        return 1 if badk else 0

    # verdicts
    machinery = False
    reported = {}
    finding_seen = set()
    for idx, err, etl_side in broken_rows:
        ln = items[idx].case.lines[0]
        if not etl_side:
            log("MACHINERY-ERROR harness row does not compile (not inside etl): %s: %s" % (ln, err))
            machinery = True
            continue
        key = ("ILL", ln.split(" ")[0])
        reported[key] = reported.get(key, 0) + 1
        if reported[key] > 1:
            continue
        ctx.violation({"kind": "impl_violates_property", "cases": [ln], "failing_line": 0, "impl": "ill-formed (hard error): " + err,
                       "model": items[idx].model[:300], "spec": items[idx].spec[:300], "std": "well-formed",
                       "theorems": THEOREMS.get(ln.split(" ")[0], []), "lean_error": proof_broken,
                       "source": lib.source_hashes(SOURCES), "failing_input_found": True})
    order = {"BAD": 0, "R2": 1, "R3": 2, "R1": 3}
    for (it, key, kind, i, s, m, p) in sorted(fails, key=lambda f: (order[f[2]], len(f[0].case.lines[0]), f[0].case.lines[0], f[1])):
        ln = it.case.lines[0]
        if kind == "BAD":
            log("MACHINERY-ERROR item sets differ on %s: %s -> impl=%s std=%s model=%s spec=%s" % (ln, key, i, s, m, p))
            machinery = True
            continue
        if kind == "R2":
            log("MACHINERY-ERROR spec!=std (defect of the Lean spec, not of tetl): %s: %s spec=%s std=%s" % (ln, key, p, s))
            machinery = True
            continue
        fid = classify_item(ln, key, i, p if p is not None else s, parse_items(it.impl)) if kind == "R3" else None
        if fid and known.get(fid, {}).get("status") == "known":
            ctx.known(fid, known[fid].get("what", ""))
            finding_seen.add(fid)
            continue
        gk = (kind, key)
        reported[gk] = reported.get(gk, 0) + 1
        if reported[gk] > 1:
            continue
        if len(ctx.violations) >= 25:
            continue
        ctx.violation({"kind": "impl_violates_property" if kind == "R3" else "correspondence_broken",
                       "cases": [ln], "failing_line": 0, "item": key, "impl": "%s=%s" % (key, i), "model": "%s=%s" % (key, m),
                       "spec": "%s=%s" % (key, p), "std": "%s=%s" % (key, s),
                       "theorems": THEOREMS.get(ln.split(" ")[0], []), "lean_error": proof_broken,
                       "source": lib.source_hashes(SOURCES), "failing_input_found": kind == "R3"}, found=(kind == "R3"))
        log("  %s: %s  impl=%s model=%s spec=%s std=%s%s" % (ln, key, i, m, p, s, "   [harness compiled by clang++]" if it.cc else ""))
    for n_acc, (ln, op) in enumerate(accepted):
        if n_acc >= 3:
            log("  (%d further ill-formed instantiations accepted)" % (len(accepted) - 3))
            break
        what = "ratio<n, d>" if op == "rn" else ("etl::" + op + "<T>::type") if op.startswith("make_") else "ratio_" + op
        ctx.violation({"kind": "impl_violates_property", "cases": [ln], "failing_line": 0, "item": op,
                       "impl": "%s: well-formed (the instantiation compiles)" % what, "model": "%s=ill-formed" % op,
                       "spec": "%s=ill-formed" % op, "std": "ill-formed",
                       "theorems": THEOREMS.get(ln.split(" ")[0], []), "lean_error": proof_broken,
                       "source": lib.source_hashes(SOURCES), "failing_input_found": True})
        log("  %s: %s is ill-formed in model, spec and std, but tetl's instantiation compiles" % (ln, what))
    if proof_broken and not ctx.violations:
        ctx.violation({"kind": "proof_broken", "cases": [], "lean_error": proof_broken, "theorems": PROOF_MODULES,
                       "source": lib.source_hashes(SOURCES), "failing_input_found": False,
                       "explanation": "a proof obligation no longer checks; the matrix over %d rows found no failing input"
                                      % len(live)}, found=False)
    for gk, n in reported.items():
        if n > 1:
            log("  (%d further failing rows of kind %s in %s not listed)" % (n - 1, gk[0], gk[1]))
    for fid, e in known.items():
        if e.get("status") == "known" and fid not in finding_seen:
            ctx.notes.append("known finding %s did not reproduce on this run" % fid)

    # evidence
    n_items = 0
    n_model = 0
    agree = 0
    for it in items:
        if it.skip or it.call is None:
            continue
        I, M = parse_items(it.impl), parse_items(it.model)
        n_items += len(I)
        n_model += sum(1 for k in I if base_key(k) in M)
        if all(lib.eq(I[k], M[base_key(k)]) for k in I if base_key(k) in M):
            agree += 1
    nontriv = {it.case.lines[0] for it in items if not it.skip and it.call is not None and nontrivial(it.case)}
    rnd = random.Random(ctx.seed)
    samples = []
    for idx in rnd.sample(live, min(5, len(live))):
        it = items[idx]
        samples.append({"case": it.case.lines, "out": [{"impl": it.impl[:400], "std": it.std[:400], "model": it.model[:400],
                                                       "spec": it.spec[:400]}]})
    vers = lib.toolchain_versions()
    axioms_used = sorted({a for axs in thms.values() for a in axs})
    coverage = {
        "obligations": len(thms) if thms else max(1, sum(len(v) for v in THEOREMS.values())),
        "discharged": len(thms) - len(bad) if thms else 0,
        "checker_cmd": "cd /verif/lean && lake build %s && lake env lean <audit of %s> (#audit_module: axioms of every theorem)%s"
                       % (" ".join(PROOF_MODULES), ",".join(PROOF_MODULES),
                          " && lake env leanchecker <module>" if ctx.tier == "thorough" else ""),
        "trusted_base": ["Lean 4 kernel (%s)" % vers["lean"], "axioms used by the property theorems: %s" % (axioms_used or ["none"])]
                        + list(TRUSTED) + ["harness compiler: %s (%s; compile-time evaluation, no sanitizer applies)" % (vers["cxx"], " ".join(CXXSTD))],
        "theorems": sorted(thms.keys()),
        "leanchecker": checker_ok,
        "evaluations": n_items,
        "modelled_evaluations": n_model,
        "rows": len(live),
        "rows_skipped_illformed_type_or_domain": sum(1 for it in items if it.skip),
        "distinct_nontrivial": len(nontriv),
        "rule": RULE,
        "samples": samples,
        "exhaustive": False,
        "traces_validated_against_impl": agree,
        "input_distribution": dist,
        "illformedness_probes": {"%s [%s]" % k: ("ill-formed as modelled" if v else "COMPILES") for k, v in probed.items()},
        "illformedness_probe_candidates": len(cand),
        "compile_wall_s": round(compile_s, 1),
        "known_findings_replayed": dict(ctx.known_hits),
        "generated": gen_info,
        "clang_leg": clang_info,
        "source_hashes": lib.source_hashes(SOURCES),
        "notes": ctx.notes,
        "unproved_observed": UNPROVED_OBSERVED,
        "correspondence_only": CORRESPONDENCE_ONLY,
    }
    ctx.write_evidence(coverage, list(ASSUMPTIONS))
    if machinery:
        return 2
    log("%s %s: %d theorems, %d rows (%d items, %d modelled), %d distinct non-trivial, %d known-finding hits, %d violations, %.1fs"
        % (prop, ctx.tier, len(thms), len(live), n_items, n_model, len(nontriv), sum(ctx.known_hits.values()),
           len(ctx.violations), time.time() - ctx.t0))
    return 1 if ctx.violations else 0
