"""C07 — optional, variant and expected track the same state and value as the std types (DESIGN §4 C07)."""
import concurrent.futures as cf
import itertools
import os
import random
import re
import subprocess
import sys
import tempfile

import lib
from lib import Case, fmt_list

PROP = "C07"
DRIVER = "drv-c07"
PROOF_MODULES = ["TetlProofs.C07.Props"]
HARNESS = "harness/c07.cpp"
SOURCES = ["include/etl/_optional/optional.hpp", "include/etl/_optional/nullopt.hpp", "include/etl/_variant/variant.hpp",
           "include/etl/_variant/variadic_union.hpp", "include/etl/_variant/visit.hpp",
           "include/etl/_variant/variant_alternative_selector.hpp", "include/etl/_expected/expected.hpp",
           "include/etl/_expected/unexpected.hpp", "include/etl/_utility/swap.hpp"]


def _probe(body):
    """does this snippet compile against the current tree? (members whose absence would otherwise stop the harness
    from compiling are switched by a macro, so that a missing member is a reported result, not a build failure)"""
    src = "#include <etl/optional.hpp>\n#include <etl/expected.hpp>\nint main(){ %s }\n" % body
    with tempfile.NamedTemporaryFile("w", suffix=".cpp", delete=False) as f:
        f.write(src)
        path = f.name
    try:
        rc = subprocess.run([lib.CXX, "-std=c++23", "-fsyntax-only", "-I", os.path.join(lib.REPO, "include"), path],
                            stdout=subprocess.DEVNULL, stderr=subprocess.DEVNULL, timeout=300).returncode
    finally:
        os.unlink(path)
    return 1 if rc == 0 else 0


PROBES = {
    "C07_HAS_NULLOPT_ORD": "etl::optional<int> o; bool b = (o <= etl::nullopt) && (o > etl::nullopt) && (o >= etl::nullopt) && "
                           "(etl::nullopt <= o) && (etl::nullopt > o) && (etl::nullopt >= o); (void)b;",
    "C07_HAS_EXPECTED_UNEX_ASSIGN": "etl::expected<int,int> e; e = etl::unexpected<int>(1);",
    # optional<T&> from optional<U> (P2988): const sources (_C) / non-const lvalue and rvalue sources (_M); optional<int&> and
    # optional<int> sources; constructor = direct- and copy-initialization
    "C07_HAS_OPTREF_CTOR_C": "etl::optional<int&> const a; etl::optional<int> const v; etl::optional<int const&> c(a); "
                             "etl::optional<int const&> d(v); etl::optional<int const&> f = a; etl::optional<int const&> g = v; "
                             "(void)c; (void)d; (void)f; (void)g;",
    "C07_HAS_OPTREF_CTOR_M": "etl::optional<int&> a; etl::optional<int> v; etl::optional<int const&> c(a); "
                             "etl::optional<int const&> d(v); etl::optional<int const&> f(static_cast<etl::optional<int&>&&>(a)); "
                             "etl::optional<int const&> g = a; etl::optional<int const&> h = v; "
                             "etl::optional<int const&> i = static_cast<etl::optional<int&>&&>(a); "
                             "(void)c; (void)d; (void)f; (void)g; (void)h; (void)i;",
    "C07_HAS_OPTREF_ASSIGN_C": "etl::optional<int&> const a; etl::optional<int> const v; etl::optional<int const&> c; c = a; c = v;",
    "C07_HAS_OPTREF_ASSIGN_M": "etl::optional<int&> a; etl::optional<int> v; etl::optional<int const&> c; c = a; c = v; "
                               "c = static_cast<etl::optional<int&>&&>(a);",
    "C07_HAS_EXPECTED_EQ": "etl::expected<int,int> a; etl::expected<int,int> b; bool r = (a == b) && !(a != b); (void)r;",
    "C07_HAS_VALUE": "etl::optional<int> o(1); etl::expected<int,int> e; (void)o.value(); (void)e.value();",
}
PROBE_RESULT = {k: _probe(v) for k, v in PROBES.items()}
# std::expected needs C++23; 19 variant + 9 optional + 7 expected configurations and the multi-type visits at -O0, compiled as NPARTS object files in
# parallel (harness/c07.cpp: -DC07_PART=k) by run() below; check.py then compiles main() and links them.
BASE_FLAGS = ["-std=c++23", "-O0"] + ["-D%s=%d" % kv for kv in sorted(PROBE_RESULT.items())]
HARNESS_FLAGS = list(BASE_FLAGS)
NPARTS = 19


def _build_parts():
    """compile the configuration groups of the harness in parallel; returns the object files.
    An object file is reused when the preprocessed translation unit (every header of the tree under test expanded), the
    flags and the compiler are byte-identical to those it was compiled from: any change of the library gives a new key."""
    import hashlib
    os.makedirs(lib.BUILD, exist_ok=True)
    cache = os.path.join(lib.BUILD, "c07_objcache")
    os.makedirs(cache, exist_ok=True)
    flags = [f for f in lib.CXXFLAGS if f != "-g"] + BASE_FLAGS
    cxxv = lib.sh([lib.CXX, "--version"])[1]

    def one(k):
        base = [lib.CXX] + flags + ["-DC07_PART=%d" % k, "-I", os.path.join(lib.REPO, "include"), "-I", os.path.join(lib.VERIF, "harness")]
        src = os.path.join(lib.VERIF, HARNESS)
        rc, o, e = lib.sh(base + ["-E", src], timeout=600)
        if rc != 0:
            return None, rc, o[-200:] + e
        key = hashlib.sha256((cxxv + "\0" + " ".join(flags) + "\0" + o).encode()).hexdigest()[:32]
        out = os.path.join(cache, "part%d_%s.o" % (k, key))
        if os.path.exists(out):
            os.utime(out)
            return out, 0, "cached"
        tmp = out + ".%d.tmp" % os.getpid()
        rc, o, e = lib.sh(base + ["-c", src, "-o", tmp], timeout=1200)
        if rc == 0:
            os.replace(tmp, out)
        return out, rc, o + e

    with cf.ThreadPoolExecutor(max_workers=NPARTS) as ex:
        res = list(ex.map(one, range(NPARTS)))
    bad = [r for r in res if r[1] != 0]
    if bad:
        raise lib.MachineryError("harness does not compile against %s:\n%s" % (lib.REPO, bad[0][2][-1500:]))
    olds = sorted((os.path.join(cache, f) for f in os.listdir(cache)), key=os.path.getmtime)
    for f in olds[:-12 * NPARTS]:
        os.unlink(f)
    return [r[0] for r in res]


def run(ctx, replay=None):
    """standard flow of check.py, with the harness configurations pre-compiled in parallel"""
    global HARNESS_FLAGS
    objs = _build_parts()
    HARNESS_FLAGS = BASE_FLAGS + ["-DC07_PART=-1"] + objs
    import check
    return check.standard(sys.modules[__name__], ctx, replay)


RULE = ("A case is a history: `new kind=var|opt|oref|exp alts=.. n=N` creates N objects of one configuration (etl and std side by side), "
        "each following line is one operation on them; after every line the result and the (index, value) of every object are compared. "
        "Configurations: variant over {int,float}, {float,int}, {int,Trk}, {Trk,int}, {Trk,int,float}, {int,float,Trk}, {Trk,Mo}, "
        "{int,float,Trk,Mo}, {float,Mo}, {int,C}, {int,D}, {int,A}, {int,B}, {Q,X}, {C,B}, and four with a REPEATED alternative type: "
        "{int,int}, {Trk,int,Trk}, {Q,int,Q}, {Mo,Mo} (objects are set up by emplace<I> and by `make` = variant(in_place_index<I>, x); "
        "copy/move assignment and construction, swap, the six comparisons, visit / visit_with_index and get_if<I> for every "
        "(from, to) pair of INDICES, same type at different indices included; the by-type forms and the converting forms from "
        "the repeated type must be rejected); optional<int|float|Trk|Mo|C|D|A|B|X> with a "
        "partner optional<long|int>; optional<int&> (and optional<int const&> made from it and from optional<int>); expected<int,Trk>, <Trk,int>, <int,float>, <Trk,Mo>, <int,C>, <Q,X>, <D,B> "
        "(Trk: non-trivial copy/move/destructor, Mo: move-only; float incl. NaN; C, D, A, B: exactly one user-provided special member "
        "- copy ctor, move ctor, copy assignment, move assignment - the other three defaulted and trivial; Q, X: all four "
        "user-provided, X with a potentially-throwing copy ctor; each user-provided member leaves its own mark in the value, a "
        "defaulted one copies the source's mark, so the stored value shows which special member produced it). "
        "Value categories: `vcat` visits one or two variants as lvalue / const lvalue / rvalue / const rvalue (all 4 and all 16 "
        "combinations) with a visitor that reports the reference kind of each argument and with a by-value visitor (moved-from "
        "sources show in the state), plus the decltype matrix of visit, unchecked_get/std::get and operator[]; `ocat` / `ecat` do the "
        "same for operator*, error(), and_then and or_else of optional and expected. "
        "Exhaustive part: every (from-state, to-state) pair over 2 values per alternative x {copy/move assignment, copy/move construction, "
        "generic swap, member swap, self forms, six relational operators, visit, visit_with_index}; every converting "
        "constructor/assignment argument type {int,short,long,float,Trk,Mo, every mark-carrying kind that is an alternative, one "
        "that is not} x {lvalue, rvalue argument} x every state (the argument is a named object, shown after the operation, so "
        "copy / move assignment / construction of the element and the moved-from argument are all visible); visit / "
        "visit_with_index with a non-variant argument before or after the variant and with no variant at all; optional: every pair x mixed "
        "optional<T>/optional<U>, nullopt and value forms in both operand orders, converting construction/assignment from "
        "optional<U>, value_or/and_then/or_else on lvalues and rvalues; optional<T&>: every pair of bindings x every member, and "
        "optional<int const&> direct-/copy-initialized and assigned (empty and bound target) from every state of an "
        "optional<int&> (non-const lvalue, const lvalue, rvalue) and of an optional<int> (non-const, const lvalue); 3-variant visits over every index triple; all histories of "
        "depth 2 (thorough: 3) over a 27-31-operation alphabet; expected: == / != for every pair of states and value() (members etl "
        "does not have: known findings). Selector probes (`new kind=sel`, `sel a=<kind> alts=<kinds> how=ctor|assign`): which "
        "alternative variant<alts...>(arg) / `v = arg` ends up holding (or `nc`: not constructible / assignable), etl against "
        "std::variant, for every argument kind {bool, char, short, int, long, unsigned, float, double, char const*, int*, "
        "void const*, nullptr_t, string literal, unscoped enum, scoped enum, Text (class constructible from char const*), Num "
        "(class constructible from int), ToInt (class with operator int)} x 19 alternative lists mixing bool, arithmetic, "
        "pointer, enumeration and class alternatives ({bool,Text}, {Text,bool}, {int,bool,void const*}, {bool,int}, {bool,Num}, "
        "{char,long,double}, {float,long}, {short,unsigned}, {char const*,Text}, {void const*,bool}, {Text,Num}, {int,SE}, "
        "{UE,long}, {bool,double,Text}, {bool}, {bool,bool}, {int,float,double}, {long,Num}, {int*,bool}) x both forms. "
        "Visits over arguments of DIFFERENT types (`new kind=mv`, `mvis k=[..] act=[..] v=[..] q=[..] idx=0|1`): etl::visit and "
        "etl::visit_with_index over one to four arguments where every argument has its own variant type and alternative count - "
        "argument kinds: a non-variant int, variant<long>, variant<int,Trk>, variant<Trk,float,int>, variant<float,int,long,Trk> - "
        "for EVERY pair of kinds (alternative counts 1..4 x 1..4, decreasing, equal and increasing), every triple of the three "
        "variant kinds with 1..3 alternatives plus a non-variant argument in each position between two variants, and the lists "
        "(3,2,2,3) and (2,2,3,3), x EVERY tuple of active indices x both entry points x value categories per argument (all 16 "
        "pairs for 3x2 and 2x3, six pairs otherwise, two triples, one quadruple); the visitor takes forwarding references and "
        "reports per argument the reference kind, the static type and the value (visit_with_index: also the static index), "
        "compared with std::visit over std::variants of the same alternatives. "
        "Random part (VERIF_SEED): histories of 10-30 operations over all "
        "members. A case is non-trivial when some line leaves the objects in a state different from the initial one; "
        "distinct = distinct case text.")
ASSUMPTIONS = ["std::variant / std::optional / std::expected of libstdc++ 12 (-std=c++23) are the reference for spec validation (R2); "
               "std::expected::and_then/or_else (absent from libstdc++ 12) and optional<T&> (C++26) are referenced by their "
               "definition in the working draft / P2988, written out in the harness",
               "element types: self copy / move assignment is a no-op, != is the negation of == and == is symmetric (hypotheses `hne`, "
               "`hsym` of the relational theorems; true for int, float incl. NaN, Trk, Mo and the Sm kinds)",
               "the four special members of the element types are arbitrary functions on values (structure `Elem`: no laws); the "
               "variant's trait bits are sound for them (hypothesis `TrivOK`: a special member of the variant is the defaulted bitwise "
               "one only when every alternative's corresponding members are the plain copy - what is_trivially_* means)",
               "the step at hand is not a cross-alternative COPY (assignment from a const& variant / expected, converting assignment "
               "from an lvalue T_j) of a value whose type has a potentially-throwing copy constructor together with a non-throwing move "
               "constructor: hypothesis `Spec.fbHit fb st op = false` of the `_partial` theorems (assign_refines_partial, "
               "convAssign_refines_partial, step_refines_partial, run_refines_partial via Spec.OkRun, expected_refines_partial), a "
               "decidable predicate on the state and the operation, evaluated step by step (histories over a configuration containing "
               "such a type are covered except for those steps); the excluded class is known finding "
               "F-C07-copy-assign-no-copy-then-move (kind x), theorems assign_fallback_counterexample / "
               "convAssign_fallback_counterexample",
               "a converting assignment that the implementation routes through a temporary variant / optional (overload resolution "
               "does so for scalar alternatives only) is to an alternative whose move construction / assignment of the temporary is "
               "not observable (hypothesis `Spec.ConvOK` / `ViaTempOK`, decidable; checked by the driver on every such line - a failure "
               "would be reported as bad-op; lemma viaTempOK_plain: always true when the special members are the plain copy)",
               "[variant.swap] leaves the number of moves of an exchange between different alternatives open; the three-move form equals "
               "the one-move-each statement of the spec when a second move construction is not observable (`Spec.MoveIdem`, hypothesis of "
               "swapV_eq_std / swap2_std / swapO_eq_std; true for the element kinds used: constant marks)",
               "histories only name existing objects and alternative indices (Spec.valid); operator* / error() are only applied where "
               "their precondition holds; float -> integer conversions are not driven with NaN"]
TRUSTED = ["hand model Tetl/C07/Model.lean tied to the source by the correspondence run (R1) on every run",
           "spec Tetl/C07/Spec.lean validated against libstdc++ std::variant/std::optional/std::expected (R2) on every run",
           "the table of implicit conversion sequences between kinds of types (Model.ics: which conversions exist and their rank, "
           "[over.best.ics] / [over.ics.rank] restricted to the 18 modelled kinds, LP64 with signed plain char) is the compiler's "
           "overload resolution written down as data; validated by R1 and R2 on every argument kind x alternative list of the "
           "selector probes and every argument type x configuration of the converting forms",
           "compile probes (PROBES in checks/props/c07.py) decide whether eight members / forms that may be absent exist; their result is part "
           "of the harness flags and of the evidence"]
T = "Tetl.C07.Props."
THEOREMS = {
    "vcat": [], "ocat": [], "ecat": [],
    "mvis": [T + "visitN_active", T + "visit_dispatch", T + "visit_flat_key_counterexample", T + "visit_flat_key_collides",
             T + "visit_flat_key_ok_of_sorted"],
    "visit": [T + "visit_dispatch", T + "visit1_active", T + "visit2_active"], "visitp": [T + "visit_dispatch"],
    "emplace": [T + "step_refines_partial", T + "run_refines_partial", T + "optional_refines", T + "expected_refines_partial"],
    "make": [T + "step_refines_partial", T + "run_refines_partial"],
    "sel": [T + "narrow_eq", T + "selectK_eq", T + "specSelectK_eq", T + "selectK_none", T + "select_pointer_not_bool", T + "select_eq"],
    "assign": [T + "assign_refines_partial", T + "assign_repeated_type", T + "assign_fallback_counterexample", T + "assignSelf_refines", T + "step_refines_partial",
               T + "run_refines_partial", T + "optional_refines", T + "expected_refines_partial"],
    "ctor": [T + "construct_refines", T + "step_refines_partial", T + "run_refines_partial"],
    "swap": [T + "swap2_refines", T + "swapSelf_refines", T + "swapV_eq_std", T + "swap2_std", T + "swapO_eq_std", T + "step_refines_partial",
             T + "run_refines_partial"],
    "rel": [T + "varRel_eq", T + "optRel_eq"], "relm": [T + "optRel_eq"],
    "reln": [T + "optRelNullR_eq", T + "optRelNullL_eq"], "relv": [T + "optRelValR_eq", T + "optRelValL_eq"],
    "conv": [T + "convAssign_refines_partial", T + "convAssign_fallback_counterexample", T + "convCtor_refines", T + "step_refines_partial",
             T + "run_refines_partial", T + "optional_refines", T + "optional_convCtor_refines", T + "select_eq", T + "selectK_eq", T + "narrow_eq",
             T + "orefConv_eq"],
    "get_if": [T + "getIf_eq"], "value_or": [T + "valueOr_eq", T + "valueOrCat_eq", T + "expValueOr_eq", T + "expValueOrCat_eq"],
    "and_then": [T + "andThen_eq", T + "expAndThen_eq"],
    "or_else": [T + "orElse_eq", T + "orElseCat_eq", T + "expOrElse_eq"],
    "reset": [T + "optional_refines"], "null": [T + "optional_refines"],
    "val": [T + "convAssign_refines_partial", T + "convCtor_refines", T + "optional_refines"],
    "ctor_val": [T + "expected_refines_partial"], "ctor_err": [T + "expected_refines_partial"], "ctor_def": [T + "expected_refines_partial"],
    "value": [], "assign_unex": [],
}
SEARCH_CAP = 300000

VAR_CFGS = ["if", "fi", "it", "ti", "tif", "ift", "tm", "iftm", "fm", "ic", "id", "ia", "ib", "qx", "cb", "ii", "tit", "qiq", "mm"]
REP_CFGS = [c for c in VAR_CFGS if len(set(c)) < len(c)]       # configurations with a repeated alternative type
# selector probes: argument kinds x alternative lists (harness sel_step0 / sel_step1, Driver.kindOf)
SEL_ARGS = "bhsilufdpPvnLeETNI"
SEL_LISTS = ["bT", "Tb", "ibv", "bi", "bN", "hld", "fl", "su", "pT", "vb", "TN", "iE", "el", "bdT", "b", "bb", "ifd", "lN", "Pb"]
OPT_CFGS = ["i", "f", "t", "m", "c", "d", "a", "b", "x"]
EXP_CFGS = ["it", "ti", "if", "tm", "ic", "qx", "db"]
CAT_CFGS = ["it", "qx", "id", "tif"]          # variant configurations with the value-category observations compiled in
ARGS = ["i", "s", "l", "f", "t", "m"]
SM_ARGS = ["c", "d", "a", "b", "q", "x"]     # the mark-carrying kinds as argument types of the converting forms


def conv_args(alts):
    """argument types for the converting forms of a configuration: the scalar / Trk / Mo ones, every mark-carrying kind that
    is an alternative (lvalue and rvalue arguments tell copy from move members), and one that is not (no conversion: nc)"""
    own = [a for a in SM_ARGS if a in alts]
    return ARGS + own + [next(a for a in ("q", "c") if a not in alts)]
VALS = {"i": [1, 2], "f": [2, 1000], "t": [1, 2], "m": [1, 2], "c": [1, 2], "d": [1, 2], "a": [1, 2], "b": [1, 2], "q": [1, 2],
        "x": [1, 2]}


def var_states(alts):
    return [(i, v) for i, a in enumerate(alts) for v in VALS[a]]


def new(kind, alts=None, n=3):
    return "new kind=%s%s n=%d" % (kind, " alts=" + alts if alts else "", n)


def arg_val(a, alts, rnd=None):
    """payload for an argument of type a (NaN only where no float -> integer conversion can follow)"""
    if a == "f":
        vs = [3, 5] + ([1000] if "f" in alts and alts != "" else [])
        return vs if rnd is None else rnd.choice(vs)
    return [2] if rnd is None else rnd.choice([1, 2, 3])


def gen_var_exhaustive(add, thorough):
    pair_ops = ["assign s=0 from=1 mv=0", "assign s=0 from=1 mv=1", "assign s=1 from=0 mv=1", "ctor s=0 from=1 mv=0",
                "ctor s=0 from=1 mv=1", "ctor s=2 from=0 mv=1", "swap s=0 with=1", "swap s=1 with=0", "rel s=0 with=1", "rel s=1 with=0",
                "visit s=[0,1]", "visit s=[1,0] idx=1"]
    self_ops = ["assign s=0 from=0 mv=0", "assign s=0 from=0 mv=1", "ctor s=0 from=0 mv=0", "ctor s=0 from=0 mv=1",
                "swap s=0 with=0", "rel s=0 with=0", "visit s=[0]", "visit s=[0] idx=1"]
    for alts in VAR_CFGS:
        sts = var_states(alts)
        n = len(alts)
        for (i0, v0), (i1, v1) in itertools.product(sts, repeat=2):
            uniq1 = alts.count(alts[i1]) == 1
            setup = [new("var", alts), "emplace s=0 i=%d v=%d" % (i0, v0),
                     ("emplace s=1 i=%d v=%d via=type" if uniq1 else "make s=1 i=%d v=%d") % (i1, v1)]
            for op in pair_ops:
                add(setup + [op, "rel s=0 with=1", "visit s=[0,1,2] idx=1" if n <= 3 else "visit s=[2,1]"], "var-pair/" + alts)
        for (i0, v0) in sts:
            setup = [new("var", alts), "emplace s=0 i=%d v=%d" % (i0, v0)]
            add([new("var", alts), "make s=0 i=%d v=%d" % (i0, v0), "make s=1 i=%d v=%d" % (i0, v0), "rel s=0 with=1", "visit s=[0,1] idx=1"]
                + ["get_if s=0 i=%d" % i for i in range(n)], "var-make/" + alts)
            for op in self_ops:
                add(setup + [op, "visit s=[0]"], "var-self/" + alts)
            add(setup + ["get_if s=0 i=%d%s" % (i, via) for i in range(n) for via in ("", " via=type")]
                + ["holds s=0 i=%d" % i for i in range(n)], "var-get/" + alts)
            for a in conv_args(alts):
                for v in arg_val(a, alts):
                    for how in ("ctor", "assign"):
                        for cat in ("l", "r"):
                            add(setup + ["conv s=0 a=%s v=%d how=%s cat=%s" % (a, v, how, cat), "get_if s=0 i=0", "swap s=0 with=1"],
                                "var-conv/" + alts)
            for pos in (0, 1, 2):
                for idx in (0, 1):
                    add(setup + ["visitp s=0 pos=%d v=7 idx=%d" % (pos, idx)], "var-visitp/" + alts)
        if n <= 3:
            for t in itertools.product(range(n), repeat=3):
                setup = [new("var", alts)] + ["emplace s=%d i=%d v=%d" % (k, i, VALS[alts[i]][k % 2]) for k, i in enumerate(t)]
                add(setup + ["visit s=[0,1,2]", "visit s=[2,0,1] idx=1", "visit s=[1,1,0]"], "var-visit3/" + alts)
    # value categories: every object category for one variant, every pair of categories for two, by-value visitor
    for alts in CAT_CFGS:
        for (i0, v0), (i1, v1) in itertools.product([(i, VALS[a][0]) for i, a in enumerate(alts)], repeat=2):
            setup = [new("var", alts), "emplace s=0 i=%d v=%d" % (i0, v0), "emplace s=1 i=%d v=%d" % (i1, v1)]
            add(setup + ["vcat s=[0] q=[%d] vis=cat" % q for q in range(4)]
                + ["vcat s=[0,1] q=[%d,%d] vis=cat" % (q, r) for q in range(4) for r in range(4)], "var-cat/" + alts)
            for q in range(4):
                add(setup + ["vcat s=[0] q=[%d] vis=take" % q, "vcat s=[1,0] q=[%d,%d] vis=take" % (q, 3 - q), "visit s=[0,1]"], "var-cat/" + alts)
                add(setup + ["vcat s=[0,1] q=[2,%d] vis=take" % q, "vcat s=[0,1] q=[%d,2] vis=take" % q], "var-cat/" + alts)
    # all histories of a fixed depth over a small alphabet, two objects
    for alts in (["it", "if", "ic", "qx", "qiq"] if not thorough else ["it", "if", "tm", "ic", "id", "ia", "ib", "qx", "cb", "qiq", "tit"]):
        alpha = ["emplace s=%d i=%d v=%d" % (k, i, 1 + k) for k in (0, 1) for i in ((0, 1) if alts not in REP_CFGS else (0, 2))]
        alpha += ["assign s=%d from=%d mv=%d" % (k, j, mv) for k in (0, 1) for j in (0, 1) for mv in (0, 1)]
        alpha += ["ctor s=%d from=%d mv=%d" % (k, j, mv) for k in (0, 1) for j in (0, 1) for mv in (0, 1)]
        alpha += ["swap s=0 with=1", "swap s=0 with=0", "swap s=1 with=1"]
        alpha += ["conv s=0 a=i v=3 how=assign", "conv s=1 a=s v=2 how=ctor", "conv s=1 a=t v=1 how=assign", "conv s=0 a=f v=3 how=assign"]
        alpha += ["conv s=%d a=%s v=4 how=assign cat=%s" % (k, a, cat) for k, a in enumerate(alts[:2]) if a in SM_ARGS for cat in ("l", "r")]
        for seq in itertools.product(alpha, repeat=3 if thorough else 2):
            add([new("var", alts, 2)] + list(seq) + ["rel s=0 with=1", "visit s=[0,1] idx=1"], "var-hist/" + alts)


def opt_states(t):
    return [None] + VALS[t]


def gen_opt_exhaustive(add, thorough):
    def setv(k, v):
        return "reset s=%d" % k if v is None else "emplace s=%d v=%d" % (k, v)

    for t in OPT_CFGS:
        pvals = [None, 1, 2]
        for v0, v1 in itertools.product(opt_states(t), repeat=2):
            setup = [new("opt", t), setv(0, v0), setv(1, v1)]
            for op in ["assign s=0 from=1 mv=0", "assign s=0 from=1 mv=1", "ctor s=0 from=1 mv=0", "ctor s=2 from=1 mv=1",
                       "swap s=0 with=1", "swap s=1 with=0 via=member", "rel s=0 with=1", "rel s=1 with=0"]:
                add(setup + [op, "rel s=0 with=1", "has s=0"], "opt-pair/" + t)
        for v0 in opt_states(t):
            setup = [new("opt", t), setv(0, v0)]
            for op in ["assign s=0 from=0 mv=0", "assign s=0 from=0 mv=1", "ctor s=0 from=0 mv=1", "swap s=0 with=0",
                       "swap s=0 with=0 via=member", "reset s=0", "null s=0 how=assign", "null s=0 how=ctor", "reln s=0", "has s=0",
                       "value_or s=0 v=7", "value_or s=0 v=7 mv=1", "and_then s=0 f=inc", "and_then s=0 f=none",
                       "or_else s=0 v=5", "or_else s=0", "or_else s=0 v=5 mv=1", "emplace s=0 v=2",
                       "ocat s=0 q=0", "ocat s=0 q=1", "ocat s=0 q=2", "ocat s=0 q=3", "ocat s=0 q=0 take=1", "ocat s=0 q=1 take=1",
                       "ocat s=0 q=2 take=1", "ocat s=0 q=3 take=1"]:
                add(setup + [op, "has s=0", "reln s=0"], "opt-one/" + t)
            for own in VALS[t] + [3]:
                add(setup + ["relv s=0 a=own v=%d" % own], "opt-relv/" + t)
            for pv in [1, 2, 3]:
                add(setup + ["relv s=0 a=i v=%d" % pv], "opt-relv/" + t)
            for a in conv_args(t):
                for v in ([2, 3] if a != "f" else ([3, 5] + ([1000] if t == "f" else []))):
                    for how in ("ctor", "assign"):
                        for cat in ("l", "r"):
                            add(setup + ["val s=0 a=%s v=%d how=%s cat=%s" % (a, v, how, cat), "has s=0"], "opt-val/" + t)
            add(setup + ["value s=0"], "opt-value/" + t)
            for pv in pvals:
                ps = "pset j=1" + ("" if pv is None else " v=%d" % pv)
                add(setup + [ps, "relm s=0 with=1"], "opt-relm/" + t)
                for how in ("ctor", "assign"):
                    for mv in (0, 1):
                        add(setup + [ps, "conv s=0 from=1 how=%s mv=%d" % (how, mv), "relm s=0 with=1"], "opt-conv/" + t)
    # optional<int&>
    rstates = [None, 0, 1]

    def bind(k, c, how="assign"):
        return "null s=%d how=assign" % k if c is None else "bind s=%d c=%d how=%s" % (k, c, how)

    for c0, c1 in itertools.product(rstates, repeat=2):
        setup = [new("oref"), bind(0, c0, "ctor"), bind(1, c1, "emplace"), "write s=1 v=10"]
        for op in ["assign s=0 from=1 mv=0", "assign s=0 from=1 mv=1", "ctor s=2 from=0 mv=0", "ctor s=0 from=1 mv=1", "swap s=0 with=1",
                   "swap s=0 with=1 via=member", "swap s=0 with=0", "rel s=0 with=1", "reln s=0", "reset s=0", "null s=0 how=ctor",
                   "bind s=0 c=2 how=assign", "bind s=0 c=2 how=ctor", "bind s=0 c=2 how=emplace", "write s=0 v=20"]:
            add(setup + [op, "get s=0", "get s=1", "rel s=0 with=1", "write s=0 v=5", "get s=2"], "oref")
    # optional<int const&> from optional<int&> / optional<int>: every source state x source form x constructor (direct, copy-
    # initialization) / assignment to an empty and to a bound target; the source and the other slots are shown after each line
    for c0 in rstates:
        setup = [new("oref"), bind(0, c0, "ctor"), "bind s=1 c=2 how=assign"]
        for src in OREF_SRC:
            for how in OREF_HOW:
                add(setup + ["conv s=0 how=%s src=%s" % (how, src), "get s=0", "conv s=1 how=%s src=%s" % (how, src)], "oref-conv")
        for src in OREF_SRC:
            add(setup + ["write s=1 v=7", "conv s=0 how=assign src=%s pre=2" % src, "conv s=0 how=assign src=%s pre=%d" % (src, c0 or 0),
                         "get s=0", "get s=1"], "oref-conv")


def exp_states(alts):
    return [("v", v) for v in VALS[alts[0]][:2]] + [("e", v) for v in VALS[alts[1]][:2]]


def gen_exp_exhaustive(add, thorough):
    def setx(k, st):
        return ("ctor_val s=%d v=%d" if st[0] == "v" else "ctor_err s=%d v=%d") % (k, st[1])

    for alts in EXP_CFGS:
        for s0, s1 in itertools.product(exp_states(alts), repeat=2):
            setup = [new("exp", alts), setx(0, s0), setx(1, s1)]
            for op in ["assign s=0 from=1 mv=0", "assign s=0 from=1 mv=1", "ctor s=0 from=1 mv=0", "ctor s=2 from=1 mv=1",
                       "swap s=0 with=1", "swap s=1 with=0"]:
                add(setup + [op, "has s=0", "has s=1"], "exp-pair/" + alts)
        for s0 in exp_states(alts):
            setup = [new("exp", alts), setx(0, s0)]
            for op in ["assign s=0 from=0 mv=0", "assign s=0 from=0 mv=1", "swap s=0 with=0", "ctor s=0 from=0 mv=1", "ctor_def s=0",
                       "emplace s=0 v=2", "has s=0", "value_or s=0 v=7", "value_or s=0 v=7 mv=1", "and_then s=0 f=inc",
                       "and_then s=0 f=fail v=3", "or_else s=0 f=recover v=4", "or_else s=0 f=same",
                       "ecat s=0 q=0", "ecat s=0 q=1", "ecat s=0 q=2", "ecat s=0 q=3"]:
                add(setup + [op, "has s=0"], "exp-one/" + alts)
            add(setup + ["assign_unex s=0 v=1"], "exp-unex/" + alts)
            add(setup + ["value s=0"], "exp-value/" + alts)
        for s0, s1 in itertools.product(exp_states(alts), repeat=2):
            add([new("exp", alts), setx(0, s0), setx(1, s1), "rel s=0 with=1", "rel s=1 with=1"], "exp-rel/" + alts)


def gen_sel_exhaustive(add, thorough):
    """converting constructor / assignment: every argument kind x every alternative list x both forms"""
    for alts in SEL_LISTS:
        for how in ("ctor", "assign"):
            add([new("sel")] + ["sel a=%s alts=%s how=%s" % (a, alts, how) for a in SEL_ARGS], "sel/" + alts)


# visit over arguments of different types (`new kind=mv`): argument kinds 0 = non-variant int, 1..4 = variant with that many
# alternatives; MV_SIZE[k] = variant_size of kind k
MV_SIZE = [1, 1, 2, 3, 4]
MV_Q6 = [(0, 0), (1, 1), (2, 2), (3, 3), (0, 2), (3, 1)]
MV_Q3 = [(1, 1, 1), (2, 0, 3)]
MV_K4 = [(3, 2, 2, 3), (2, 2, 3, 3)]


def mv_kinds(arity):
    """the kind tuples the harness compiles (harness/c07.cpp mv_ok3, Driver.mvOK)"""
    if arity == 1:
        return [(k,) for k in range(5)]
    if arity == 2:
        return list(itertools.product(range(5), repeat=2))
    if arity == 3:
        r = []
        for ks in itertools.product(range(4), repeat=3):
            z = ks.count(0)
            if (z == 0) or (z == 1 and all(k in (0, 2, 3) for k in ks)):
                r.append(ks)
        return r
    return list(MV_K4)


def mv_cats(ks):
    """the value-category tuples compiled for a kind tuple (mv_ok2 of the harness)"""
    if len(ks) == 1:
        return [(q,) for q in range(4)]
    if len(ks) == 2:
        return list(itertools.product(range(4), repeat=2)) if ks in ((3, 2), (2, 3)) else list(MV_Q6)
    if len(ks) == 3:
        return list(MV_Q3)
    return [(0, 1, 2, 3)]


def mv_line(ks, acts, vals, qs, idx):
    return "mvis k=%s act=%s v=%s q=%s idx=%d" % (fmt_list(list(ks)), fmt_list(list(acts)), fmt_list(list(vals)), fmt_list(list(qs)), idx)


def gen_mv_exhaustive(add, thorough):
    """every tuple of argument kinds (alternative counts 1..4 x 1..4, 1..3 cubed, a non-variant argument in every position, two
    lists of four) x EVERY tuple of active indices x visit / visit_with_index, per tuple of value categories"""
    for arity in (1, 2, 3, 4):
        for ks in mv_kinds(arity):
            vals = [5 + j for j in range(arity)]
            for qs in mv_cats(ks):
                lines = [new("mv")]
                for acts in itertools.product(*[range(MV_SIZE[k]) for k in ks]):
                    for idx in (0, 1):
                        lines.append(mv_line(ks, acts, vals, qs, idx))
                add(lines, "mv-visit%d/%s" % (arity, "".join(map(str, ks))))


def rand_mv(rnd, length):
    lines = [new("mv")]
    for _ in range(length):
        arity = rnd.choice([1, 2, 2, 2, 3, 3, 4])
        ks = rnd.choice(mv_kinds(arity))
        lines.append(mv_line(ks, [rnd.randrange(MV_SIZE[k]) for k in ks], [rnd.randrange(0, 40) for _ in ks],
                             rnd.choice(mv_cats(ks)), rnd.randrange(2)))
    return lines


def rand_var(rnd, alts, length):
    n = 3
    lines = [new("var", alts, n)]
    na = len(alts)
    for _ in range(length):
        r = rnd.random()
        k, j = rnd.randrange(n), rnd.randrange(n)
        if r < 0.22:
            i = rnd.randrange(na)
            v = rnd.choice(VALS[alts[i]] + [3])
            lines.append(rnd.choice(["emplace s=%d i=%d v=%d", "emplace s=%d i=%d v=%d via=type", "make s=%d i=%d v=%d"]) % (k, i, v))
        elif r < 0.40:
            lines.append("assign s=%d from=%d mv=%d" % (k, j, rnd.randrange(2)))
        elif r < 0.52:
            lines.append("ctor s=%d from=%d mv=%d" % (k, j, rnd.randrange(2)))
        elif r < 0.64:
            lines.append("swap s=%d with=%d" % (k, j))
        elif r < 0.76:
            a = rnd.choice(conv_args(alts))
            lines.append("conv s=%d a=%s v=%d how=%s cat=%s" % (k, a, arg_val(a, alts, rnd), rnd.choice(["ctor", "assign"]), rnd.choice("lr")))
        elif r < 0.84:
            lines.append("rel s=%d with=%d" % (k, j))
        elif r < 0.90:
            lines.append(rnd.choice(["get_if", "holds"]) + " s=%d i=%d" % (k, rnd.randrange(na)))
        elif r < 0.915:
            lines.append("visitp s=%d pos=%d v=%d idx=%d" % (k, rnd.randrange(3), rnd.randrange(9), rnd.randrange(2)))
        elif r < 0.96 or alts not in CAT_CFGS:
            cnt = rnd.choice([1, 2, 2, 3]) if na <= 3 else rnd.choice([1, 2])
            lines.append("visit s=%s%s" % (fmt_list([rnd.randrange(n) for _ in range(cnt)]), rnd.choice(["", " idx=1"])))
        else:
            ks = rnd.sample(range(n), rnd.choice([1, 2]))
            lines.append("vcat s=%s q=%s vis=%s" % (fmt_list(ks), fmt_list([rnd.randrange(4) for _ in ks]), rnd.choice(["cat", "take"])))
    return lines


def rand_opt(rnd, t, length):
    n = 3
    lines = [new("opt", t, n)]
    for _ in range(length):
        r = rnd.random()
        k, j = rnd.randrange(n), rnd.randrange(n)
        v = rnd.choice(VALS[t] + [3])
        if r < 0.15:
            lines.append("emplace s=%d v=%d" % (k, v))
        elif r < 0.22:
            lines.append(rnd.choice(["reset s=%d", "null s=%d how=assign", "null s=%d how=ctor"]) % k)
        elif r < 0.32:
            a = rnd.choice(conv_args(t))
            av = rnd.choice([3, 5] + ([1000] if t == "f" else [])) if a == "f" else rnd.choice([1, 2, 3])
            lines.append("val s=%d a=%s v=%d how=%s cat=%s" % (k, a, av, rnd.choice(["ctor", "assign"]), rnd.choice("lr")))
        elif r < 0.46:
            lines.append("%s s=%d from=%d mv=%d" % (rnd.choice(["assign", "ctor"]), k, j, rnd.randrange(2)))
        elif r < 0.56:
            lines.append("swap s=%d with=%d%s" % (k, j, rnd.choice(["", " via=member"])))
        elif r < 0.62:
            lines.append("pset j=%d%s" % (j, rnd.choice(["", " v=1", " v=2", " v=3"])))
        elif r < 0.70:
            lines.append("conv s=%d from=%d how=%s mv=%d" % (k, j, rnd.choice(["ctor", "assign"]), rnd.randrange(2)))
        elif r < 0.82:
            lines.append(rnd.choice(["rel s=%d with=%d", "relm s=%d with=%d"]) % (k, j))
        elif r < 0.88:
            lines.append(rnd.choice(["reln s=%d" % k, "relv s=%d a=own v=%d" % (k, v), "relv s=%d a=i v=%d" % (k, rnd.choice([1, 2, 3]))]))
        else:
            lines.append(rnd.choice(["has s=%d" % k, "value_or s=%d v=7" % k, "value_or s=%d v=7 mv=1" % k, "and_then s=%d f=inc" % k,
                                     "and_then s=%d f=none" % k, "or_else s=%d v=5" % k, "or_else s=%d" % k, "or_else s=%d v=4 mv=1" % k,
                                     "ocat s=%d q=%d" % (k, rnd.randrange(4)), "ocat s=%d q=%d take=1" % (k, rnd.randrange(4)),
                                     "value s=%d" % k]))
    return lines


def rand_exp(rnd, alts, length):
    n = 3
    lines = [new("exp", alts, n)]
    for _ in range(length):
        r = rnd.random()
        k, j = rnd.randrange(n), rnd.randrange(n)
        if r < 0.30:
            lines.append(rnd.choice(["ctor_val s=%d v=%d", "ctor_err s=%d v=%d", "emplace s=%d v=%d"]) % (k, rnd.choice([1, 2, 3])))
        elif r < 0.34:
            lines.append("ctor_def s=%d" % k)
        elif r < 0.58:
            lines.append("%s s=%d from=%d mv=%d" % (rnd.choice(["assign", "ctor"]), k, j, rnd.randrange(2)))
        elif r < 0.72:
            lines.append("swap s=%d with=%d" % (k, j))
        else:
            lines.append(rnd.choice(["has s=%d" % k, "value_or s=%d v=7" % k, "value_or s=%d v=7 mv=1" % k, "and_then s=%d f=inc" % k,
                                     "and_then s=%d f=fail v=3" % k, "or_else s=%d f=recover v=4" % k, "or_else s=%d f=same" % k,
                                     "ecat s=%d q=%d" % (k, rnd.randrange(4)), "value s=%d" % k, "rel s=%d with=%d" % (k, j)]))
    return lines


OREF_SRC = ["ref", "cref", "rref", "val", "cval"]
OREF_HOW = ["ctor", "implicit", "assign"]


def rand_oref(rnd, length):
    n = 3
    lines = [new("oref", None, n)]
    for _ in range(length):
        r = rnd.random()
        k, j = rnd.randrange(n), rnd.randrange(n)
        if r < 0.30:
            lines.append("bind s=%d c=%d how=%s" % (k, rnd.randrange(3), rnd.choice(["ctor", "assign", "emplace"])))
        elif r < 0.38:
            lines.append(rnd.choice(["reset s=%d", "null s=%d how=assign", "null s=%d how=ctor"]) % k)
        elif r < 0.55:
            lines.append("%s s=%d from=%d mv=%d" % (rnd.choice(["assign", "ctor"]), k, j, rnd.randrange(2)))
        elif r < 0.68:
            lines.append("swap s=%d with=%d%s" % (k, j, rnd.choice(["", " via=member"])))
        elif r < 0.78:
            lines.append("write s=%d v=%d" % (k, rnd.randrange(1, 40)))
        elif r < 0.88:
            how = rnd.choice(OREF_HOW)
            pre = " pre=%d" % rnd.randrange(3) if how == "assign" and rnd.random() < 0.5 else ""
            lines.append("conv s=%d how=%s src=%s%s" % (k, how, rnd.choice(OREF_SRC), pre))
        else:
            lines.append(rnd.choice(["get s=%d" % k, "rel s=%d with=%d" % (k, j), "reln s=%d" % k]))
    return lines


def generate(tier, seed):
    rnd = random.Random(seed)
    thorough = tier == "thorough"
    cases, dist = [], {}

    def add(lines, tag):
        cases.append(Case(lines, tag))
        g = tag.split("/")[0]
        dist[g] = dist.get(g, 0) + 1

    gen_var_exhaustive(add, thorough)
    gen_opt_exhaustive(add, thorough)
    gen_exp_exhaustive(add, thorough)
    gen_sel_exhaustive(add, thorough)
    gen_mv_exhaustive(add, thorough)
    nr = 150000 if thorough else 3000
    for _ in range(nr):
        ln = rnd.randint(10, 30)
        r = rnd.random()
        if r < 0.05:
            add(rand_mv(rnd, ln), "random-mv")
        elif r < 0.45:
            add(rand_var(rnd, rnd.choice(VAR_CFGS), ln), "random-var")
        elif r < 0.75:
            add(rand_opt(rnd, rnd.choice(OPT_CFGS), ln), "random-opt")
        elif r < 0.90:
            add(rand_exp(rnd, rnd.choice(EXP_CFGS), ln), "random-exp")
        else:
            add(rand_oref(rnd, ln), "random-oref")
    ops = {}
    for c in cases:
        for ln in c.lines[1:]:
            o = ln.split(" ")[0]
            ops[o] = ops.get(o, 0) + 1
    dist["operations"] = ops
    dist["compile_probes"] = dict(PROBE_RESULT)
    return cases, False, dist


def _state(out):
    return out.split(" |", 1)[1] if " |" in out else ""


def nontrivial(case, rows):
    if case.lines[0].startswith("new kind=sel"):        # no state: non-trivial = some argument kind selects an alternative
        return any(not r.spec.startswith("nc") for r in rows[1:])
    if case.lines[0].startswith("new kind=mv"):         # no state: non-trivial = some argument holds another alternative than the first
        return any(re.search(r"act=\[[^\]]*[1-9]", ln) for ln in case.lines[1:])
    s0 = _state(rows[0].spec)
    return any(_state(r.spec) != s0 for r in rows[1:])


def classify(case, k, row):
    """known findings: exactly the lines that ask for a member the library does not provide"""
    op = case.lines[k].split(" ")[0]
    if op == "assign_unex" and case.lines[0].startswith("new kind=exp") and row.impl.startswith("nc"):
        return "F-C07-expected-no-unexpected-assign"
    kind = re.match(r"new kind=(\w+)", [ln for ln in case.lines[:k + 1] if ln.startswith("new ")][-1]).group(1)
    if op == "rel" and kind == "exp" and row.impl.startswith("nc"):
        return "F-C07-expected-no-equality"
    if op == "value" and kind in ("opt", "exp") and row.impl.startswith("nc"):
        return "F-C07-no-checked-value-access"
    copy_assign = op == "assign" and " mv=0" in case.lines[k]
    copy_conv = op == "conv" and kind == "var" and " how=assign" in case.lines[k] and " cat=l" in case.lines[k] and " a=x " in case.lines[k]
    if (copy_assign or copy_conv) and row.impl == row.model:
        # copy assignment to a different alternative whose type asks for copy-then-move ([variant.assign]/2.4, reinit-expected):
        # exactly one slot differs, it holds an x, implementation mark 1 (copy constructed), reference mark 2
        head = [ln for ln in case.lines[:k + 1] if ln.startswith("new ")][-1]
        m = re.match(r"new kind=(var|exp) alts=(\w+)", head)
        if m and "x" in m.group(2):
            a, b = row.impl.split(" "), row.spec.split(" ")
            diff = [(x, y) for x, y in zip(a, b) if x != y] if len(a) == len(b) else None
            if diff and len(diff) == 1 and re.fullmatch(r"(\d:|[ve]:)x-?\d+\.1", diff[0][0]) and diff[0][1] == diff[0][0][:-1] + "2":
                return "F-C07-copy-assign-no-copy-then-move"
    return None


def group_of(case):
    return case.tag.split("/")[0]


CLAIMED = True
TECHNIQUE = ("Lean 4 proof: hand model of etl::variant (index + active value, every union access checked, visit_with_index modelled "
             "with its next_seq mixed-radix recursion, assign/construct/destroy/comparison through that dispatch, the four special "
             "members selected by the trait bits of the requires-clauses and applied to the elements as abstract copy/move "
             "constructor and assignment functions, converting constructor / assignment with both of its routes, generic three-move "
             "swap), of optional and expected as wrappers of it, refined to a "
             "declarative sum-type spec for all histories; model tied to the code by exhaustive small-scope + random "
             "correspondence runs against std::variant/optional/expected")
LEVEL_TEXT = ("etl::variant is modelled as (index, value of the active union member) with every union access behind the I == index() "
              "check, and visit/visit_with_index as the real recursion: start at the all-zero index tuple, compare with the tuple of "
              "index() values, step with next_seq (a mixed-radix increment that wraps to zero) and call the last instantiation "
              "untested. Lean 4 proves, for any number of variants, any alternative counts and any active indices, that this "
              "dispatch ends on exactly the active tuple (so a visitor is always invoked with the active alternatives and no inactive "
              "member is read); visitN_active states this for a list of arguments that each have their OWN alternative count "
              "(variants of different types, non-variant arguments): the visitor receives the (index, value) of the active "
              "alternative of every argument, in order ([variant.visit]). Three sensitivity theorems show that the statement is "
              "not satisfied by a dispatcher that compares one flattened position with the stride multiplied before use (an "
              "independently seeded change): it calls the visitor with two inactive alternatives for variant<A,B,C> holding A and "
              "variant<X,Y> holding Y, two valid index tuples collide wherever a size is followed by a smaller one >= 2, and it "
              "is right whenever the sizes never decrease - which is why visits of single variants and of equal types (all the "
              "library itself does) cannot tell the two apart and the correspondence run drives every combination of sizes. "
              "Lean 4 also proves - with no bound on history length or number of objects - that every history of emplace, in-place "
              "construction, copy/move assignment and construction (trivial and non-trivial special-member paths, self forms), "
              "converting construction and converting assignment from a value, and the generic three-move swap never fails and leaves "
              "every object with the index and value the sum-type spec prescribes, moved-from sources included. The element's copy "
              "constructor, move constructor, copy assignment and move assignment are four arbitrary functions on values (no laws), so "
              "the theorems also say WHICH special member produces the stored value: [variant.assign] / [variant.ctor] / "
              "[optional.assign] / [expected.object.assign] - same alternative: the element's assignment; different alternative: "
              "destroy + construction from the source - with the variant's defaulted (bitwise) members taken exactly when the trait "
              "bits of the requires-clauses say so. The converting assignment `v = t` / `o = t` is part of the model (both routes the "
              "implementation has: the operator=(T&&) member template, and - where that template is constrained away, scalar "
              "alternatives - the temporary variant/optional plus move assignment) and proved equal to [variant.assign]/13 / "
              "[optional.assign]: the selected alternative is held -> the argument is copy / move assigned to the held element and "
              "nothing is re-constructed; otherwise destroy + construct from the argument; optional = optional<U> is the same step. "
              "The spec carries the copy-then-move that [variant.assign]/2.4, 13.3 and reinit-expected prescribe for an alternative with "
              "a throwing copy and a non-throwing move constructor; etl constructs in place there (known finding, two counterexample "
              "theorems). The `_partial` theorems exclude exactly that class, as a decidable predicate on the step (Spec.fbHit), not on "
              "the configuration: histories over a variant that contains such a type are covered except for the steps that are a "
              "cross-alternative copy of such a value. variant::swap is specified as [variant.swap] states it (same alternative: the "
              "elements are swapped; different: the values are exchanged) and the three-move etl::swap is proved equal to it - exactly "
              "for equal alternatives, and for different ones under the single element law that a second move construction is not "
              "observable; likewise [optional.swap]. optional (engaged = index 1, reset = emplace<0>(nullopt)) and expected (value = "
              "index 0) are proved to be simulations of Option / value-or-error under that history theorem. All six relational operators "
              "of variant, of optional/optional (mixed T/U), optional/nullopt and optional/value in both operand orders are proved equal "
              "to the std definitions for arbitrary element operator tables (NaN-like ones included); value_or, and_then and get_if are "
              "proved equal to their declarative specs, and so are optional::or_else and expected's value_or, and_then, or_else and "
              "error() (with their preconditions shown to hold on the paths that use them); for value_or and optional::or_else also the "
              "rvalue overloads with the copy / move construction of the result and the moved-from object. The alternative the "
              "converting constructor / assignment selects (a left-to-right scan keeping the best non-narrowing candidate and a tie "
              "flag) is proved equal to the declarative selection (the unique viable alternative strictly better than all others) for "
              "any candidate table. The candidate table itself is part of the model for 18 kinds of argument and alternative types "
              "(bool, five further integer and two floating-point types, three pointer types, nullptr_t, string literals, unscoped and "
              "scoped enumerations, classes with a converting constructor from int / from char const*, a class with a conversion "
              "function): the no-narrowing test of variant_alternative_candidate (`Ti x[] = {forward<T>(t)}` well-formed), applied to "
              "EVERY pair of kinds, is proved equal to [dcl.init.list]/7 clause by clause - floating -> integer, double -> float, "
              "integer / unscoped enumeration -> floating, integer -> integer that cannot represent every value, and pointer -> bool "
              "(P1957R2) - (narrow_eq), and the selected alternative is proved to be, for any argument kind and ANY list of "
              "alternative kinds, repeated ones included, exactly the one [variant.ctor]/14 prescribes: the alternative whose FUN(Ti) "
              "exists and whose conversion sequence is strictly better than that of every other such alternative, and none when "
              "there is no such alternative (selectK_eq, selectK_none; e.g. variant<bool, Text>{\"abc\"} holds Text: "
              "select_pointer_not_bool). A variant with a repeated alternative type is an ordinary configuration of model and spec "
              "(both go by index): assign_repeated_type states that assignment between two different indices never assigns through, "
              "whatever the types are. Value categories cannot be carried by a value-level model: which reference kind visit, "
              "unchecked_get, operator[], operator*, error(), and_then and or_else hand on for lvalue, const lvalue, rvalue and const "
              "rvalue objects, and what a by-value visitor leaves behind in the source, is observed at compile time (decltype matrix) "
              "and at run time and compared with std line by line. The model is tied to the current source on every run by executing "
              "model and implementation on the same histories (every from/to state pair x every assignment, construction, swap and "
              "comparison form over 19 variant, 9 optional, 7 expected configurations with trivially copyable, non-trivial, move-only "
              "alternatives, four with a repeated alternative type, six kinds whose four special members are distinguishable in the stored value - "
              "also as lvalue and rvalue ARGUMENTS of the converting forms - and optional<int&>; visit with non-variant arguments; visit "
              "and visit_with_index over one to four arguments of different variant types, every combination of 1..4 x 1..4 "
              "alternatives and every tuple of active indices; all "
              "depth-2/3 histories; random long histories; the selector probes over 18 argument kinds x 19 alternative lists) under ASan/UBSan; the spec is validated against libstdc++ on the same histories.")
LEVEL_NOTE = ("Trusted: Lean kernel + propext/Classical.choice/Quot.sound; the hand model's fidelity outside the explored inputs; "
              "g++-12/ASan; libstdc++ 12 as oracle for spec validation. Overload resolution and template constraints are the compiler's: "
              "WHICH overload a call selects (member template or converting constructor + move assignment; which alternative's "
              "conversion rank) is given to the model as data (the `direct` flag of the driver and the conversion table Model.ics, "
              "functions of the types) and validated by the correspondence run on every argument type x category x configuration; what the selected "
              "route does is modelled and proved. `!=` is modelled as the negation of `==` (the C++20 rewrite the library relies on; "
              "std uses the element's own `!=`): hypothesis `hne`. Object lifetime (construct/destroy pairing) is property C03, not "
              "modelled here. optional<T&> is modelled as a nullable cell index and compared with a pointer reference written out in "
              "the harness (no std counterpart in libstdc++ 12). Members the std types have and the library does not (expected = "
              "unexpected<G>, expected ==/!=, optional/expected value()) are recorded as known findings, "
              "each switched by a compile probe and replayed on every run. optional<T&> from optional<U> (P2988 converting "
              "constructor / assignment; repaired by three fix commits) is switched by four compile probes (const / non-const "
              "source x constructor / assignment): a form that stops compiling answers `nc`, which is a VIOLATION.")
CORRESPONDENCE_ONLY = [
    "optional<T&> (bind/rebind, reset, copy, swap of the pointer, write-through, comparisons): the model is a nullable cell index; "
    "compared with a pointer reference on every run, no theorem beyond the optional relational theorems it reuses and "
    "orefConv_eq (optional<T&> from optional<U>: has_value() ? addressof(*rhs) : nullptr equals the P2988 wording and never "
    "dereferences an empty source); WHICH member a source form (const / non-const lvalue / rvalue; direct- / copy-initialization / "
    "assignment) selects is the compiler's overload resolution, validated by R1/R2 on every form x source state",
    "which route a converting assignment takes (`direct` of Model.convAssign: the operator=(T&&) template is viable for class "
    "alternatives, and for optional unless T is scalar and U = T) and which implicit conversions exist with which rank (Model.ics): "
    "functions of the types, i.e. the compiler's overload resolution; given to the model as data and validated by "
    "R1/R2 on every argument type x lvalue/rvalue x configuration and every argument kind x alternative list of the selector "
    "probes (both routes themselves are in the model and proved: convAssign_refines_partial; the narrowing filter and the "
    "selection on top of that table are proved: narrow_eq, selectK_eq)",
    "conversion of the argument VALUE (short -> int, float -> Trk(int) truncation, int -> float): arithmetic of the driver's test "
    "data, validated by R1/R2",
    "expected's and_then / or_else on an rvalue expected (the value / error is moved out): Model.expAndThen / expOrElse give the "
    "element that is handed on (theorems expAndThen_eq, expOrElse_eq, expError_eq); marking the source as moved-from is done in the "
    "driver, compared on every run",
    "emplace<T> / get_if<T> / holds_alternative<T> by type: index_of<T> is compile-time; the model uses the index (for a repeated "
    "alternative type the driver answers `nc`, as both libraries do)",
    "return values of emplace (reference to the new value) and of visit (the visitor's result): compared on every run",
]
UNPROVED_OBSERVED = [
    "optional<T&> has no std counterpart in libstdc++ 12 (C++26, P2988): the reference side of the `oref` lines is the wording of "
    "the paper written out by hand in the harness (a nullable pointer; conversion from optional<U>: empty -> empty, engaged -> bound "
    "to the source's object), so R2 validates the spec against that hand-written reference, not against an independent "
    "implementation. Outside the driven forms: the final P2988 adds optional<T&>(optional<U>&) (mutable binding to the contents of a "
    "non-const optional<U>) and deletes construction from an rvalue optional<U> that would dangle; etl (following R3) has only the "
    "const& converting members, so optional<int&> from optional<int> is ill-formed and optional<int const&> from an rvalue "
    "optional<int> compiles - neither is driven nor recorded as a finding.",
    "value categories (observed, not proved - a value-level Lean model cannot carry them): the reference kind (T&, T const&, T&&, "
    "T const&&) that visit hands to the visitor for every category of one variant and every pair of categories of two (same "
    "type: vcat; different types and alternative counts, up to four arguments: the category digit of the mvis answers), of "
    "unchecked_get / std::get and operator[], of optional::operator* and the argument of optional::and_then, of expected::operator*, "
    "error() and the argument of expected::and_then / or_else, for lvalue, const lvalue, rvalue and const rvalue objects: a "
    "compile-time decltype matrix plus the run-time overload a forwarding visitor receives, etl against std line by line "
    "(expected's monadic members against [expected.object.monadic] written out, libstdc++ 12 lacks them); the moved-from state a "
    "by-value visitor / `T x = *move(o)` leaves in the source is part of the compared state; the driver's side of these lines is the "
    "forwarding table of the standard (category in = category out), not a theorem.",
    "element lifetimes (each alternative constructed once / destroyed once; arguments aliasing the variant in emplace and converting "
    "assignment): property C03; ASan/UBSan observe the explored histories",
]
