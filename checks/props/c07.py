"""C07 — optional, variant and expected track the same state and value as the std types (DESIGN §4 C07)."""
import concurrent.futures as cf
import itertools
import os
import random
import re
import subprocess
import sys
import tempfile

import lib
from lib import Case, fmt_list

PROP = "C07"
DRIVER = "drv-c07"
PROOF_MODULES = ["TetlProofs.C07.Props"]
HARNESS = "harness/c07.cpp"
SOURCES = ["include/etl/_optional/optional.hpp", "include/etl/_optional/nullopt.hpp", "include/etl/_variant/variant.hpp",
           "include/etl/_variant/variadic_union.hpp", "include/etl/_variant/visit.hpp",
           "include/etl/_variant/variant_alternative_selector.hpp", "include/etl/_expected/expected.hpp",
           "include/etl/_expected/unexpected.hpp", "include/etl/_utility/swap.hpp"]


def _probe(body):
    """does this snippet compile against the current tree? (members whose absence would otherwise stop the harness
    from compiling are switched by a macro, so that a missing member is a reported result, not a build failure)"""
    src = "#include <etl/optional.hpp>\n#include <etl/expected.hpp>\nint main(){ %s }\n" % body
    with tempfile.NamedTemporaryFile("w", suffix=".cpp", delete=False) as f:
        f.write(src)
        path = f.name
    try:
        rc = subprocess.run([lib.CXX, "-std=c++23", "-fsyntax-only", "-I", os.path.join(lib.REPO, "include"), path],
                            stdout=subprocess.DEVNULL, stderr=subprocess.DEVNULL, timeout=300).returncode
    finally:
        os.unlink(path)
    return 1 if rc == 0 else 0


PROBES = {
    "C07_HAS_NULLOPT_ORD": "etl::optional<int> o; bool b = (o <= etl::nullopt) && (o > etl::nullopt) && (o >= etl::nullopt) && "
                           "(etl::nullopt <= o) && (etl::nullopt > o) && (etl::nullopt >= o); (void)b;",
    "C07_HAS_EXPECTED_UNEX_ASSIGN": "etl::expected<int,int> e; e = etl::unexpected<int>(1);",
    "C07_HAS_OPTREF_CONV": "etl::optional<int&> a; etl::optional<int const&> c(a); (void)c;",
}
PROBE_RESULT = {k: _probe(v) for k, v in PROBES.items()}
# std::expected needs C++23; 15 variant + 9 optional + 7 expected configurations at -O0, compiled as NPARTS object files in
# parallel (harness/c07.cpp: -DC07_PART=k) by run() below; check.py then compiles main() and links them.
BASE_FLAGS = ["-std=c++23", "-O0"] + ["-D%s=%d" % kv for kv in sorted(PROBE_RESULT.items())]
HARNESS_FLAGS = list(BASE_FLAGS)
NPARTS = 8


def _build_parts():
    """compile the configuration groups of the harness in parallel; returns the object files.
    An object file is reused when the preprocessed translation unit (every header of the tree under test expanded), the
    flags and the compiler are byte-identical to those it was compiled from: any change of the library gives a new key."""
    import hashlib
    os.makedirs(lib.BUILD, exist_ok=True)
    cache = os.path.join(lib.BUILD, "c07_objcache")
    os.makedirs(cache, exist_ok=True)
    flags = [f for f in lib.CXXFLAGS if f != "-g"] + BASE_FLAGS
    cxxv = lib.sh([lib.CXX, "--version"])[1]

    def one(k):
        base = [lib.CXX] + flags + ["-DC07_PART=%d" % k, "-I", os.path.join(lib.REPO, "include"), "-I", os.path.join(lib.VERIF, "harness")]
        src = os.path.join(lib.VERIF, HARNESS)
        rc, o, e = lib.sh(base + ["-E", src], timeout=600)
        if rc != 0:
            return None, rc, o[-200:] + e
        key = hashlib.sha256((cxxv + "\0" + " ".join(flags) + "\0" + o).encode()).hexdigest()[:32]
        out = os.path.join(cache, "part%d_%s.o" % (k, key))
        if os.path.exists(out):
            os.utime(out)
            return out, 0, "cached"
        tmp = out + ".%d.tmp" % os.getpid()
        rc, o, e = lib.sh(base + ["-c", src, "-o", tmp], timeout=1200)
        if rc == 0:
            os.replace(tmp, out)
        return out, rc, o + e

    with cf.ThreadPoolExecutor(max_workers=NPARTS) as ex:
        res = list(ex.map(one, range(NPARTS)))
    bad = [r for r in res if r[1] != 0]
    if bad:
        raise lib.MachineryError("harness does not compile against %s:\n%s" % (lib.REPO, bad[0][2][-1500:]))
    olds = sorted((os.path.join(cache, f) for f in os.listdir(cache)), key=os.path.getmtime)
    for f in olds[:-12 * NPARTS]:
        os.unlink(f)
    return [r[0] for r in res]


def run(ctx, replay=None):
    """standard flow of check.py, with the harness configurations pre-compiled in parallel"""
    global HARNESS_FLAGS
    objs = _build_parts()
    HARNESS_FLAGS = BASE_FLAGS + ["-DC07_PART=-1"] + objs
    import check
    return check.standard(sys.modules[__name__], ctx, replay)


RULE = ("A case is a history: `new kind=var|opt|oref|exp alts=.. n=N` creates N objects of one configuration (etl and std side by side), "
        "each following line is one operation on them; after every line the result and the (index, value) of every object are compared. "
        "Configurations: variant over {int,float}, {float,int}, {int,Trk}, {Trk,int}, {Trk,int,float}, {int,float,Trk}, {Trk,Mo}, "
        "{int,float,Trk,Mo}, {float,Mo}, {int,C}, {int,D}, {int,A}, {int,B}, {Q,X}, {C,B}; optional<int|float|Trk|Mo|C|D|A|B|X> with a "
        "partner optional<long|int>; optional<int&>; expected<int,Trk>, <Trk,int>, <int,float>, <Trk,Mo>, <int,C>, <Q,X>, <D,B> "
        "(Trk: non-trivial copy/move/destructor, Mo: move-only; float incl. NaN; C, D, A, B: exactly one user-provided special member "
        "- copy ctor, move ctor, copy assignment, move assignment - the other three defaulted and trivial; Q, X: all four "
        "user-provided, X with a potentially-throwing copy ctor; each user-provided member leaves its own mark in the value, a "
        "defaulted one copies the source's mark, so the stored value shows which special member produced it). "
        "Value categories: `vcat` visits one or two variants as lvalue / const lvalue / rvalue / const rvalue (all 4 and all 16 "
        "combinations) with a visitor that reports the reference kind of each argument and with a by-value visitor (moved-from "
        "sources show in the state), plus the decltype matrix of visit, unchecked_get/std::get and operator[]; `ocat` / `ecat` do the "
        "same for operator*, error(), and_then and or_else of optional and expected. "
        "Exhaustive part: every (from-state, to-state) pair over 2 values per alternative x {copy/move assignment, copy/move construction, "
        "generic swap, member swap, self forms, six relational operators, visit, visit_with_index}; every converting "
        "constructor/assignment argument type {int,short,long,float,Trk,Mo} x every state; optional: every pair x mixed "
        "optional<T>/optional<U>, nullopt and value forms in both operand orders, converting construction/assignment from "
        "optional<U>, value_or/and_then/or_else on lvalues and rvalues; 3-variant visits over every index triple; all histories of "
        "depth 2 (thorough: 3) over a 27-operation alphabet. Random part (VERIF_SEED): histories of 10-30 operations over all "
        "members. A case is non-trivial when some line leaves the objects in a state different from the initial one; "
        "distinct = distinct case text.")
ASSUMPTIONS = ["std::variant / std::optional / std::expected of libstdc++ 12 (-std=c++23) are the reference for spec validation (R2); "
               "std::expected::and_then/or_else (absent from libstdc++ 12) and optional<T&> (C++26) are referenced by their "
               "definition in the working draft / P2988, written out in the harness",
               "element types: self copy / move assignment is a no-op, != is the negation of == and == is symmetric (hypotheses `hne`, "
               "`hsym` of the relational theorems; true for int, float incl. NaN, Trk, Mo and the Sm kinds)",
               "the four special members of the element types are arbitrary functions on values (structure `Elem`: no laws); the "
               "variant's trait bits are sound for them (hypothesis `TrivOK`: a special member of the variant is the defaulted bitwise "
               "one only when every alternative's corresponding members are the plain copy - what is_trivially_* means)",
               "no alternative has a potentially-throwing copy constructor together with a non-throwing move constructor (hypothesis "
               "`hfb` of assign_refines / step_refines / run_refines / expected_refines); the excluded class is known finding "
               "F-C07-copy-assign-no-copy-then-move (kind x), theorem assign_fallback_counterexample",
               "histories only name existing objects and alternative indices (Spec.valid); operator* / error() are only applied where "
               "their precondition holds; float -> integer conversions are not driven with NaN"]
TRUSTED = ["hand model Tetl/C07/Model.lean tied to the source by the correspondence run (R1) on every run",
           "spec Tetl/C07/Spec.lean validated against libstdc++ std::variant/std::optional/std::expected (R2) on every run",
           "the conversion-rank table of the element types (Driver.convTab) is test data, validated by R1 and R2 on every "
           "argument type x configuration; C++ overload resolution itself is the compiler's",
           "compile probes (PROBES in checks/props/c07.py) decide whether the three optional members exist; their result is part "
           "of the harness flags and of the evidence"]
T = "Tetl.C07.Props."
THEOREMS = {
    "vcat": [], "ocat": [], "ecat": [],
    "visit": [T + "visit_dispatch", T + "visit1_active", T + "visit2_active"],
    "emplace": [T + "step_refines", T + "run_refines", T + "optional_refines", T + "expected_refines"],
    "assign": [T + "assign_refines", T + "assign_fallback_counterexample", T + "assignSelf_refines", T + "step_refines", T + "run_refines",
               T + "optional_refines", T + "expected_refines"],
    "ctor": [T + "construct_refines", T + "step_refines", T + "run_refines"],
    "swap": [T + "swap2_refines", T + "swapSelf_refines", T + "step_refines", T + "run_refines"],
    "rel": [T + "varRel_eq", T + "optRel_eq"], "relm": [T + "optRel_eq"],
    "reln": [T + "optRelNullR_eq", T + "optRelNullL_eq"], "relv": [T + "optRelValR_eq", T + "optRelValL_eq"],
    "conv": [T + "step_refines", T + "assign_refines", T + "select_eq"],
    "get_if": [T + "getIf_eq"], "value_or": [T + "valueOr_eq", T + "expValueOr_eq"], "and_then": [T + "andThen_eq", T + "expAndThen_eq"],
    "or_else": [T + "orElse_eq", T + "expOrElse_eq"],
    "reset": [T + "optional_refines"], "null": [T + "optional_refines"], "val": [T + "optional_refines"],
    "ctor_val": [T + "expected_refines"], "ctor_err": [T + "expected_refines"], "ctor_def": [T + "expected_refines"],
}
SEARCH_CAP = 300000

VAR_CFGS = ["if", "fi", "it", "ti", "tif", "ift", "tm", "iftm", "fm", "ic", "id", "ia", "ib", "qx", "cb"]
OPT_CFGS = ["i", "f", "t", "m", "c", "d", "a", "b", "x"]
EXP_CFGS = ["it", "ti", "if", "tm", "ic", "qx", "db"]
CAT_CFGS = ["it", "qx", "id", "tif"]          # variant configurations with the value-category observations compiled in
ARGS = ["i", "s", "l", "f", "t", "m"]
VALS = {"i": [1, 2], "f": [2, 1000], "t": [1, 2], "m": [1, 2], "c": [1, 2], "d": [1, 2], "a": [1, 2], "b": [1, 2], "q": [1, 2],
        "x": [1, 2]}


def var_states(alts):
    return [(i, v) for i, a in enumerate(alts) for v in VALS[a]]


def new(kind, alts=None, n=3):
    return "new kind=%s%s n=%d" % (kind, " alts=" + alts if alts else "", n)


def arg_val(a, alts, rnd=None):
    """payload for an argument of type a (NaN only where no float -> integer conversion can follow)"""
    if a == "f":
        vs = [3, 5] + ([1000] if "f" in alts and alts != "" else [])
        return vs if rnd is None else rnd.choice(vs)
    return [2] if rnd is None else rnd.choice([1, 2, 3])


def gen_var_exhaustive(add, thorough):
    pair_ops = ["assign s=0 from=1 mv=0", "assign s=0 from=1 mv=1", "assign s=1 from=0 mv=1", "ctor s=0 from=1 mv=0",
                "ctor s=0 from=1 mv=1", "ctor s=2 from=0 mv=1", "swap s=0 with=1", "swap s=1 with=0", "rel s=0 with=1", "rel s=1 with=0",
                "visit s=[0,1]", "visit s=[1,0] idx=1"]
    self_ops = ["assign s=0 from=0 mv=0", "assign s=0 from=0 mv=1", "ctor s=0 from=0 mv=0", "ctor s=0 from=0 mv=1",
                "swap s=0 with=0", "rel s=0 with=0", "visit s=[0]", "visit s=[0] idx=1"]
    for alts in VAR_CFGS:
        sts = var_states(alts)
        n = len(alts)
        for (i0, v0), (i1, v1) in itertools.product(sts, repeat=2):
            setup = [new("var", alts), "emplace s=0 i=%d v=%d" % (i0, v0), "emplace s=1 i=%d v=%d via=type" % (i1, v1)]
            for op in pair_ops:
                add(setup + [op, "rel s=0 with=1", "visit s=[0,1,2] idx=1" if n <= 3 else "visit s=[2,1]"], "var-pair/" + alts)
        for (i0, v0) in sts:
            setup = [new("var", alts), "emplace s=0 i=%d v=%d" % (i0, v0)]
            for op in self_ops:
                add(setup + [op, "visit s=[0]"], "var-self/" + alts)
            add(setup + ["get_if s=0 i=%d%s" % (i, via) for i in range(n) for via in ("", " via=type")]
                + ["holds s=0 i=%d" % i for i in range(n)], "var-get/" + alts)
            for a in ARGS:
                for v in arg_val(a, alts):
                    for how in ("ctor", "assign"):
                        add(setup + ["conv s=0 a=%s v=%d how=%s" % (a, v, how), "get_if s=0 i=0", "swap s=0 with=1"], "var-conv/" + alts)
        if n <= 3:
            for t in itertools.product(range(n), repeat=3):
                setup = [new("var", alts)] + ["emplace s=%d i=%d v=%d" % (k, i, VALS[alts[i]][k % 2]) for k, i in enumerate(t)]
                add(setup + ["visit s=[0,1,2]", "visit s=[2,0,1] idx=1", "visit s=[1,1,0]"], "var-visit3/" + alts)
    # value categories: every object category for one variant, every pair of categories for two, by-value visitor
    for alts in CAT_CFGS:
        for (i0, v0), (i1, v1) in itertools.product([(i, VALS[a][0]) for i, a in enumerate(alts)], repeat=2):
            setup = [new("var", alts), "emplace s=0 i=%d v=%d" % (i0, v0), "emplace s=1 i=%d v=%d" % (i1, v1)]
            add(setup + ["vcat s=[0] q=[%d] vis=cat" % q for q in range(4)]
                + ["vcat s=[0,1] q=[%d,%d] vis=cat" % (q, r) for q in range(4) for r in range(4)], "var-cat/" + alts)
            for q in range(4):
                add(setup + ["vcat s=[0] q=[%d] vis=take" % q, "vcat s=[1,0] q=[%d,%d] vis=take" % (q, 3 - q), "visit s=[0,1]"], "var-cat/" + alts)
                add(setup + ["vcat s=[0,1] q=[2,%d] vis=take" % q, "vcat s=[0,1] q=[%d,2] vis=take" % q], "var-cat/" + alts)
    # all histories of a fixed depth over a small alphabet, two objects
    for alts in (["it", "if", "ic", "qx"] if not thorough else ["it", "if", "tm", "ic", "id", "ia", "ib", "qx", "cb"]):
        alpha = ["emplace s=%d i=%d v=%d" % (k, i, 1 + k) for k in (0, 1) for i in (0, 1)]
        alpha += ["assign s=%d from=%d mv=%d" % (k, j, mv) for k in (0, 1) for j in (0, 1) for mv in (0, 1)]
        alpha += ["ctor s=%d from=%d mv=%d" % (k, j, mv) for k in (0, 1) for j in (0, 1) for mv in (0, 1)]
        alpha += ["swap s=0 with=1", "swap s=0 with=0", "swap s=1 with=1"]
        alpha += ["conv s=0 a=i v=3 how=assign", "conv s=1 a=s v=2 how=ctor", "conv s=1 a=t v=1 how=assign", "conv s=0 a=f v=3 how=assign"]
        for seq in itertools.product(alpha, repeat=3 if thorough else 2):
            add([new("var", alts, 2)] + list(seq) + ["rel s=0 with=1", "visit s=[0,1] idx=1"], "var-hist/" + alts)


def opt_states(t):
    return [None] + VALS[t]


def gen_opt_exhaustive(add, thorough):
    def setv(k, v):
        return "reset s=%d" % k if v is None else "emplace s=%d v=%d" % (k, v)

    for t in OPT_CFGS:
        pvals = [None, 1, 2]
        for v0, v1 in itertools.product(opt_states(t), repeat=2):
            setup = [new("opt", t), setv(0, v0), setv(1, v1)]
            for op in ["assign s=0 from=1 mv=0", "assign s=0 from=1 mv=1", "ctor s=0 from=1 mv=0", "ctor s=2 from=1 mv=1",
                       "swap s=0 with=1", "swap s=1 with=0 via=member", "rel s=0 with=1", "rel s=1 with=0"]:
                add(setup + [op, "rel s=0 with=1", "has s=0"], "opt-pair/" + t)
        for v0 in opt_states(t):
            setup = [new("opt", t), setv(0, v0)]
            for op in ["assign s=0 from=0 mv=0", "assign s=0 from=0 mv=1", "ctor s=0 from=0 mv=1", "swap s=0 with=0",
                       "swap s=0 with=0 via=member", "reset s=0", "null s=0 how=assign", "null s=0 how=ctor", "reln s=0", "has s=0",
                       "value_or s=0 v=7", "value_or s=0 v=7 mv=1", "and_then s=0 f=inc", "and_then s=0 f=none",
                       "or_else s=0 v=5", "or_else s=0", "or_else s=0 v=5 mv=1", "emplace s=0 v=2",
                       "ocat s=0 q=0", "ocat s=0 q=1", "ocat s=0 q=2", "ocat s=0 q=3", "ocat s=0 q=0 take=1", "ocat s=0 q=1 take=1",
                       "ocat s=0 q=2 take=1", "ocat s=0 q=3 take=1"]:
                add(setup + [op, "has s=0", "reln s=0"], "opt-one/" + t)
            for own in VALS[t] + [3]:
                add(setup + ["relv s=0 a=own v=%d" % own], "opt-relv/" + t)
            for pv in [1, 2, 3]:
                add(setup + ["relv s=0 a=i v=%d" % pv], "opt-relv/" + t)
            for a in ARGS:
                for v in ([2, 3] if a != "f" else ([3, 5] + ([1000] if t == "f" else []))):
                    for how in ("ctor", "assign"):
                        add(setup + ["val s=0 a=%s v=%d how=%s" % (a, v, how), "has s=0"], "opt-val/" + t)
            for pv in pvals:
                ps = "pset j=1" + ("" if pv is None else " v=%d" % pv)
                add(setup + [ps, "relm s=0 with=1"], "opt-relm/" + t)
                for how in ("ctor", "assign"):
                    for mv in (0, 1):
                        add(setup + [ps, "conv s=0 from=1 how=%s mv=%d" % (how, mv), "relm s=0 with=1"], "opt-conv/" + t)
    # optional<int&>
    rstates = [None, 0, 1]

    def bind(k, c, how="assign"):
        return "null s=%d how=assign" % k if c is None else "bind s=%d c=%d how=%s" % (k, c, how)

    for c0, c1 in itertools.product(rstates, repeat=2):
        setup = [new("oref"), bind(0, c0, "ctor"), bind(1, c1, "emplace"), "write s=1 v=10"]
        for op in ["assign s=0 from=1 mv=0", "assign s=0 from=1 mv=1", "ctor s=2 from=0 mv=0", "ctor s=0 from=1 mv=1", "swap s=0 with=1",
                   "swap s=0 with=1 via=member", "swap s=0 with=0", "rel s=0 with=1", "reln s=0", "reset s=0", "null s=0 how=ctor",
                   "bind s=0 c=2 how=assign", "bind s=0 c=2 how=ctor", "bind s=0 c=2 how=emplace", "write s=0 v=20"]:
            add(setup + [op, "get s=0", "get s=1", "rel s=0 with=1", "write s=0 v=5", "get s=2"], "oref")


def exp_states(alts):
    return [("v", v) for v in VALS[alts[0]][:2]] + [("e", v) for v in VALS[alts[1]][:2]]


def gen_exp_exhaustive(add, thorough):
    def setx(k, st):
        return ("ctor_val s=%d v=%d" if st[0] == "v" else "ctor_err s=%d v=%d") % (k, st[1])

    for alts in EXP_CFGS:
        for s0, s1 in itertools.product(exp_states(alts), repeat=2):
            setup = [new("exp", alts), setx(0, s0), setx(1, s1)]
            for op in ["assign s=0 from=1 mv=0", "assign s=0 from=1 mv=1", "ctor s=0 from=1 mv=0", "ctor s=2 from=1 mv=1",
                       "swap s=0 with=1", "swap s=1 with=0"]:
                add(setup + [op, "has s=0", "has s=1"], "exp-pair/" + alts)
        for s0 in exp_states(alts):
            setup = [new("exp", alts), setx(0, s0)]
            for op in ["assign s=0 from=0 mv=0", "assign s=0 from=0 mv=1", "swap s=0 with=0", "ctor s=0 from=0 mv=1", "ctor_def s=0",
                       "emplace s=0 v=2", "has s=0", "value_or s=0 v=7", "value_or s=0 v=7 mv=1", "and_then s=0 f=inc",
                       "and_then s=0 f=fail v=3", "or_else s=0 f=recover v=4", "or_else s=0 f=same",
                       "ecat s=0 q=0", "ecat s=0 q=1", "ecat s=0 q=2", "ecat s=0 q=3"]:
                add(setup + [op, "has s=0"], "exp-one/" + alts)
            add(setup + ["assign_unex s=0 v=1"], "exp-unex/" + alts)


def rand_var(rnd, alts, length):
    n = 3
    lines = [new("var", alts, n)]
    na = len(alts)
    for _ in range(length):
        r = rnd.random()
        k, j = rnd.randrange(n), rnd.randrange(n)
        if r < 0.22:
            i = rnd.randrange(na)
            v = rnd.choice(VALS[alts[i]] + [3])
            lines.append("emplace s=%d i=%d v=%d%s" % (k, i, v, rnd.choice(["", " via=type"])))
        elif r < 0.40:
            lines.append("assign s=%d from=%d mv=%d" % (k, j, rnd.randrange(2)))
        elif r < 0.52:
            lines.append("ctor s=%d from=%d mv=%d" % (k, j, rnd.randrange(2)))
        elif r < 0.64:
            lines.append("swap s=%d with=%d" % (k, j))
        elif r < 0.76:
            a = rnd.choice(ARGS)
            lines.append("conv s=%d a=%s v=%d how=%s" % (k, a, arg_val(a, alts, rnd), rnd.choice(["ctor", "assign"])))
        elif r < 0.84:
            lines.append("rel s=%d with=%d" % (k, j))
        elif r < 0.90:
            lines.append(rnd.choice(["get_if", "holds"]) + " s=%d i=%d" % (k, rnd.randrange(na)))
        elif r < 0.96 or alts not in CAT_CFGS:
            cnt = rnd.choice([1, 2, 2, 3]) if na <= 3 else rnd.choice([1, 2])
            lines.append("visit s=%s%s" % (fmt_list([rnd.randrange(n) for _ in range(cnt)]), rnd.choice(["", " idx=1"])))
        else:
            ks = rnd.sample(range(n), rnd.choice([1, 2]))
            lines.append("vcat s=%s q=%s vis=%s" % (fmt_list(ks), fmt_list([rnd.randrange(4) for _ in ks]), rnd.choice(["cat", "take"])))
    return lines


def rand_opt(rnd, t, length):
    n = 3
    lines = [new("opt", t, n)]
    for _ in range(length):
        r = rnd.random()
        k, j = rnd.randrange(n), rnd.randrange(n)
        v = rnd.choice(VALS[t] + [3])
        if r < 0.15:
            lines.append("emplace s=%d v=%d" % (k, v))
        elif r < 0.22:
            lines.append(rnd.choice(["reset s=%d", "null s=%d how=assign", "null s=%d how=ctor"]) % k)
        elif r < 0.32:
            a = rnd.choice(ARGS)
            av = rnd.choice([3, 5] + ([1000] if t == "f" else [])) if a == "f" else rnd.choice([1, 2, 3])
            lines.append("val s=%d a=%s v=%d how=%s" % (k, a, av, rnd.choice(["ctor", "assign"])))
        elif r < 0.46:
            lines.append("%s s=%d from=%d mv=%d" % (rnd.choice(["assign", "ctor"]), k, j, rnd.randrange(2)))
        elif r < 0.56:
            lines.append("swap s=%d with=%d%s" % (k, j, rnd.choice(["", " via=member"])))
        elif r < 0.62:
            lines.append("pset j=%d%s" % (j, rnd.choice(["", " v=1", " v=2", " v=3"])))
        elif r < 0.70:
            lines.append("conv s=%d from=%d how=%s mv=%d" % (k, j, rnd.choice(["ctor", "assign"]), rnd.randrange(2)))
        elif r < 0.82:
            lines.append(rnd.choice(["rel s=%d with=%d", "relm s=%d with=%d"]) % (k, j))
        elif r < 0.88:
            lines.append(rnd.choice(["reln s=%d" % k, "relv s=%d a=own v=%d" % (k, v), "relv s=%d a=i v=%d" % (k, rnd.choice([1, 2, 3]))]))
        else:
            lines.append(rnd.choice(["has s=%d" % k, "value_or s=%d v=7" % k, "value_or s=%d v=7 mv=1" % k, "and_then s=%d f=inc" % k,
                                     "and_then s=%d f=none" % k, "or_else s=%d v=5" % k, "or_else s=%d" % k, "or_else s=%d v=4 mv=1" % k,
                                     "ocat s=%d q=%d" % (k, rnd.randrange(4)), "ocat s=%d q=%d take=1" % (k, rnd.randrange(4))]))
    return lines


def rand_exp(rnd, alts, length):
    n = 3
    lines = [new("exp", alts, n)]
    for _ in range(length):
        r = rnd.random()
        k, j = rnd.randrange(n), rnd.randrange(n)
        if r < 0.30:
            lines.append(rnd.choice(["ctor_val s=%d v=%d", "ctor_err s=%d v=%d", "emplace s=%d v=%d"]) % (k, rnd.choice([1, 2, 3])))
        elif r < 0.34:
            lines.append("ctor_def s=%d" % k)
        elif r < 0.58:
            lines.append("%s s=%d from=%d mv=%d" % (rnd.choice(["assign", "ctor"]), k, j, rnd.randrange(2)))
        elif r < 0.72:
            lines.append("swap s=%d with=%d" % (k, j))
        else:
            lines.append(rnd.choice(["has s=%d" % k, "value_or s=%d v=7" % k, "value_or s=%d v=7 mv=1" % k, "and_then s=%d f=inc" % k,
                                     "and_then s=%d f=fail v=3" % k, "or_else s=%d f=recover v=4" % k, "or_else s=%d f=same" % k,
                                     "ecat s=%d q=%d" % (k, rnd.randrange(4))]))
    return lines


def rand_oref(rnd, length):
    n = 3
    lines = [new("oref", None, n)]
    for _ in range(length):
        r = rnd.random()
        k, j = rnd.randrange(n), rnd.randrange(n)
        if r < 0.30:
            lines.append("bind s=%d c=%d how=%s" % (k, rnd.randrange(3), rnd.choice(["ctor", "assign", "emplace"])))
        elif r < 0.38:
            lines.append(rnd.choice(["reset s=%d", "null s=%d how=assign", "null s=%d how=ctor"]) % k)
        elif r < 0.55:
            lines.append("%s s=%d from=%d mv=%d" % (rnd.choice(["assign", "ctor"]), k, j, rnd.randrange(2)))
        elif r < 0.68:
            lines.append("swap s=%d with=%d%s" % (k, j, rnd.choice(["", " via=member"])))
        elif r < 0.80:
            lines.append("write s=%d v=%d" % (k, rnd.randrange(1, 40)))
        else:
            lines.append(rnd.choice(["get s=%d" % k, "rel s=%d with=%d" % (k, j), "reln s=%d" % k]))
    return lines


def generate(tier, seed):
    rnd = random.Random(seed)
    thorough = tier == "thorough"
    cases, dist = [], {}

    def add(lines, tag):
        cases.append(Case(lines, tag))
        g = tag.split("/")[0]
        dist[g] = dist.get(g, 0) + 1

    gen_var_exhaustive(add, thorough)
    gen_opt_exhaustive(add, thorough)
    gen_exp_exhaustive(add, thorough)
    nr = 150000 if thorough else 3000
    for _ in range(nr):
        ln = rnd.randint(10, 30)
        r = rnd.random()
        if r < 0.45:
            add(rand_var(rnd, rnd.choice(VAR_CFGS), ln), "random-var")
        elif r < 0.75:
            add(rand_opt(rnd, rnd.choice(OPT_CFGS), ln), "random-opt")
        elif r < 0.90:
            add(rand_exp(rnd, rnd.choice(EXP_CFGS), ln), "random-exp")
        else:
            add(rand_oref(rnd, ln), "random-oref")
    ops = {}
    for c in cases:
        for ln in c.lines[1:]:
            o = ln.split(" ")[0]
            ops[o] = ops.get(o, 0) + 1
    dist["operations"] = ops
    dist["compile_probes"] = dict(PROBE_RESULT)
    return cases, False, dist


def _state(out):
    return out.split(" |", 1)[1] if " |" in out else ""


def nontrivial(case, rows):
    s0 = _state(rows[0].spec)
    return any(_state(r.spec) != s0 for r in rows[1:])


def classify(case, k, row):
    """known findings: exactly the lines that ask for a member the library does not provide"""
    op = case.lines[k].split(" ")[0]
    if op == "assign_unex" and case.lines[0].startswith("new kind=exp") and row.impl.startswith("nc"):
        return "F-C07-expected-no-unexpected-assign"
    if op == "conv" and case.lines[0].startswith("new kind=oref") and row.impl.startswith("nc"):
        return "F-C07-optional-ref-conversion"
    if op == "assign" and " mv=0" in case.lines[k] and row.impl == row.model:
        # copy assignment to a different alternative whose type asks for copy-then-move ([variant.assign]/2.4, reinit-expected):
        # exactly one slot differs, it holds an x, implementation mark 1 (copy constructed), reference mark 2
        head = [ln for ln in case.lines[:k + 1] if ln.startswith("new ")][-1]
        m = re.match(r"new kind=(var|exp) alts=(\w+)", head)
        if m and "x" in m.group(2):
            a, b = row.impl.split(" "), row.spec.split(" ")
            diff = [(x, y) for x, y in zip(a, b) if x != y] if len(a) == len(b) else None
            if diff and len(diff) == 1 and re.fullmatch(r"(\d:|[ve]:)x-?\d+\.1", diff[0][0]) and diff[0][1] == diff[0][0][:-1] + "2":
                return "F-C07-copy-assign-no-copy-then-move"
    return None


def group_of(case):
    return case.tag.split("/")[0]


CLAIMED = True
TECHNIQUE = ("Lean 4 proof: hand model of etl::variant (index + active value, every union access checked, visit_with_index modelled "
             "with its next_seq mixed-radix recursion, assign/construct/destroy/comparison through that dispatch, the four special "
             "members selected by the trait bits of the requires-clauses and applied to the elements as abstract copy/move "
             "constructor and assignment functions, generic three-move swap), of optional and expected as wrappers of it, refined to a "
             "declarative sum-type spec for all histories; model tied to the code by exhaustive small-scope + random "
             "correspondence runs against std::variant/optional/expected")
LEVEL_TEXT = ("etl::variant is modelled as (index, value of the active union member) with every union access behind the I == index() "
              "check, and visit/visit_with_index as the real recursion: start at the all-zero index tuple, compare with the tuple of "
              "index() values, step with next_seq (a mixed-radix increment that wraps to zero) and call the last instantiation "
              "untested. Lean 4 proves, for any number of variants, any alternative counts and any active indices, that this "
              "dispatch ends on exactly the active tuple (so a visitor is always invoked with the active alternatives and no inactive "
              "member is read), and — with no bound on history length or number of objects — that every history of emplace, in-place "
              "construction, copy/move assignment and construction (trivial and non-trivial special-member paths, self forms), and the "
              "generic three-move swap never fails and leaves every object with the index and value the sum-type spec prescribes, "
              "moved-from sources included. The element's copy constructor, move constructor, copy assignment and move assignment are "
              "four arbitrary functions on values (no laws), so the theorems also say WHICH special member produces the stored value: "
              "[variant.assign] / [variant.ctor] / [optional.assign] / [expected.object.assign] - same alternative: the element's "
              "assignment; different alternative: destroy + construction from the source - with the variant's defaulted (bitwise) "
              "members taken exactly when the trait bits of the requires-clauses say so. The spec carries the copy-then-move that "
              "[variant.assign]/2.4 and reinit-expected prescribe for an alternative with a throwing copy and a non-throwing move "
              "constructor; etl constructs in place there (known finding, counterexample theorem; the history theorems exclude that "
              "class by hypothesis). optional (engaged = index 1, reset = emplace<0>(nullopt)) and expected (value = index 0) are "
              "proved to be simulations of Option / value-or-error under that history theorem. All six relational operators of "
              "variant, of optional/optional (mixed T/U), optional/nullopt and optional/value in both operand orders are proved equal "
              "to the std definitions for arbitrary element operator tables (NaN-like ones included); value_or, and_then and get_if are "
              "proved equal to their declarative specs, and so are optional::or_else and expected's value_or, and_then, or_else and "
              "error() (with their preconditions shown to hold on the paths that use them). The alternative the converting constructor / assignment selects (a left-to-right "
              "scan keeping the best non-narrowing candidate and a tie flag) is proved equal to the declarative selection (the unique "
              "viable alternative strictly better than all others) for any candidate table. Value categories cannot be carried by a "
              "value-level model: which reference kind visit, unchecked_get, operator[], operator*, error(), and_then and or_else hand "
              "on for lvalue, const lvalue, rvalue and const rvalue objects, and what a by-value visitor leaves behind in the source, "
              "is observed at compile time (decltype matrix) and at run time and compared with std line by line. The model is tied to the current source on every run by executing model and implementation "
              "on the same histories (every from/to state pair x every assignment, construction, swap and comparison form over 15 "
              "variant, 9 optional, 7 expected configurations with trivially copyable, non-trivial, move-only alternatives, six "
              "kinds whose four special members are distinguishable in the stored value, and optional<int&>; all depth-2/3 histories; random long histories) under ASan/UBSan; the spec is validated against "
              "libstdc++ on the same histories.")
LEVEL_NOTE = ("Trusted: Lean kernel + propext/Classical.choice/Quot.sound; the hand model's fidelity outside the explored inputs; "
              "g++-12/ASan; libstdc++ 12 as oracle for spec validation. Overload resolution and template constraints are the compiler's: "
              "which assignment operator or constructor a call selects is observed by the harness, the model takes the path the "
              "selected one takes. Object lifetime (construct/destroy pairing) is property C03, not modelled here. optional<T&> is "
              "modelled as a nullable cell index and compared with a pointer reference written out in the harness (no std counterpart "
              "in libstdc++ 12). Two members the property names do not exist in the library (expected = unexpected<G>, optional<T&> "
              "from optional<U>) and are recorded as known findings, replayed on every run.")
CORRESPONDENCE_ONLY = [
    "optional<T&> (bind/rebind, reset, copy, swap of the pointer, write-through, comparisons): the model is a nullable cell index; "
    "compared with a pointer reference on every run, no theorem beyond the optional relational theorems it reuses",
    "rvalue forms (value_or &&, or_else &&) and the copy / move construction of the returned object: Model.orElse / expValueOr / "
    "expAndThen / expOrElse give the element that is handed on (theorems orElse_eq, expValueOr_eq, expAndThen_eq, expOrElse_eq, "
    "expError_eq); marking the source as moved-from and copy / move constructing the result with `el` is done in the driver, "
    "compared on every run",
    "which assignment path a converting assignment takes (class alternatives: assignment to the held T_j / emplace<T_j> otherwise; "
    "scalar ones: temporary variant + move assignment; optional::operator=(U&&) and operator=(optional<U>) likewise): modelled in the "
    "driver with the element operations (`el.ma` for the assign-through), compared on every run with element kinds that tell an "
    "assignment from a construction; the theorems cover the variant operations these paths are made of",
    "conversion of the argument value (short -> int, float -> Trk(int) truncation, int -> float) and the conversion-rank table of the "
    "element types: test data of the driver, validated by R1/R2",
    "emplace<T> / get_if<T> / holds_alternative<T> by type: index_of<T> is compile-time; the model uses the index",
    "return values of emplace (reference to the new value) and of visit (the visitor's result): compared on every run",
    "optional(optional<U>) converting constructor / assignment: modelled as `_var{nullopt}` then `emplace(*other)` / `reset()`, "
    "covered by the history theorem only through those variant operations",
]
UNPROVED_OBSERVED = [
    "value categories (observed, not proved - a value-level Lean model cannot carry them): the reference kind (T&, T const&, T&&, "
    "T const&&) that visit hands to the visitor for every category of one variant and every pair of categories of two, of "
    "unchecked_get / std::get and operator[], of optional::operator* and the argument of optional::and_then, of expected::operator*, "
    "error() and the argument of expected::and_then / or_else, for lvalue, const lvalue, rvalue and const rvalue objects: a "
    "compile-time decltype matrix plus the run-time overload a forwarding visitor receives, etl against std line by line "
    "(expected's monadic members against [expected.object.monadic] written out, libstdc++ 12 lacks them); the moved-from state a "
    "by-value visitor / `T x = *move(o)` leaves in the source is part of the compared state; the driver's side of these lines is the "
    "forwarding table of the standard (category in = category out), not a theorem. optional has no value() member.",
    "element lifetimes (each alternative constructed once / destroyed once; arguments aliasing the variant in emplace and converting "
    "assignment): property C03; ASan/UBSan observe the explored histories",
]
