"""C17 — bitset equals std::bitset for every size and operation history (DESIGN §4 C17)."""
import random

from lib import Case, fmt_list

PROP = "C17"
DRIVER = "drv-c17"
PROOF_MODULES = ["TetlProofs.C17.Props"]
HARNESS = "harness/c17.cpp"
# 65 instantiations (13 widths x 5 storage kinds): -O0 -g0 keeps the sanitizer build at ~20 s
HARNESS_FLAGS = ["-O0", "-g0"]
SOURCES = ["include/etl/_bitset/bitset.hpp", "include/etl/_bitset/basic_bitset.hpp", "include/etl/_bit/set_bit.hpp",
           "include/etl/_bit/reset_bit.hpp", "include/etl/_bit/test_bit.hpp", "include/etl/_bit/flip_bit.hpp",
           "include/etl/_bit/popcount.hpp"]

WIDTHS = [1, 7, 8, 9, 31, 32, 33, 63, 64, 65, 127, 128, 129]
SMALL = [1, 7, 8, 9]
KINDS = ["bs", "8", "16", "32", "64"]           # etl::bitset<N>, basic_bitset<N, uintK_t>
WORD = {"bs": 64, "8": 8, "16": 16, "32": 32, "64": 64}

RULE = ("histories over four live objects of one type; widths {1,7,8,9,31,32,33,63,64,65,127,128,129} (and 0) x {etl::bitset, "
        "basic_bitset with uint8/16/32/64 words}.  Exhaustive for N in {1,7,8,9}: every value (from unsigned long long) x "
        "every single operation with every position / bool / second operand from a pattern set "
        "(set with and without the value argument, reset, flip whole and single, proxy assign/flip/copy, &= |= ^= & | ^ ~, ==, "
        "to_ulong/to_ullong, to_string with 0, 1 and 2 arguments), and every string over {zero,one} up to length 4 x every pos x "
        "every n (incl. npos) x every argument-list length (str | str,pos | str,pos,n | str,pos,n,zero | all five; cstr | cstr,n | "
        "cstr,n,zero | all four) for the string constructors, over the alphabets ('0','1'), ('A','B'), (CharT(0),CharT(1)) and "
        "('1',CharT(0)); what the constructors may read: a view is an exact-size heap buffer (no terminator, no slack); the "
        "pointer overload gets the list `s` as its WHOLE allocation: with an explicit n an exact-size heap buffer of len(s) >= n "
        "units and NO terminator (n = len(s) and every smaller n), null characters among the units being digits when the "
        "alphabet contains CharT(0); only the npos / defaulted form carries a terminator (then a null digit ends the string, "
        "for std alike); strings longer than the bitset: every string of length N+1 at "
        "N = 7 and 8 (pos 0..2, n in {N-1,N,N+1,npos}; also as raw {0,1} units through pointer and view), 400 seeded strings of "
        "length N+1..N+3 at N = 9, random ones at every width; "
        "character types wchar_t, char8_t, char16_t, char32_t (harness instantiations at N in {0,1,9,64,65,129}): every string up "
        "to length 3 over six (zero,one) pairs per type, some differing only above the low byte / low 16 bits, two containing "
        "CharT(0), then to_string in the same type (capacity N exactly and N+5; size, characters and the terminator behind "
        "them are compared); bitset<0> / basic_bitset<0,W>: one scripted case per storage kind with every member that takes no "
        "position; to_ulong/to_ullong at N in {65,127,128,129} with a bit set and cleared at 64, 65, N-2, N-1 (fits / overflow); "
        "beyond that seeded random histories up to length 60 mixing whole-set, single-bit, binary and constructor "
        "operations with positions biased to 0, N-1 and word boundaries +-1.  After EVERY mutating line the target's full "
        "observable state (all bits through test/operator[] const, count, all, any, none) is compared.  The harness is built with "
        "TETL_ENABLE_CONTRACT_CHECKS: every TETL_PRECONDITION is live; a contract failure aborts the case except inside "
        "to_ulong/to_ullong, where it is reported as `overflow`.  A case is "
        "non-trivial when its history reaches at least two different states one of which has both a set and a clear bit "
        "(or N = 1; never for N = 0); distinct = distinct case text.")
ASSUMPTIONS = ["std::bitset of libstdc++ 12 is the reference for spec validation (R2)",
               "preconditions excluded from generation: pos < size() for single-bit members; string constructors: pos <= size(), "
               "every used character is zero or one; pointer overload: [str, str+n) readable when n is given, a terminator in the "
               "buffer when n is npos (std throws for the first two, the rest is UB in both).  NOT excluded: null characters among "
               "the first n units of a pointer call (digits of an alphabet with CharT(0)), buffers without terminator when n is "
               "given; to_ulong/to_ullong on a value that does not "
               "fit (std: overflow_error; tetl: failed contract, observed through the assert handler)",
               "popcount on the run-time path is a compiler builtin, trusted to return the number of one bits; the portable "
               "loop etl::detail::popcount_fallback (the constant-evaluated path) is proved to return that number "
               "(C17.Props.popcount_code, through property C14's model of the loop)",
               "unsigned long and unsigned long long are 64 bits (LP64)",
               "a character is modelled by its code unit value (a natural number) and Traits::eq by equality: exact for "
               "etl::char_traits<char|wchar_t|char8_t|char16_t|char32_t>; user-supplied traits are outside the model"]
TRUSTED = ["hand model Tetl/C17/Model.lean tied to the source by the correspondence run (R1) on every run",
           "spec Tetl/C17/Spec.lean (bit positions -> Bool) validated against libstdc++ std::bitset (R2) on every run"]
_P = "Tetl.C17.Props."
_H = [_P + "step_rep", _P + "run_refines", _P + "padding_inv_history", _P + "run_observers"]
THEOREMS = {
    "new": [_P + "init_rep"], "set_all": [_P + "setAll_rep"] + _H, "reset_all": [_P + "resetAll_rep"] + _H,
    "flip_all": [_P + "flipAll_rep"] + _H, "set": [_P + "set_rep", _P + "uncheckedSet_rep", _P + "setD_rep"] + _H,
    "reset": [_P + "reset_rep", _P + "uncheckedReset_rep"] + _H, "flip": [_P + "flip_rep", _P + "uncheckedFlip_rep"] + _H,
    "ref_assign": [_P + "refAssign_rep"] + _H, "ref_flip": [_P + "refFlip_rep"] + _H,
    "ref_copy": [_P + "refGet_eq", _P + "refAssign_rep"] + _H,
    "and": [_P + "andAssign_rep"] + _H, "or": [_P + "orAssign_rep"] + _H, "xor": [_P + "xorAssign_rep"] + _H,
    "band": [_P + "andAssign_rep"] + _H, "bor": [_P + "orAssign_rep"] + _H, "bxor": [_P + "xorAssign_rep"] + _H,
    "assign": _H, "not": [_P + "not_rep"] + _H, "from_ull": [_P + "fromUll_rep"] + _H,
    "from_str": [_P + "fromString_rep", _P + "fromCstr_rep", _P + "fromStringD_rep", _P + "fromCstrD_rep",
                 _P + "fromString_footprint", _P + "fromStringV_eq", _P + "fromCstr_footprint", _P + "fromCstr_take",
                 _P + "fromCstr_npos_footprint", _P + "fromCstr_eq", _P + "strlen_eq"] + _H,
    "probe": [_P + "test_eq", _P + "uncheckedTest_eq", _P + "getConst_eq", _P + "refGet_eq", _P + "refNot_eq"],
    "eq": [_P + "eq_eq"], "to_ullong": [_P + "toUnsigned_eq", _P + "toUnsigned_overflow", _P + "toUnsigned_narrow"],
    "to_ulong": [_P + "toUnsigned_eq", _P + "toUnsigned_overflow", _P + "toUnsigned_narrow"],
    "to_string": [_P + "toStr_eq", _P + "toStrD_eq", _P + "toStr_exact_capacity"],
}
SEARCH_CAP = 20000

F_WIDE = "F-C17-to-ullong-wide-absent"      # fixed (to_ulong/to_ullong exist for every width): no class is excluded any more


def hl(v):
    return "hi=%d lo=%d" % (v >> 32, v & 0xFFFFFFFF)


def boundary_positions(n, w):
    ps = {0, n - 1, n // 2}
    for b in range(w, n + w, w):
        for d in (-1, 0, 1):
            if 0 <= b + d < n:
                ps.add(b + d)
    return sorted(ps)


def patterns(n, v, rnd):
    full = (1 << n) - 1
    rot = ((v << 1) | (v >> (n - 1))) & full if n > 1 else v
    return [0, full, v, full ^ v, rot, rnd.getrandbits(n)]


def single_op_case(n, kind, v, rnd):
    """one value x every single operation; object 0 holds the value, 2 is the scratch copy"""
    bs = kind == "bs"
    L = ["new N=%d w=%s" % (n, kind), "from_ull o=0 %s" % hl(v), "from_ull o=1 %s" % hl(rnd.getrandbits(n))]

    def fresh(line):
        L.append("assign o=2 src=0")
        L.append(line)

    for op in ("set_all", "reset_all", "flip_all"):
        fresh("%s o=2" % op)
    for p in range(n):
        for b in (0, 1):
            fresh("set o=2 pos=%d v=%d" % (p, b))
            fresh("ref_assign o=2 pos=%d v=%d" % (p, b))
        fresh("set o=2 pos=%d" % p)                      # set(pos) / unchecked_set(pos): value defaulted
        fresh("reset o=2 pos=%d" % p)
        fresh("flip o=2 pos=%d" % p)
        fresh("ref_flip o=2 pos=%d" % p)
        for sp in sorted({0, n - 1, p}):
            fresh("ref_copy o=2 pos=%d src=1 spos=%d" % (p, sp))
        L.append("probe o=0 pos=%d" % p)
    for v2 in patterns(n, v, rnd):
        L.append("from_ull o=1 %s" % hl(v2))
        for op in ("and", "or", "xor"):
            fresh("%s o=2 rhs=1" % op)
        for op in ("band", "bor", "bxor"):
            L.append("%s o=3 a=0 b=1" % op)
        L.append("eq o=0 rhs=1")
    L.append("assign o=2 src=0")
    L.append("eq o=0 rhs=2")
    if bs:
        L.append("not o=3 src=0")
        L.append("to_ullong o=0")
        L.append("to_ulong o=0")
        L.append("to_string o=0 cap=%d" % n)                                        # to_string<N>()
        L.append("to_string o=0 cap=%d zero=%d" % (n + 5, rnd.choice([42, 79, 200])))   # to_string<N+5>(zero)
        L.append("to_string o=0 cap=%d zero=%d one=%d" % (n + 5, rnd.choice([48, 42, 79]), rnd.choice([49, 88, 200])))
        if n in WIDE_CT:
            ct = CTS[v % len(CTS)]
            z, o = CT_PAIRS[ct][v % len(CT_PAIRS[ct])]
            L.append("to_string o=0 cap=%d ct=%s" % (n, ct))
            L.append("to_string o=0 cap=%d zero=%d one=%d ct=%s" % (n + 5, z, o, ct))
    return L


def all_strings(maxlen, z, o):
    out = [[]]
    level = [[]]
    for _ in range(maxlen):
        level = [s + [c] for s in level for c in (z, o)]
        out += level
    return out


def str_line(o, s, pos=None, n=None, z=None, one=None, ov="sv", ct="c"):
    """an argument that is None is NOT passed (trailing arguments only): the line carries exactly the
    arguments of the call.  `s` of a pointer call (ov=cstr) is the WHOLE allocation behind the pointer (the
    harness makes an exact-size heap buffer of it): with an explicit n nothing is appended (no terminator:
    [str, str + n) is all that has to be readable); only the npos / defaulted form gets its terminator here"""
    if ov == "cstr" and n in (None, "npos"):
        s = list(s) + [0]
    ln = "from_str o=%d s=%s" % (o, fmt_list(s))
    if pos is not None:
        ln += " pos=%s" % pos
    if n is not None:
        ln += " n=%s" % n
    if z is not None:
        ln += " zero=%d" % z
    if one is not None:
        ln += " one=%d" % one
    if ov != "sv":
        ln += " ov=" + ov
    if ct != "c":
        ln += " ct=" + ct
    return ln


def ctor_lines(L, s, zz, oo, explicit, ct="c"):
    """every pos x every n for the string s over {zz, oo}; explicit: zero/one passed, else both defaulted
    (then zz, oo = 48, 49); plus the shorter argument lists"""
    z, o = (zz, oo) if explicit else (None, None)
    for pos in range(len(s) + 1):
        for cnt in list(range(len(s) + 2)) + ["npos"]:
            L.append(str_line(0, s, pos, cnt, z, o, ct=ct))
        if not explicit:
            L.append(str_line(0, s, pos, ct=ct))                       # bitset(str, pos)
    for cnt in list(range(len(s) + 1)) + ["npos"]:
        L.append(str_line(1, s, None, cnt, z, o, "cstr", ct))
    if not explicit:
        L.append(str_line(0, s, ct=ct))                                # bitset(str)
        L.append(str_line(1, s, ov="cstr", ct=ct))                     # bitset(cstr)


def string_ctor_cases(n, rnd):
    """every string up to length 4 (and, at N = 7, every string of length N + 1) x every pos x every n, view and
    pointer overloads, all argument-list lengths"""
    cases = []
    # the last two alphabets contain CharT(0): raw 0/1 bytes as digits (zero = '\0') and one = '\0'.  In the pointer
    # overload with an explicit n such a unit is a digit like any other; with npos it ends the string
    for (zz, oo, explicit) in ((48, 49, False), (65, 66, True), (0, 1, True), (49, 0, True)):
        L = ["new N=%d w=bs" % n]
        for s in all_strings(4, zz, oo):
            ctor_lines(L, s, zz, oo, explicit)
        cases.append(Case(L, "str-exh/N%d" % n if zz and oo else "str-nul/N%d" % n))
    # only `zero` passed (one defaulted to '1'): strings over {zero, 49}
    L = ["new N=%d w=bs" % n]
    for s in all_strings(3, 97, 49):
        for pos in range(len(s) + 1):
            for cnt in (0, len(s), "npos"):
                L.append(str_line(0, s, pos, cnt, 97))
        L.append(str_line(1, s, None, len(s), 97, None, "cstr"))
        L.append(str_line(1, s, None, "npos", 97, None, "cstr"))
    cases.append(Case(L, "str-exh/N%d" % n))
    # strings longer than the bitset: every string of length N + 1 (N <= 8), a seeded sample of N + 1 .. N + 3 beyond
    if n in (7, 8):
        L = ["new N=%d w=bs" % n]
        m = n + 1
        for v in range(1 << m):
            s = [49 if (v >> (m - 1 - i)) & 1 else 48 for i in range(m)]
            for pos in (0, 1, 2):
                for cnt in (n - 1, n, m, "npos"):
                    L.append(str_line(0, s, pos, cnt))
            L.append(str_line(1, s, None, "npos", ov="cstr"))
            L.append(str_line(1, s, None, m, 48, 49, "cstr"))
            # raw digits {0,1} in an exact-size buffer of N + 1 units, n = N + 1 and N (pointer overload), and as a view
            r = [c - 48 for c in s]
            L.append(str_line(1, r, None, m, 0, 1, "cstr"))
            L.append(str_line(1, r, None, n, 0, 1, "cstr"))
            L.append(str_line(0, r, 0, m, 0, 1))
            L.append("eq o=0 rhs=1")
        cases.append(Case(L, "str-long/N%d" % n))
    elif n == 9:
        L = ["new N=%d w=bs" % n]
        for _ in range(400):
            m = rnd.choice([n + 1, n + 2, n + 3])
            s = [rnd.choice((48, 49)) for _ in range(m)]
            for pos in (0, 1, rnd.randint(0, m)):
                for cnt in (n, m, "npos"):
                    L.append(str_line(0, s, pos, cnt))
            L.append(str_line(1, s, None, "npos", ov="cstr"))
        cases.append(Case(L, "str-long/N%d" % n))
    return cases


# character types other than char (harness: instantiated at the widths WIDE_CT)
CTS = ["w", "u8", "u16", "u32"]
WIDE_CT = (0, 1, 9, 64, 65, 129)
# (zero, one) pairs per character type; several differ only ABOVE the low byte / low 16 bits, so that a
# comparison or a copy that narrows the character is visible
# the last two pairs of every type contain CharT(0) (its partner differs from it only above the low byte / low 16
# bits for the wide types): a null character among the first n units of a pointer call is a digit, not a terminator
CT_PAIRS = {
    "c": [(48, 49), (65, 66), (120, 200), (49, 48), (0, 1), (49, 0)],
    "u8": [(48, 49), (0xC3, 0xA9), (49, 48), (1, 255), (0, 1), (0xFF, 0)],
    "u16": [(48, 49), (0x0141, 0x0241), (0x3A9, 0x3C9), (0xFFFF, 0x00FF), (0, 0x0100), (1, 0)],
    "u32": [(48, 49), (0x10041, 0x20041), (0x1F600, 0x1F601), (0x41, 0x10041), (0, 0x10000), (0x100, 0)],
    "w": [(48, 49), (0x10041, 0x20041), (0x3A9, 0x103A9), (0x7FFFFFFF, 0x7FFF), (0, 0x10000), (1, 0)],
}


def char_type_cases(n, rnd):
    """string constructors / to_string for wchar_t, char8_t, char16_t, char32_t: every string up to length 3 over
    each (zero, one) pair x every pos x every n, all argument-list lengths, then to_string in the same type"""
    cases = []
    for ct in CTS:
        L = ["new N=%d w=bs" % n]
        for (zz, oo) in CT_PAIRS[ct]:
            explicit = (zz, oo) != (48, 49)
            for s in all_strings(3, zz, oo):
                ctor_lines(L, s, zz, oo, explicit, ct)
            s = [rnd.choice((zz, oo)) for _ in range(n + 2)]
            L.append(str_line(2, s, 0, "npos", zz, oo, ct=ct))
            # the same digits through the pointer: terminated (npos; cut at the first null character when the alphabet
            # has one) and as an exact-size buffer of n + 2 units with n passed
            L.append(str_line(3, s, None, "npos", zz, oo, "cstr", ct))
            L.append("eq o=2 rhs=3")
            L.append(str_line(3, s, None, len(s), zz, oo, "cstr", ct))
            L.append("eq o=2 rhs=3")
            L.append("to_string o=2 cap=%d ct=%s" % (n, ct))
            L.append("to_string o=2 cap=%d zero=%d ct=%s" % (n + 5, zz, ct))
            L.append("to_string o=2 cap=%d zero=%d one=%d ct=%s" % (n + 5, zz, oo, ct))
        cases.append(Case(L, "str-ct/N%d/%s" % (n, ct)))
    return cases


def zero_width_case(kind, rnd):
    """bitset<0> / basic_bitset<0, W>: no storage word; every member without a position argument"""
    bs = kind == "bs"
    L = ["new N=0 w=%s" % kind]
    for o in range(4):
        L += ["set_all o=%d" % o, "flip_all o=%d" % o, "from_ull o=%d %s" % (o, hl(rnd.getrandbits(64))), "reset_all o=%d" % o]
    for op in ("and", "or", "xor"):
        L.append("%s o=0 rhs=1" % op)
    for op in ("band", "bor", "bxor"):
        L.append("%s o=3 a=0 b=1" % op)
    L += ["assign o=2 src=0", "eq o=0 rhs=2", "eq o=1 rhs=3"]
    if bs:
        L += ["not o=3 src=0", "to_ullong o=0", "to_ulong o=3", "to_string o=0 cap=0", "to_string o=0 cap=5",
              "to_string o=3 cap=5 zero=65 one=66", "to_string o=3 cap=0 zero=65"]
        for s in all_strings(2, 48, 49):
            ctor_lines(L, s, 48, 49, False)
        for ct in CTS:
            zz, oo = CT_PAIRS[ct][1]
            for s in all_strings(2, zz, oo):
                L.append(str_line(0, s, 0, "npos", zz, oo, ct=ct))
                L.append(str_line(1, s, None, "npos", zz, oo, "cstr", ct))
            L.append("to_string o=0 cap=0 ct=%s" % ct)
            L.append("to_string o=1 cap=5 zero=%d one=%d ct=%s" % (zz, oo, ct))
        L += ["flip_all o=0", "to_ullong o=0", "eq o=0 rhs=1"]
    return L


def rand_value(n, rnd):
    r = rnd.random()
    full = (1 << min(n, 64)) - 1
    if r < 0.15:
        return 0
    if r < 0.3:
        return (1 << 64) - 1
    if r < 0.4:
        return 1 << rnd.randrange(64)
    if r < 0.5:
        return full
    if r < 0.6:
        return full ^ (1 << rnd.randrange(min(n, 64)))
    return rnd.getrandbits(64)


def rand_string(n, rnd, ct="c"):
    z, o = rnd.choice(CT_PAIRS[ct] + [(48, 49)])
    ln = rnd.choice([0, 1, 2, max(n - 1, 0), n, n, n + 1, n + 3, rnd.randint(0, n + 4)])
    r = rnd.random()
    if r < 0.15:
        s = [o] * ln
    elif r < 0.25:
        s = [z] * ln
    else:
        s = [rnd.choice((z, o)) for _ in range(ln)]
    return s, z, o


def random_history(n, kind, rnd, length):
    bs = kind == "bs"
    w = WORD[kind]
    bp = boundary_positions(n, w)
    L = ["new N=%d w=%s" % (n, kind)]

    def pos():
        return rnd.choice(bp) if rnd.random() < 0.6 else rnd.randrange(n)

    def obj():
        return rnd.randrange(4)

    whole = ["set_all", "reset_all", "flip_all"]
    for _ in range(length):
        r = rnd.random()
        o = obj()
        if r < 0.14:
            L.append("%s o=%d" % (rnd.choice(whole), o))
        elif r < 0.34:
            k = rnd.choice(["set", "reset", "flip", "ref_assign", "ref_flip"])
            if k == "set" and rnd.random() < 0.25:
                L.append("set o=%d pos=%d" % (o, pos()))
            elif k in ("set", "ref_assign"):
                L.append("%s o=%d pos=%d v=%d" % (k, o, pos(), rnd.randint(0, 1)))
            else:
                L.append("%s o=%d pos=%d" % (k, o, pos()))
        elif r < 0.38:
            L.append("ref_copy o=%d pos=%d src=%d spos=%d" % (o, pos(), obj(), pos()))
        elif r < 0.50:
            L.append("%s o=%d rhs=%d" % (rnd.choice(["and", "or", "xor"]), o, obj()))
        elif r < 0.58:
            L.append("%s o=%d a=%d b=%d" % (rnd.choice(["band", "bor", "bxor"]), o, obj(), obj()))
        elif r < 0.62:
            L.append("assign o=%d src=%d" % (o, obj()))
        elif r < 0.70:
            L.append("from_ull o=%d %s" % (o, hl(rand_value(n, rnd))))
        elif r < 0.78:
            L.append("eq o=%d rhs=%d" % (o, obj()))
        elif r < 0.84:
            L.append("probe o=%d pos=%d" % (o, pos()))
        elif bs:
            if r < 0.88:
                L.append("not o=%d src=%d" % (o, obj()))
            elif r < 0.94:
                ct = rnd.choice(["c", "c"] + CTS) if n in WIDE_CT else "c"
                s, z, one = rand_string(n, rnd, ct)
                # how many trailing arguments are passed; the defaulted characters need a string over {'0','1'}
                dflt_ok = (z, one) == (48, 49)
                if rnd.random() < 0.3:
                    cnt = rnd.choice(["npos"] + list(range(len(s) + 1)))
                    na = rnd.choice([1, 2, 4]) if dflt_ok else 4
                    cnt = None if na < 2 else cnt
                    L.append(str_line(o, s, None, cnt, z if na == 4 else None, one if na == 4 else None, "cstr", ct))
                else:
                    p = rnd.choice([0, 0, rnd.randint(0, len(s)), len(s)])
                    cnt = rnd.choice(["npos", "npos", rnd.randint(0, len(s) + 2), n, max(len(s) - p, 0)])
                    na = rnd.choice([1, 2, 3, 5, 5]) if dflt_ok else 5
                    L.append(str_line(o, s, p if na >= 2 else None, cnt if na >= 3 else None, z if na == 5 else None,
                                      one if na == 5 else None, "sv", ct))
            elif r < 0.97:
                L.append("%s o=%d" % (rnd.choice(["to_ullong", "to_ulong"]), o))
            else:
                ct = rnd.choice(["c", "c"] + CTS) if n in WIDE_CT else "c"
                tail = "" if ct == "c" else " ct=" + ct
                z, one = rnd.choice(CT_PAIRS[ct])
                k = rnd.randrange(3)
                if k == 0:
                    L.append("to_string o=%d cap=%d%s" % (o, rnd.choice([n, n + 5]), tail))
                elif k == 1:
                    L.append("to_string o=%d cap=%d zero=%d%s" % (o, rnd.choice([n, n + 5]), z, tail))
                else:
                    L.append("to_string o=%d cap=%d zero=%d one=%d%s" % (o, rnd.choice([n, n + 5]), z, one, tail))
        else:
            L.append("%s o=%d" % (rnd.choice(whole), o))
    return L


def generate(tier, seed):
    rnd = random.Random(seed)
    thorough = tier == "thorough"
    cases = []
    dist = {}

    def add(lines, tag):
        cases.append(Case(lines, tag))
        dist[tag] = dist.get(tag, 0) + 1
        for ln in lines[1:]:
            k = "op:" + ln.split(" ", 1)[0]
            dist[k] = dist.get(k, 0) + 1

    # 1. small widths: every value x every single operation
    for n in SMALL:
        for kind in KINDS:
            vals = range(1 << n)
            if not thorough and kind in ("16", "32") and n == 9:
                vals = sorted(set(rnd.sample(range(1 << n), 128)) | {0, (1 << n) - 1})
            for v in vals:
                add(single_op_case(n, kind, v, rnd), "exh/N%d/%s" % (n, kind))
    # 2. string constructors on the small box
    for n in SMALL:
        for c in string_ctor_cases(n, rnd):
            add(c.lines, c.tag)
    for n in (1, 9):
        for c in char_type_cases(n, rnd):
            add(c.lines, c.tag)
    # 3. to_ulong / to_ullong on sets wider than 64 bits: the value fits / does not fit (std: overflow_error; tetl:
    #    the "value fits" contract fails), on both sides of every boundary bit
    for n in (65, 127, 128, 129):
        L = ["new N=%d w=bs" % n, "from_ull o=0 %s" % hl(rnd.getrandbits(64)), "to_ullong o=0", "to_ulong o=0"]
        for p in sorted({64, 65 if n > 65 else 64, n // 2 + 32, n - 2, n - 1}):
            L += ["set o=0 pos=%d v=1" % p, "to_ullong o=0", "to_ulong o=0", "reset o=0 pos=%d" % p, "to_ullong o=0"]
        L += ["set o=0 pos=63 v=1", "to_ullong o=0", "flip_all o=0", "to_ulong o=0", "reset_all o=0", "to_ullong o=0",
              "set_all o=0", "to_ullong o=0"]
        add(L, "wide-to-ullong/N%d" % n)
    # 3b. bitset<0>
    for kind in KINDS:
        add(zero_width_case(kind, rnd), "zero/N0/%s" % kind)
    # 4. random histories at every width and storage kind
    per = 1200 if thorough else 30
    for n in WIDTHS:
        for kind in KINDS:
            for _ in range(per):
                add(random_history(n, kind, rnd, rnd.choice([8, 20, 40, 60])), "rand/N%d/%s" % (n, kind))
    return cases, False, dist


def width_of(case):
    for tok in case.lines[0].split():
        if tok.startswith("N="):
            return int(tok[2:])
    return 0


def nontrivial(case, rows):
    n = width_of(case)
    states = set()
    mixed = n == 1
    if n == 0:
        return False        # bitset<0> has a single state: executed and compared, never counted as non-trivial
    for r in rows:
        s = r.spec
        i = s.find("s=")
        if i < 0:
            continue
        bits = s[i + 2:].split(" ", 1)[0]
        states.add(bits)
        if "0" in bits and "1" in bits:
            mixed = True
    return mixed and len(states) >= 2


def classify(case, k, row):
    """no known (unrepaired) finding is left for C17: every impl != spec is a violation"""
    return None


def group_of(case):
    return case.tag.split("/")[0]


CLAIMED = True
TECHNIQUE = ("Lean 4 proof: padding invariant + refinement of the word-array model to a bit-position function by induction over "
             "histories, for every width and word size; model tied to the code by exhaustive small-width + random-history "
             "correspondence run")
LEVEL_TEXT = ("A word-array model of basic_bitset/bitset (BitVec words, checked reads/writes, the source's masks, loops and "
              "preconditions; width N and word size 2^k are parameters) is proved in Lean 4 to refine the bit-position "
              "specification of std::bitset for EVERY N >= 0 (bitset<0> included), every word size and every valid history of "
              "unbounded length: no operation ever returns an error (no out-of-range word access, no over-wide shift, no failed "
              "contract), the padding bits of the last word stay zero, and the observers return the specified values; "
              "to_ulong/to_ullong are proved for every width in both directions (value returned when it fits in 64 bits, contract "
              "failure exactly when std::bitset throws overflow_error); calls that leave trailing arguments to their defaults "
              "(set(pos), to_string(), to_string(zero), the shorter argument lists of both string constructors) are separate "
              "model operations with their own theorems; characters are code unit values, so the string members are proved for "
              "every character type.  A character buffer is modelled as the list of units readable up to the end of its "
              "allocation and a string_view as buffer + size(), every unit read being checked: the pointer overload is proved to "
              "use basic_string(str) for npos and EXACTLY the first n units otherwise (null characters included, "
              "Spec.cstrChars), and footprint theorems state what is read: the result on an exact-size buffer equals the result "
              "on any extension of it for the view constructor (fromString_footprint: nothing at or behind data()+size()), for "
              "the pointer overload with an explicit n (fromCstr_footprint / fromCstr_take: the first n units, no terminator is "
              "looked for) and for its npos form (fromCstr_npos_footprint: up to and including the terminator).  The model is tied to the current source on every "
              "run by executing model and implementation (ASan/UBSan, contract checks on) on the same histories: exhaustive for N in "
              "{1,7,8,9} x 5 storage kinds (every value x every single operation), random histories to length 60 at the 13 widths "
              "around the word boundaries, N = 0, and wchar_t/char8_t/char16_t/char32_t instantiations at six widths; string "
              "arguments are exact-size heap buffers (no terminator behind an explicit n; alphabets with CharT(0)); the spec is "
              "validated against libstdc++ std::bitset on the same lines.")
LEVEL_NOTE = ("Trusted: Lean kernel + propext/Classical.choice/Quot.sound; the hand model's fidelity outside the explored "
              "histories; the popcount builtin returns the number of one bits (the portable loop is proved); g++-12/ASan; "
              "libstdc++ as oracle for spec validation. Items listed in coverage.correspondence_only have no theorem and are "
              "covered by the differential run only.")
# covered by the differential run only (no Lean theorem)
CORRESPONDENCE_ONLY = [
    "popcount on the run-time path: __builtin_popcount{,l,ll} (trusted to return the number of one bits; the portable loop of the "
    "constant-evaluated path is proved: C17.Props.popcount_code)",
    "that the default arguments written in bitset.hpp are 0 / npos / CharT('0') / CharT('1') / true (the values the model "
    "operations setD, fromStringD, fromCstrD, toStrD carry and the theorems use): read off the source, exercised by the harness "
    "calling every shorter argument list",
    "user-supplied Traits (Traits::eq other than ==) and character types other than char, wchar_t, char8_t, char16_t, char32_t",
]
